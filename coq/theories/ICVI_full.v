(* C15, full statement for add_sample: after ANY sequence of add_sample /
   update operations the tracked Calinski-Harabasz value equals the batch
   index of the current labelled data (exact real arithmetic), and every such
   operation is defined.  Invariant: the dictionary holds, for exactly the
   labels in use, the count, mean, within-cluster sum of squares and a zero
   correction vector of that label's members; WGSS is the sum of the CPs; mu is
   the global mean. *)
From Coq Require Import List Bool Arith ZArith Reals Lra Lia Permutation.
From ART Require Import Num NumR Vec VecR Search Kernel SimpleARTMAP ICVI ICVI_R.
Import ListNotations.
Open Scope R_scope.

Notation chR := (@ch RN).
Notation cstatR := (@cstat RN).
Definition data := list (list R * nat).
Definition pts (D : data) : list (list R) := map fst D.
Definition members (D : data) (l : nat) : list (list R) := @cluster RN D l.

Definition sqR (x : list R) : R := dotR x x.
Definition meanv (d : nat) (C : list (list R)) : list R :=
  vscaleR (1 / INR (length C)) (fold_left vaddR C (repeat 0 d)).
Definition css (d : nat) (C : list (list R)) : R :=
  lsum (map (fun y : list R => sqR (vsubR y (meanv d C))) C).

(* per-coordinate sufficient statistics of a list of vectors *)
Definition s1 (C : list (list R)) (i : nat) : R := lsum (map (co i) C).
Definition s2 (C : list (list R)) (i : nat) : R := lsum (map (fun y => co i y * co i y) C).

Definition wf (d : nat) (C : list (list R)) : Prop := Forall (fun y => length y = d) C.

Ltac normT := change (T RN) with R in *.

(* ------------------------------------------------------------------ small facts *)
Lemma nlen_INR {A} (l : list A) : @nlen RN A l = INR (length l).
Proof. unfold nlen. cbn. symmetry. apply INR_IZR_INZ. Qed.

Lemma INR_pos_of_nonempty {A} (l : list A) : l <> [] -> 0 < INR (length l).
Proof. destruct l; [congruence|]. intros _. apply lt_0_INR. cbn. lia. Qed.

Lemma odiv_some (a b : R) : b <> 0 -> @odiv RN a b = Some (a / b).
Proof. intros H. unfold odiv. cbn. apply Reqb_false in H. rewrite H. reflexivity. Qed.

Lemma obind_some_id {A} (o : option A) : (r <- o ;; Some r) = o.
Proof. destruct o; reflexivity. Qed.

Lemma omap_some {A B} (f : A -> option B) (g : A -> B) (l : list A) :
  (forall a, In a l -> f a = Some (g a)) -> omap f l = Some (map g l).
Proof.
  induction l as [|a l IH]; intros H; cbn; [reflexivity|].
  rewrite (H a) by (left; reflexivity). cbn. rewrite IH by (intros; apply H; right; assumption). reflexivity.
Qed.

Lemma meanv_length d C : wf d C -> @length R (meanv d C) = d.
Proof.
  intros H. unfold meanv. rewrite vscale_length.
  apply (proj1 (co_fold_vadd d C (repeat 0 d) (repeat_length 0 d) H)).
Qed.

Lemma co_meanv d C i : wf d C -> (i < d)%nat -> co i (meanv d C) = s1 C i / INR (length C).
Proof.
  intros H Hi. unfold meanv. rewrite co_vscale.
  rewrite (proj2 (co_fold_vadd d C (repeat 0 d) (repeat_length 0 d) H) i Hi).
  rewrite co_repeat by exact Hi. unfold s1. lra.
Qed.

Lemma s1_app C x i : s1 (C ++ [x]) i = s1 C i + co i x.
Proof. unfold s1. rewrite map_app, lsum_app. unfold lsum. cbn. lra. Qed.
Lemma s2_app C x i : s2 (C ++ [x]) i = s2 C i + co i x * co i x.
Proof. unfold s2. rewrite map_app, lsum_app. unfold lsum. cbn. lra. Qed.

Lemma wf_app d C x : wf d C -> length x = d -> wf d (C ++ [x]).
Proof. intros H Hx. apply Forall_app. split; [exact H|]. constructor; [exact Hx|constructor]. Qed.

(* the within-cluster sum of squares, coordinate by coordinate *)
Lemma css_coord d C : wf d C -> C <> [] ->
  css d C = bigsum d (fun i => s2 C i - s1 C i * s1 C i / INR (length C)).
Proof.
  intros H Hne. unfold css.
  assert (E : forall y, In y C -> sqR (vsubR y (meanv d C)) =
                                  bigsum d (fun i => (co i y - s1 C i / INR (length C)) * (co i y - s1 C i / INR (length C)))).
  { intros y Hy. assert (Ly : length y = d) by (eapply Forall_forall in H; eauto).
    pose proof (meanv_length d C H) as Lm.
    unfold sqR. rewrite (dot_bigsum _ _ d) by (rewrite vsub_length; lia).
    apply bigsum_ext. intros i Hi. rewrite co_vsub by lia. rewrite co_meanv by assumption. reflexivity. }
  rewrite (lsum_map_ext _ _ C E). rewrite lsum_bigsum. apply bigsum_ext. intros i Hi.
  pose proof (ss_about_mean (map (co i) C)) as S. cbv zeta in S.
  assert (Hm : map (co i) C <> []) by (destruct C; [congruence|discriminate]).
  specialize (S Hm). rewrite map_length in S.
  change (fold_right Rplus 0 (map (co i) C)) with (s1 C i) in S.
  transitivity (fold_right (fun a acc => (a - s1 C i / INR (length C)) * (a - s1 C i / INR (length C)) + acc) 0 (map (co i) C)).
  { unfold lsum. generalize (s1 C i / INR (length C)). intros m. clear.
    induction C as [|y C IH]; cbn; [reflexivity|]. rewrite IH. reflexivity. }
  rewrite S. f_equal. unfold s2, lsum. clear.
  induction C as [|y C IH]; cbn; [reflexivity|]. rewrite IH. reflexivity.
Qed.

(* ------------------------------------------------------------------ one cluster gains a member *)
Record cluster_ok (d : nat) (C : list (list R)) (D : cstatR) : Prop := {
  ok_n : c_n D = INR (length C);
  ok_v : c_v D = meanv d C;
  ok_CP : c_CP D = css d C;
  ok_G : c_G D = repeat 0 d }.

Lemma cluster_ok_first d (x : list R) : length x = d ->
  cluster_ok d [x] (@mkCstat RN 1 x 0 (repeat 0 d)).
Proof.
  intros Hx. assert (W1 : wf d [x]) by (constructor; [exact Hx|constructor]).
  assert (Mx : meanv d [x] = x).
  { apply vec_ext; [rewrite meanv_length by exact W1; lia|].
    intros i Hi. rewrite meanv_length in Hi by exact W1. rewrite co_meanv by assumption.
    unfold s1, lsum. cbn. field. }
  constructor; cbn [c_n c_v c_CP c_G]; auto.
  unfold css. cbn [map]. rewrite Mx. unfold lsum. cbn [fold_right].
  unfold sqR. rewrite (dot_bigsum _ _ d) by (rewrite vsub_length; lia).
  rewrite (bigsum_ext d _ (fun _ => 0)); [rewrite bigsum_0; lra|].
  intros i Hi. rewrite co_vsub by lia. lra.
Qed.

Lemma add_stats_existing (s : chR) d (C : list (list R)) (D : cstatR) (x : list R) (l : nat) :
  wf d C -> C <> [] -> length x = d ->
  cd_get (h_CD s) l = Some D -> cluster_ok d C D ->
  exists D' cpd, add_stats s x l = Some (D', cpd) /\ cluster_ok d (C ++ [x]) D' /\ cpd = css d (C ++ [x]) - css d C.
Proof.
  intros HW Hne Hx Hget [On Ov OCP OG].
  pose proof (INR_pos_of_nonempty C Hne) as Hn.
  assert (W' : wf d (C ++ [x])) by (apply wf_app; assumption).
  assert (Ne' : C ++ [x] <> []) by (destruct C; discriminate).
  assert (Len' : INR (length (C ++ [x])) = INR (length C) + 1) by (rewrite app_length, plus_INR; cbn; lra).
  unfold add_stats. rewrite Hget. cbn [nadd RN n1].
  rewrite odiv_some by (rewrite On; lra). cbn [obind].
  set (n := INR (length C)) in *.
  set (v := c_v D). normT.
  assert (Lv : @length R v = d) by (unfold v; rewrite Ov; apply meanv_length; exact HW).
  set (u := vsubR x v). normT.
  assert (Lu : @length R u = d) by (unfold u; rewrite vsub_length; lia).
  set (dV := @vscale RN (@nneg RN 1) (@vscale RN (1 / (c_n D + 1)) u)). normT.
  assert (LdV : @length R dV = d) by (unfold dV; rewrite !vscale_length; exact Lu).
  set (v' := vsubR v dV). normT.
  assert (Lv' : @length R v' = d) by (unfold v'; rewrite vsub_length; lia).
  set (dxv := vsubR x v'). normT.
  assert (Ldxv : @length R dxv = d) by (unfold dxv; rewrite vsub_length; lia).
  assert (CdV : forall i, (i < d)%nat -> co i dV = (0 - 1) * ((1 / (n + 1)) * (co i x - s1 C i / n))).
  { intros i Hi. unfold dV. rewrite !co_vscale. unfold u. rewrite co_vsub by lia.
    unfold v. rewrite Ov, co_meanv by assumption. rewrite On. reflexivity. }
  assert (Cv' : forall i, (i < d)%nat -> co i v' = (s1 C i + co i x) / (n + 1)).
  { intros i Hi. unfold v'. rewrite co_vsub by lia. rewrite CdV by exact Hi.
    unfold v. rewrite Ov, co_meanv by assumption. fold n. field. lra. }
  assert (Cdxv : forall i, (i < d)%nat -> co i dxv = co i x - (s1 C i + co i x) / (n + 1)).
  { intros i Hi. unfold dxv. rewrite co_vsub by lia. rewrite Cv' by exact Hi. reflexivity. }
  eexists. eexists. split; [reflexivity|]. split.
  - constructor; cbn [c_n c_v c_CP c_G].
    + rewrite On. fold n. lra.
    + apply vec_ext; [rewrite meanv_length by exact W'; exact Lv'|].
      intros i Hi. rewrite Lv' in Hi. rewrite Cv' by exact Hi. rewrite co_meanv by assumption.
      rewrite s1_app, Len'. reflexivity.
    + rewrite OCP. rewrite (css_coord d C HW Hne), (css_coord d (C ++ [x]) W' Ne').
      unfold sq.
      rewrite (dot_bigsum dxv dxv d Ldxv Ldxv), (dot_bigsum dV dV d LdV LdV).
      rewrite (dot_bigsum dV (c_G D) d LdV) by (rewrite OG; apply repeat_length).
      cbn [nadd nsub nmul RN n1 n2]. unfold n2. cbn [nadd RN n1].
      rewrite <- !bigsum_scal, <- !bigsum_plus. apply bigsum_ext. intros i Hi.
      rewrite OG, co_repeat by exact Hi. rewrite Cdxv, CdV by exact Hi.
      rewrite s1_app, s2_app, Len', On. fold n. field. lra.
    + rewrite OG.
      assert (L1 : @length R (vaddR (repeat 0 d) dxv) = d)
        by (rewrite vadd_length; rewrite repeat_length; [reflexivity|symmetry; exact Ldxv]).
      assert (L2 : @length R (vscaleR (@nsub RN (c_n D + 1) 1) dV) = d) by (rewrite vscale_length; exact LdV).
      assert (L12 : @length R (vaddR (repeat 0 d) dxv) = @length R (vscaleR (@nsub RN (c_n D + 1) 1) dV))
        by (transitivity d; [exact L1|symmetry; exact L2]).
      assert (L0 : @length R (repeat 0 d) = @length R dxv) by (rewrite repeat_length; symmetry; exact Ldxv).
      apply vec_ext.
      * normT. rewrite (vadd_length _ _ L12). rewrite repeat_length. exact L1.
      * intros i Hi. normT. rewrite (vadd_length _ _ L12) in Hi.
        assert (Hi' : (i < d)%nat) by (rewrite <- L1; exact Hi).
        rewrite (co_vadd _ _ i L12 Hi).
        rewrite (co_vadd _ _ i L0) by (rewrite repeat_length; exact Hi').
        rewrite co_vscale, !co_repeat by exact Hi'. rewrite Cdxv, CdV by exact Hi'.
        cbn [nsub nadd RN n1]. rewrite On. field. lra.
  - rewrite (css_coord d C HW Hne), (css_coord d (C ++ [x]) W' Ne').
    unfold sq.
    rewrite (dot_bigsum dxv dxv d Ldxv Ldxv), (dot_bigsum dV dV d LdV LdV).
    rewrite (dot_bigsum dV (c_G D) d LdV) by (rewrite OG; apply repeat_length).
    cbn [nadd nsub nmul RN n1 n2]. unfold n2. cbn [nadd RN n1].
    rewrite <- bigsum_minus, <- !bigsum_scal, <- !bigsum_plus. apply bigsum_ext. intros i Hi.
    rewrite OG, co_repeat by exact Hi. rewrite Cdxv, CdV by exact Hi.
    rewrite s1_app, s2_app, Len', On. fold n. field. lra.
Qed.

(* ------------------------------------------------------------------ the dictionary *)
Definition keys (cd : list (nat * cstatR)) : list nat := map fst cd.
Definition CPof (kc : nat * cstatR) : R := c_CP (snd kc).

Lemma cd_get_in (cd : list (nat * cstatR)) l c : cd_get cd l = Some c -> In (l, c) cd.
Proof.
  induction cd as [|[k c0] cd IH]; cbn; [discriminate|].
  destruct (Nat.eqb_spec k l) as [->|Hne]; intros H; [injection H as ->; left; reflexivity|right; auto].
Qed.

Lemma cd_get_none (cd : list (nat * cstatR)) l : cd_get cd l = None <-> ~ In l (keys cd).
Proof.
  induction cd as [|[k c0] cd IH]; cbn; [tauto|].
  destruct (Nat.eqb_spec k l) as [->|Hne]; [split; [discriminate|intros H; exfalso; apply H; left; reflexivity]|].
  rewrite IH. split; intros H; [intros [E|E]; [congruence|tauto]|tauto].
Qed.

Lemma cd_get_some_key (cd : list (nat * cstatR)) l c : cd_get cd l = Some c -> In l (keys cd).
Proof. intros H. apply cd_get_in in H. apply (in_map fst) in H. exact H. Qed.

Lemma cd_get_nodup (cd : list (nat * cstatR)) l c : NoDup (keys cd) -> In (l, c) cd -> cd_get cd l = Some c.
Proof.
  induction cd as [|[k c0] cd IH]; cbn; [tauto|]. intros ND [E|E].
  - injection E as -> ->. rewrite Nat.eqb_refl. reflexivity.
  - inversion ND as [|? ? Hk ND']; subst.
    destruct (Nat.eqb_spec k l) as [->|Hne]; [exfalso; apply Hk; apply (in_map fst) in E; exact E|auto].
Qed.

Lemma cd_set_present (cd : list (nat * cstatR)) l c : In l (keys cd) -> keys (cd_set cd l c) = keys cd.
Proof.
  unfold keys. induction cd as [|[k c0] cd IH]; cbn; [tauto|].
  destruct (Nat.eqb_spec k l) as [->|Hne]; cbn; [reflexivity|]. intros [E|E]; [congruence|]. f_equal. apply IH. exact E.
Qed.

Lemma cd_set_absent (cd : list (nat * cstatR)) l c : ~ In l (keys cd) -> cd_set cd l c = cd ++ [(l, c)].
Proof.
  induction cd as [|[k c0] cd IH]; cbn; [reflexivity|]. intros H.
  destruct (Nat.eqb_spec k l) as [->|Hne]; [exfalso; apply H; left; reflexivity|]. rewrite IH by tauto. reflexivity.
Qed.

Lemma cd_get_set_same (cd : list (nat * cstatR)) l c : cd_get (cd_set cd l c) l = Some c.
Proof.
  induction cd as [|[k c0] cd IH]; cbn; [rewrite Nat.eqb_refl; reflexivity|].
  destruct (Nat.eqb_spec k l) as [->|Hne]; cbn; [rewrite Nat.eqb_refl; reflexivity|].
  destruct (Nat.eqb_spec k l); [congruence|exact IH].
Qed.

Lemma cd_get_set_other (cd : list (nat * cstatR)) l l' c : l' <> l -> cd_get (cd_set cd l c) l' = cd_get cd l'.
Proof.
  intros Hne. induction cd as [|[k c0] cd IH]; cbn.
  - destruct (Nat.eqb_spec l l'); [congruence|reflexivity].
  - destruct (Nat.eqb_spec k l) as [->|Hkl]; cbn.
    + destruct (Nat.eqb_spec l l'); [congruence|reflexivity].
    + destruct (Nat.eqb_spec k l'); [reflexivity|exact IH].
Qed.

Lemma cd_set_sum_present (cd : list (nat * cstatR)) l c c' : cd_get cd l = Some c ->
  lsum (map CPof (cd_set cd l c')) = lsum (map CPof cd) - c_CP c + c_CP c'.
Proof.
  unfold lsum, CPof. induction cd as [|[k c0] cd IH]; cbn; [discriminate|].
  destruct (Nat.eqb_spec k l) as [->|Hne]; cbn; intros H; [injection H as ->; lra|]. rewrite IH by exact H. lra.
Qed.

Lemma cd_set_sum_absent (cd : list (nat * cstatR)) l c' : cd_get cd l = None ->
  lsum (map CPof (cd_set cd l c')) = lsum (map CPof cd) + c_CP c'.
Proof.
  intros H. apply cd_get_none in H. rewrite cd_set_absent by exact H.
  rewrite map_app, lsum_app. unfold lsum, CPof. cbn. lra.
Qed.

(* ------------------------------------------------------------------ the labelled data *)
Lemma members_app_same (D : data) x l : members (D ++ [(x, l)]) l = members D l ++ [x].
Proof. unfold members, cluster. rewrite filter_app, map_app. cbn. rewrite Nat.eqb_refl. reflexivity. Qed.

Lemma members_app_other (D : data) x l l' : l' <> l -> members (D ++ [(x, l)]) l' = members D l'.
Proof.
  intros H. unfold members, cluster. rewrite filter_app, map_app. cbn.
  destruct (Nat.eqb_spec l l'); [congruence|]. cbn. apply app_nil_r.
Qed.

Lemma members_nonempty (D : data) l : In l (map snd D) <-> members D l <> [].
Proof.
  unfold members, cluster. induction D as [|[y k] D IH]; cbn; [tauto|].
  destruct (Nat.eqb_spec k l) as [->|Hne]; cbn; [split; [discriminate|auto]|].
  rewrite <- IH. split; [intros [E|E]; [congruence|exact E]|auto].
Qed.

Lemma members_wf d (D : data) l : Forall (fun p => length (fst p) = d) D -> wf d (members D l).
Proof.
  unfold members, cluster, wf. intros H. apply Forall_forall. intros y Hy.
  apply in_map_iff in Hy. destruct Hy as [[y' k] [E Hin]]. cbn in E. subst y'.
  apply filter_In in Hin. destruct Hin as [Hin _]. eapply Forall_forall in H; eauto. exact H.
Qed.

Lemma pts_app (D : data) x l : pts (D ++ [(x, l)]) = pts D ++ [x].
Proof. unfold pts. rewrite map_app. reflexivity. Qed.

Lemma pts_wf d (D : data) : Forall (fun p => length (fst p) = d) D -> wf d (pts D).
Proof. unfold pts, wf. intros H. apply Forall_map. exact H. Qed.

Lemma meanv_single d (x : list R) : length x = d -> meanv d [x] = x.
Proof.
  intros Hx. assert (W1 : wf d [x]) by (constructor; [exact Hx|constructor]).
  apply vec_ext; [rewrite meanv_length by exact W1; lia|].
  intros i Hi. rewrite meanv_length in Hi by exact W1. rewrite co_meanv by assumption.
  unfold s1, lsum. cbn. field.
Qed.

Lemma meanv_snoc d (C : list (list R)) (x : list R) : wf d C -> C <> [] -> length x = d ->
  vaddR (meanv d C) (vscaleR (1 / (INR (length C) + 1)) (vsubR x (meanv d C))) = meanv d (C ++ [x]).
Proof.
  intros HW Hne Hx. pose proof (INR_pos_of_nonempty C Hne) as Hn.
  assert (W' : wf d (C ++ [x])) by (apply wf_app; assumption).
  pose proof (meanv_length d C HW) as Lm.
  assert (Lu : @length R (vsubR x (meanv d C)) = d) by (rewrite vsub_length; lia).
  assert (Ls : @length R (vscaleR (1 / (INR (length C) + 1)) (vsubR x (meanv d C))) = d) by (rewrite vscale_length; exact Lu).
  assert (E : @length R (meanv d C) = @length R (vscaleR (1 / (INR (length C) + 1)) (vsubR x (meanv d C)))) by lia.
  apply vec_ext.
  - rewrite (vadd_length _ _ E). rewrite (meanv_length d (C ++ [x]) W'). exact Lm.
  - intros i Hi. rewrite (vadd_length _ _ E), Lm in Hi.
    rewrite (co_vadd _ _ i E) by (rewrite Lm; exact Hi). rewrite co_vscale, co_vsub by lia.
    rewrite !co_meanv by assumption. rewrite s1_app, app_length, plus_INR. cbn [length INR]. field. lra.
Qed.

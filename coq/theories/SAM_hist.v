(* C06 for SimpleARTMAP (and, through it, ARTMAP's A side): two consecutive
   partial_fit calls equal one call on the concatenation - the whole state:
   A-side weights, counters, labels, the category-to-class map and the stored
   targets - so any partition of a stream into non-empty batches gives the
   same model. *)
From Coq Require Import List Bool Arith Lia.
From ART Require Import Num Vec Search Search_proofs Kernel BaseArt BaseArt_proofs BaseArt_book BaseArt_hist
     SimpleARTMAP SimpleARTMAP_proofs.
Import ListNotations.

Lemma set_nth_app_l {A} k (a : A) : forall l ext, k < length l -> set_nth k a (l ++ ext) = set_nth k a l ++ ext.
Proof.
  induction k as [|k IH]; intros [|b l] ext H; cbn in *; try lia; [reflexivity|].
  f_equal. apply IH. lia.
Qed.

Section SH.
  Context {N : Num}.
  Variable K : Kernel N.
  Notation sam := (@sam N).

  (* ---- the loop over a concatenation ---- *)
  Lemma sam_loop_app X1 : forall y1 X2 y2 (s : sam) i j m eps, length X1 = length y1 ->
    sam_loop K s (X1 ++ X2) (y1 ++ y2) i j m eps =
    (s1 <- sam_loop K s X1 y1 i j m eps ;; sam_loop K s1 X2 y2 (i + length X1) j m eps).
  Proof.
    induction X1 as [|x X1 IH]; intros [|c y1] X2 y2 s i j m eps HL; cbn in HL; try discriminate.
    - cbn [app sam_loop obind length]. rewrite Nat.add_0_r. reflexivity.
    - cbn [app sam_loop length]. destruct (sam_step K s x c m eps) as [[s1 ca]|]; cbn [obind]; [|reflexivity].
      rewrite IH by lia. replace (S i + length X1) with (i + S (length X1)) by lia. reflexivity.
  Qed.

  (* only the position i + j matters *)
  Lemma sam_loop_shift X : forall y (s : sam) i j i' j' m eps, i + j = i' + j' ->
    sam_loop K s X y i j m eps = sam_loop K s X y i' j' m eps.
  Proof.
    induction X as [|x X IH]; intros [|c y] s i j i' j' m eps H; cbn [sam_loop]; try reflexivity.
    destruct (sam_step K s x c m eps) as [[s1 ca]|]; cbn [obind]; [|reflexivity].
    rewrite H. apply IH. lia.
  Qed.

  (* ---- two runs that differ only in not-yet-used label slots and in later targets ---- *)
  Definition R (ext extb : list nat) (s t : sam) : Prop :=
    tr (A s) = tr (A t) /\ hasW (A s) = hasW (A t) /\ dim (A s) = dim (A t) /\
    labels (A t) = labels (A s) ++ ext /\ mp s = mp t /\ bl t = bl s ++ extb /\ hasL s = hasL t.

  Lemma sam_step_sim ext extb (s t : sam) x cb m eps : R ext extb s t ->
    match sam_step K s x cb m eps, sam_step K t x cb m eps with
    | Some (s1, ca), Some (t1, ca') => R ext extb s1 t1 /\ ca = ca'
    | None, None => True
    | _, _ => False
    end.
  Proof.
    intros (Ht & Hw & Hd & Hl & Hm & Hb & Hh). unfold sam_step. rewrite <- Hm.
    pose proof (step_fit_tr K (A s) (A t) x (Some (sam_veto (mp s) cb)) m eps Ht) as ST.
    destruct (step_fit K (A s) x (Some (sam_veto (mp s) cb)) m eps) as [[[a1 c1] v1]|] eqn:E1,
             (step_fit K (A t) x (Some (sam_veto (mp s) cb)) m eps) as [[[b1 c2] v2]|] eqn:E2; cbn [obind]; try tauto.
    destruct ST as (T1 & <- & _).
    destruct (step_fit_frame K _ _ _ _ _ _ _ _ E1) as (_ & _ & La & Wa & Da & _).
    destruct (step_fit_frame K _ _ _ _ _ _ _ _ E2) as (_ & _ & Lb & Wb & Db & _).
    assert (RR : forall mp', R ext extb {| A := a1; mp := mp'; bl := bl s; hasL := hasL s |} {| A := b1; mp := mp'; bl := bl t; hasL := hasL t |}).
    { intros mp'. unfold R. cbn. repeat split; congruence. }
    destruct (lookup (mp s) c1) as [b|].
    - destruct (Nat.eqb b cb); [split; [apply RR|reflexivity]|exact I].
    - split; [apply RR|reflexivity].
  Qed.

  Lemma sam_loop_sim ext extb X : forall y (s t : sam) i j m eps, R ext extb s t ->
    i + j + length X <= length (labels (A s)) ->
    match sam_loop K s X y i j m eps, sam_loop K t X y i j m eps with
    | Some s', Some t' => R ext extb s' t'
    | None, None => True
    | _, _ => False
    end.
  Proof.
    induction X as [|x X IH]; intros [|c y] s t i j m eps HR Hlen; cbn [sam_loop]; try exact HR.
    pose proof (sam_step_sim ext extb s t x c m eps HR) as SS.
    destruct (sam_step K s x c m eps) as [[s1 ca]|] eqn:E1, (sam_step K t x c m eps) as [[t1 ca']|] eqn:E2; cbn [obind]; try tauto.
    destruct SS as ((Ht & Hw & Hd & Hl & Hm & Hb & Hh) & <-).
    assert (Ls : labels (A s1) = labels (A s)).
    { unfold sam_step in E1. destruct (step_fit K (A s) x _ m eps) as [[[a1 c1] v1]|] eqn:EF; cbn [obind] in E1; [|discriminate].
      destruct (step_fit_frame K _ _ _ _ _ _ _ _ EF) as (_ & _ & La & _).
      destruct (lookup (mp s) c1) as [b|]; [destruct (Nat.eqb b c); [|discriminate]|]; inversion E1; subst; exact La. }
    cbn [length] in Hlen.
    apply IH.
    - unfold R. cbn [set_A A mp bl hasL set_labels labels]. unfold tr in *. cbn [W wsc sc rho set_labels hasW dim].
      repeat split; try assumption. rewrite Hl. apply set_nth_app_l. rewrite Ls. lia.
    - cbn [set_A A set_labels labels]. rewrite set_nth_length, Ls. lia.
  Qed.

  (* ---- what the loop leaves alone ---- *)
  Lemma sam_step_frame (s s1 : sam) x cb m eps ca : sam_step K s x cb m eps = Some (s1, ca) ->
    bl s1 = bl s /\ hasL s1 = hasL s /\ dim (A s1) = dim (A s) /\ hasW (A s1) = hasW (A s) /\ labels (A s1) = labels (A s).
  Proof.
    unfold sam_step. destruct (step_fit K (A s) x _ m eps) as [[[a1 c1] v1]|] eqn:EF; cbn [obind]; [|discriminate].
    destruct (step_fit_frame K _ _ _ _ _ _ _ _ EF) as (_ & _ & La & Wa & Da & _).
    destruct (lookup (mp s) c1) as [b|]; [destruct (Nat.eqb b cb); [|discriminate]|]; intros H; inversion H; subst; cbn; auto.
  Qed.
  Lemma sam_loop_frame X : forall y (s s' : sam) i j m eps, sam_loop K s X y i j m eps = Some s' ->
    bl s' = bl s /\ hasL s' = hasL s /\ dim (A s') = dim (A s) /\ hasW (A s') = hasW (A s) /\
    length (labels (A s')) = length (labels (A s)).
  Proof.
    induction X as [|x X IH]; intros [|c y] s s' i j m eps H; cbn [sam_loop] in H; try (inversion H; subst; auto; fail).
    destruct (sam_step K s x c m eps) as [[s1 ca]|] eqn:E1; cbn [obind] in H; [|discriminate].
    destruct (sam_step_frame _ _ _ _ _ _ _ E1) as (B1 & H1 & D1 & W1 & L1).
    destruct (IH _ _ _ _ _ _ _ H) as (B2 & H2 & D2 & W2 & L2). cbn [set_A A bl hasL set_labels dim hasW labels] in *.
    rewrite set_nth_length in L2. repeat split; congruence.
  Qed.

  Lemma sam_ext (a b : sam) : A a = A b -> mp a = mp b -> bl a = bl b -> hasL a = hasL b -> a = b.
  Proof. destruct a, b; cbn; intros; subst; reflexivity. Qed.

  (* ---- two consecutive partial_fit calls = one on the concatenation ---- *)
  Theorem sam_partial_fit_app (s s1 s2 : sam) X1 y1 X2 y2 m eps :
    hasL s = true -> length (labels (A s)) = length (bl s) ->
    sam_partial_fit K s X1 y1 m eps = Some s1 ->
    sam_partial_fit K s1 X2 y2 m eps = Some s2 ->
    sam_partial_fit K s (X1 ++ X2) (y1 ++ y2) m eps = Some s2.
  Proof.
    intros HL Hlen P1 P2.
    unfold sam_partial_fit in P1. destruct (sam_valid K s X1 y1) eqn:V1; [|discriminate]. rewrite HL in P1.
    unfold sam_valid in V1. apply andb_prop in V1 as [V1 V1c]. apply andb_prop in V1 as [V1a V1b].
    apply Nat.eqb_eq in V1a. apply negb_true_iff in V1b. apply Nat.eqb_neq in V1b.
    assert (Hne : X1 <> []) by (intros ->; cbn in V1b; lia).
    destruct (learn_dim_tr (A s) X1) as (Et1 & El1 & Eh1).
    set (a0 := learn_dim (A s) X1) in *.
    set (S0 := {| A := set_labels a0 (labels a0 ++ repeat 0 (length X1)); mp := mp s; bl := bl s ++ y1; hasL := true |}) in *.
    destruct (sam_loop_frame X1 y1 S0 s1 0 (length (bl s)) m eps P1) as (B1 & H1 & D1 & W1 & L1).
    cbn [S0 A bl hasL set_labels dim hasW labels] in B1, H1, D1, W1, L1.
    (* the second call *)
    unfold sam_partial_fit in P2. destruct (sam_valid K s1 X2 y2) eqn:V2; [|discriminate]. rewrite H1 in P2.
    unfold sam_valid in V2. apply andb_prop in V2 as [V2 V2c]. apply andb_prop in V2 as [V2a V2b].
    apply Nat.eqb_eq in V2a.
    destruct (learn_dim_tr (A s1) X2) as (Et2 & El2 & Eh2).
    (* the call on the concatenation *)
    unfold sam_partial_fit.
    assert (V12 : sam_valid K s (X1 ++ X2) (y1 ++ y2) = true).
    { unfold sam_valid. rewrite !app_length, V1a, V2a, Nat.eqb_refl. cbn [andb].
      assert (E0 : (length y1 + length y2 =? 0) = false) by (apply Nat.eqb_neq; lia).
      rewrite E0. cbn [negb andb]. rewrite (valid_app K) by exact Hne. rewrite V1c. cbn [andb].
      unfold valid, dims_ok in *. fold a0. rewrite <- D1. exact V2c. }
    rewrite V12, HL.
    destruct (learn_dim_tr (A s) (X1 ++ X2)) as (Et12 & El12 & Eh12).
    set (a12 := learn_dim (A s) (X1 ++ X2)) in *.
    rewrite sam_loop_app by exact V1a. cbn [plus].
    set (S12 := {| A := set_labels a12 (labels a12 ++ repeat 0 (length (X1 ++ X2))); mp := mp s; bl := bl s ++ y1 ++ y2; hasL := true |}).
    assert (HR : R (repeat 0 (length X2)) y2 S0 S12).
    { unfold R, S0, S12. cbn [A mp bl hasL set_labels labels hasW dim]. unfold tr in *. cbn [set_labels W wsc sc rho].
      repeat split.
      - congruence.
      - congruence.
      - unfold a0, a12. symmetry. apply learn_dim_app. exact Hne.
      - rewrite El12, El1, app_length, repeat_app, app_assoc. reflexivity.
      - rewrite app_assoc. reflexivity. }
    pose proof (sam_loop_sim (repeat 0 (length X2)) y2 X1 y1 S0 S12 0 (length (bl s)) m eps HR) as SIM.
    rewrite P1 in SIM.
    assert (Hpos : 0 + length (bl s) + length X1 <= length (labels (A S0))).
    { cbn [S0 A set_labels labels]. rewrite app_length, repeat_length, El1. lia. }
    specialize (SIM Hpos).
    destruct (sam_loop K S12 X1 y1 0 (length (bl s)) m eps) as [t1|]; [|contradiction]. cbn [obind].
    destruct SIM as (Rt & Rw & Rd & Rl & Rm & Rb & Rh).
    (* the second call starts exactly in t1 *)
    assert (Est : {| A := set_labels (learn_dim (A s1) X2) (labels (learn_dim (A s1) X2) ++ repeat 0 (length X2));
                     mp := mp s1; bl := bl s1 ++ y2; hasL := true |} = t1).
    { apply sam_ext; cbn [A mp bl hasL].
      - apply st_ext.
        + unfold tr in *. cbn [set_labels W wsc sc rho]. congruence.
        + cbn [set_labels labels]. rewrite El2. symmetry. exact Rl.
        + cbn [set_labels hasW]. congruence.
        + cbn [set_labels dim]. rewrite <- Rd.
          assert (E : exists d, dim (A s1) = Some d).
          { rewrite D1. unfold a0, learn_dim. destruct (dim (A s)) eqn:Eds; [rewrite Eds; eauto|].
            destruct X1; [congruence|cbn; eauto]. }
          destruct E as [d E]. unfold learn_dim. rewrite E. exact E.
      - exact Rm.
      - symmetry. exact Rb.
      - rewrite <- Rh. symmetry. exact H1. }
    rewrite Est in P2. rewrite <- P2. apply sam_loop_shift. rewrite B1, app_length. lia.
  Qed.
  (* ... also when the first call is the first one ever (no stored targets yet) *)
  Theorem sam_partial_fit_app_first (s s1 s2 : sam) X1 y1 X2 y2 m eps :
    hasL s = false ->
    sam_partial_fit K s X1 y1 m eps = Some s1 ->
    sam_partial_fit K s1 X2 y2 m eps = Some s2 ->
    sam_partial_fit K s (X1 ++ X2) (y1 ++ y2) m eps = Some s2.
  Proof.
    intros HL P1 P2.
    unfold sam_partial_fit in P1. destruct (sam_valid K s X1 y1) eqn:V1; [|discriminate]. rewrite HL in P1.
    unfold sam_valid in V1. apply andb_prop in V1 as [V1 V1c]. apply andb_prop in V1 as [V1a V1b].
    apply Nat.eqb_eq in V1a. apply negb_true_iff in V1b. apply Nat.eqb_neq in V1b.
    assert (Hne : X1 <> []) by (intros ->; cbn in V1b; lia).
    destruct (learn_dim_tr (A s) X1) as (Et1 & El1 & Eh1).
    set (a0 := learn_dim (A s) X1) in *.
    set (S0 := {| A := {| W := []; labels := repeat 0 (length X1); wsc := wsc a0; sc := sc a0; rho := rho a0; hasW := true; dim := dim a0 |};
                  mp := mp s; bl := y1; hasL := true |}) in *.
    destruct (sam_loop_frame X1 y1 S0 s1 0 0 m eps P1) as (B1 & H1 & D1 & W1 & L1).
    cbn [S0 A bl hasL dim hasW labels] in B1, H1, D1, W1, L1.
    unfold sam_partial_fit in P2. destruct (sam_valid K s1 X2 y2) eqn:V2; [|discriminate]. rewrite H1 in P2.
    unfold sam_valid in V2. apply andb_prop in V2 as [V2 V2c]. apply andb_prop in V2 as [V2a V2b].
    apply Nat.eqb_eq in V2a.
    destruct (learn_dim_tr (A s1) X2) as (Et2 & El2 & Eh2).
    unfold sam_partial_fit.
    assert (V12 : sam_valid K s (X1 ++ X2) (y1 ++ y2) = true).
    { unfold sam_valid. rewrite !app_length, V1a, V2a, Nat.eqb_refl. cbn [andb].
      assert (E0 : (length y1 + length y2 =? 0) = false) by (apply Nat.eqb_neq; lia).
      rewrite E0. cbn [negb andb]. rewrite (valid_app K) by exact Hne. rewrite V1c. cbn [andb].
      unfold valid, dims_ok in *. fold a0. rewrite <- D1. exact V2c. }
    rewrite V12, HL.
    destruct (learn_dim_tr (A s) (X1 ++ X2)) as (Et12 & El12 & Eh12).
    set (a12 := learn_dim (A s) (X1 ++ X2)) in *.
    rewrite sam_loop_app by exact V1a. cbn [plus].
    match goal with |- obind (sam_loop K ?S X1 y1 0 0 m eps) _ = _ => set (S12 := S) end.
    assert (HR : R (repeat 0 (length X2)) y2 S0 S12).
    { unfold R, S0, S12. cbn [A mp bl hasL labels hasW dim]. unfold tr in *. cbn [W wsc sc rho].
      repeat split.
      - congruence.
      - unfold a0, a12. symmetry. apply learn_dim_app. exact Hne.
      - rewrite app_length, repeat_app. reflexivity. }
    pose proof (sam_loop_sim (repeat 0 (length X2)) y2 X1 y1 S0 S12 0 0 m eps HR) as SIM.
    rewrite P1 in SIM.
    assert (Hpos : 0 + 0 + length X1 <= length (labels (A S0))) by (cbn [S0 A labels]; rewrite repeat_length; lia).
    specialize (SIM Hpos).
    destruct (sam_loop K S12 X1 y1 0 0 m eps) as [t1|]; [|contradiction]. cbn [obind].
    destruct SIM as (Rt & Rw & Rd & Rl & Rm & Rb & Rh).
    assert (Est : {| A := set_labels (learn_dim (A s1) X2) (labels (learn_dim (A s1) X2) ++ repeat 0 (length X2));
                     mp := mp s1; bl := bl s1 ++ y2; hasL := true |} = t1).
    { apply sam_ext; cbn [A mp bl hasL].
      - apply st_ext.
        + unfold tr in *. cbn [set_labels W wsc sc rho]. congruence.
        + cbn [set_labels labels]. rewrite El2. symmetry. exact Rl.
        + cbn [set_labels hasW]. congruence.
        + cbn [set_labels dim]. rewrite <- Rd.
          assert (E : exists d, dim (A s1) = Some d).
          { rewrite D1. unfold a0, learn_dim. destruct (dim (A s)) eqn:Eds; [rewrite Eds; eauto|].
            destruct X1; [congruence|cbn; eauto]. }
          destruct E as [d E]. unfold learn_dim. rewrite E. exact E.
      - exact Rm.
      - symmetry. exact Rb.
      - rewrite <- Rh. symmetry. exact H1. }
    rewrite Est in P2. rewrite <- P2. apply sam_loop_shift. rewrite B1. lia.
  Qed.

  (* ---- any partition of the stream into batches ---- *)
  Fixpoint sam_pf_seq (s : sam) (Bs : list (list (list N) * list nat)) (m : mt) (eps : N) : option sam :=
    match Bs with
    | [] => Some s
    | (X, y) :: Bs' => s1 <- sam_partial_fit K s X y m eps ;; sam_pf_seq s1 Bs' m eps
    end.

  Definition counted (s : sam) : Prop := hasL s = false \/ (hasL s = true /\ length (labels (A s)) = length (bl s)).

  Lemma sam_partial_fit_counted (s s1 : sam) X y m eps : counted s ->
    sam_partial_fit K s X y m eps = Some s1 -> hasL s1 = true /\ length (labels (A s1)) = length (bl s1).
  Proof.
    intros Hc P. unfold sam_partial_fit in P. destruct (sam_valid K s X y) eqn:V; [|discriminate].
    unfold sam_valid in V. apply andb_prop in V as [V _]. apply andb_prop in V as [Va _]. apply Nat.eqb_eq in Va.
    destruct (learn_dim_tr (A s) X) as (_ & El & _).
    destruct Hc as [Hc|[Hc Hl]]; rewrite Hc in P.
    - destruct (sam_loop_frame _ _ _ _ _ _ _ _ P) as (B1 & H1 & _ & _ & L1). cbn in B1, H1, L1.
      split; [exact H1|]. rewrite L1, B1, repeat_length. exact Va.
    - destruct (sam_loop_frame _ _ _ _ _ _ _ _ P) as (B1 & H1 & _ & _ & L1). cbn in B1, H1, L1.
      split; [exact H1|]. rewrite L1, B1, !app_length, repeat_length, El. lia.
  Qed.

  Theorem sam_batches_concat Bs : forall (s s' : sam) X y m eps, counted s ->
    sam_pf_seq s ((X, y) :: Bs) m eps = Some s' ->
    sam_partial_fit K s (X ++ concat (map fst Bs)) (y ++ concat (map snd Bs)) m eps = Some s'.
  Proof.
    induction Bs as [|[X2 y2] Bs IH]; intros s s' X y m eps Hc H; cbn [sam_pf_seq map concat fst snd] in *.
    - rewrite !app_nil_r. destruct (sam_partial_fit K s X y m eps); cbn [obind] in H; [exact H|discriminate].
    - destruct (sam_partial_fit K s X y m eps) as [s1|] eqn:P1; cbn [obind] in H; [|discriminate].
      destruct (sam_partial_fit K s1 X2 y2 m eps) as [s2|] eqn:P2; cbn [obind] in H; [|discriminate].
      assert (P12 : sam_partial_fit K s (X ++ X2) (y ++ y2) m eps = Some s2).
      { destruct Hc as [Hc|[Hc Hl]].
        - eapply sam_partial_fit_app_first; eauto.
        - eapply sam_partial_fit_app; eauto. }
      rewrite !app_assoc. apply IH; [exact Hc|]. cbn [sam_pf_seq]. rewrite P12. cbn [obind]. exact H.
  Qed.
  (* ---- a fresh estimator: one-epoch fit = partial_fit (so fit = any batching of partial_fit) ---- *)
  Theorem sam_fit_eq_partial_fit_fresh r X y m eps :
    sam_fit K (sam_init r) X y 1 m eps = sam_partial_fit K (sam_init r) X y m eps.
  Proof.
    unfold sam_fit, sam_partial_fit. destruct (sam_valid K (sam_init r) X y); [|reflexivity].
    cbn [sam_init hasL A mp]. destruct (learn_dim_tr (init r) X) as (Et & El & Eh).
    unfold tr in Et. cbn [init W wsc sc rho] in Et. injection Et as EW Ews Esc Er.
    rewrite Ews, Esc. cbn [sam_epochs].
    match goal with |- obind ?e _ = _ => destruct e; reflexivity end.
  Qed.

  Corollary sam_fit_eq_batches_fresh r Bs X y m eps s' :
    sam_pf_seq (sam_init r) ((X, y) :: Bs) m eps = Some s' ->
    sam_fit K (sam_init r) (X ++ concat (map fst Bs)) (y ++ concat (map snd Bs)) 1 m eps = Some s'.
  Proof.
    intros H. rewrite sam_fit_eq_partial_fit_fresh. apply sam_batches_concat; [left; reflexivity|exact H].
  Qed.
End SH.

(* C04 instances at the real-number instance. *)
From Coq Require Import List Bool Arith ZArith Reals Lra Lia.
From ART Require Import Num NumR Vec Search Kernel BaseArt Total Fuzzy ART2A Hyper.
Import ListNotations.
Open Scope R_scope.

Lemma l1norm_nonneg (x : list R) : 0 <= @l1norm RN x.
Proof.
  unfold l1norm. induction x as [|a x IH]; [cbn; lra|]. cbn [map vsum].
  assert (0 <= @nabs RN a).
  { unfold nabs. cbn. unfold Rleb. destruct (Rle_dec 0 a); cbn; lra. }
  cbn in *. lra.
Qed.

(* Fuzzy ART with a positive choice parameter: every training step is defined,
   whatever the stored weights, the mode, epsilon or the reset function *)
Theorem fuzzy_step_total (alpha beta : R) (s : st (N:=RN)) x veto m eps :
  0 < alpha -> (2 <= length x)%nat ->
  step_fit (@fuzzyK RN alpha beta) s x veto m eps <> None.
Proof.
  intros Ha Hx. apply step_fit_defined; try exact Rleb_total; try exact Rleb_trans.
  - intros w _. cbn. unfold fuzzy_choice, odiv.
    assert (E : @neqb RN (@nadd RN alpha (@l1norm RN w)) n0 = false).
    { cbn. apply Reqb_false. pose proof (l1norm_nonneg w). lra. }
    rewrite E. discriminate.
  - intros w _. cbn. unfold fuzzy_match, odiv, dim_original.
    assert (E : @neqb RN (@nofZ RN (Z.of_nat (length x / 2))) n0 = false).
    { change (Reqb (IZR (Z.of_nat (length x / 2))) 0 = false). apply Reqb_false. apply not_0_IZR.
      assert ((1 <= length x / 2)%nat) by (apply (Nat.div_le_lower_bound (length x) 2 1); lia). lia. }
    rewrite E. reflexivity.
  - intros w _. cbn. discriminate.
  - cbn. discriminate.
Qed.

(* ART2-A has no division at all *)
Theorem art2a_step_total (alpha beta : R) (s : st (N:=RN)) x veto m eps :
  step_fit (@art2K RN alpha beta) s x veto m eps <> None.
Proof.
  apply step_fit_defined; try exact Rleb_total; try exact Rleb_trans; cbn; intros; discriminate || reflexivity.
Qed.

(* Hypersphere ART (repaired centroid step): defined as soon as r_hat > 0 and
   every stored radius satisfies r_hat - R + alpha > 0 *)
Theorem hyper_step_total (alpha beta r_hat : R) (s : st (N:=RN)) x veto m eps :
  0 < r_hat -> (forall w, In w (W s) -> 0 < r_hat - @hs_radius RN w + alpha) ->
  step_fit (@hyperK RN alpha beta r_hat) s x veto m eps <> None.
Proof.
  intros Hr Hw. apply step_fit_defined; try exact Rleb_total; try exact Rleb_trans.
  - intros w Hin. cbn. unfold hs_choice, odiv.
    assert (E : @neqb RN (@nadd RN (@nsub RN r_hat (hs_radius w)) alpha) n0 = false).
    { cbn. apply Reqb_false. specialize (Hw w Hin). cbn in Hw. lra. }
    rewrite E. discriminate.
  - intros w _. cbn. unfold hs_match, odiv.
    assert (E : @neqb RN r_hat n0 = false) by (cbn; apply Reqb_false; lra).
    rewrite E. reflexivity.
  - intros w _. cbn. unfold hs_update. discriminate.
  - cbn. discriminate.
Qed.

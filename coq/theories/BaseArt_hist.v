(* C06: the result depends only on the hyper-parameters and the ordered
   sample stream (partial_fit batching = fit on the concatenation; fit
   forgets the earlier history).  C08: prediction is row-wise and pure. *)
From Coq Require Import List Bool Arith Lia Permutation.
From ART Require Import Num Vec Search Search_proofs Kernel BaseArt BaseArt_proofs BaseArt_book.
Import ListNotations.

Section Hist.
  Context {N : Num}.
  Variable K : Kernel N.
  Notation st := (@st N).

  (* what a training step reads and writes *)
  Definition tr (s : st) := (W s, wsc s, sc s, rho s).

  Lemma st_ext (a b : st) :
    tr a = tr b -> labels a = labels b -> hasW a = hasW b -> dim a = dim b -> a = b.
  Proof. unfold tr. destruct a, b; cbn. intros H; inversion H; subst. congruence. Qed.

  Lemma step_fit_tr s t x veto m eps : tr s = tr t ->
    match step_fit K s x veto m eps, step_fit K t x veto m eps with
    | Some (s1, c1, v1), Some (t1, c2, v2) => tr s1 = tr t1 /\ c1 = c2 /\ v1 = v2
    | None, None => True
    | _, _ => False
    end.
  Proof.
    unfold tr. intros H. destruct s as [W1 l1 ws1 sc1 r1 h1 d1], t as [W2 l2 ws2 sc2 r2 h2 d2].
    cbn in H. inversion H; subst. unfold step_fit. cbn [bump W rho].
    destruct W2 as [|w0 Ws].
    - destruct (k_new K x); cbn; auto.
    - destruct (activations _ _ _ _); cbn [obind]; auto.
      destruct (search _ _ _ _ _ _ _) as [[win v'] log].
      destruct (log_undef _ _); auto.
      destruct win as [cw|]; cbn [set_rho bump W].
      + destruct (nth_error _ _); cbn [obind]; auto. destruct (k_update _ _ _); cbn [obind]; auto.
      + destruct (k_new _ _); cbn [obind]; auto.
  Qed.

  Lemma steps_tr X : forall s t i veto m eps, tr s = tr t ->
    match steps K s X i veto m eps, steps K t X i veto m eps with
    | Some (a, cs, ls), Some (b, cs', ls') => tr a = tr b /\ cs = cs' /\ ls = ls'
    | None, None => True
    | _, _ => False
    end.
  Proof.
    induction X as [|x X IH]; intros s t i veto m eps H; cbn [steps].
    - auto.
    - pose proof (step_fit_tr s t x (veto i) m eps H) as Hs.
      destruct (step_fit K s x (veto i) m eps) as [[[a c1] v1]|],
               (step_fit K t x (veto i) m eps) as [[[b c2] v2]|]; cbn [obind]; try tauto.
      destruct Hs as (Ht & -> & ->). specialize (IH a b (S i) veto m eps Ht).
      destruct (steps K a X (S i) veto m eps) as [[[a' cs] ls]|],
               (steps K b X (S i) veto m eps) as [[[b' cs'] ls']|]; cbn [obind]; try tauto.
      destruct IH as (? & ? & ?). subst. auto.
  Qed.

  Lemma steps_ext X : forall s i v1 v2 m eps, (forall k, v1 k = v2 k) ->
    steps K s X i v1 m eps = steps K s X i v2 m eps.
  Proof.
    induction X as [|x X IH]; intros s i v1 v2 m eps H; cbn [steps]; [reflexivity|].
    rewrite H. destruct (step_fit K s x (v2 i) m eps) as [[[a c] l]|]; cbn [obind]; [|reflexivity].
    rewrite (IH a (S i) v1 v2 m eps H). reflexivity.
  Qed.

  Lemma steps_shift X : forall s i n veto m eps,
    steps K s X i (fun k => veto (n + k)) m eps = steps K s X (n + i) veto m eps.
  Proof.
    induction X as [|x X IH]; intros s i n veto m eps; cbn [steps]; [reflexivity|].
    destruct (step_fit K s x (veto (n + i)) m eps) as [[[a c] l]|]; cbn [obind]; [|reflexivity].
    rewrite IH. replace (n + S i) with (S (n + i)) by lia. reflexivity.
  Qed.

  (* ---- fit and partial_fit in terms of the labels-free loop ---- *)
  Definition fresh (s : st) : st :=
    {| W := []; labels := []; wsc := []; sc := 0; rho := rho s; hasW := false; dim := None |}.
  Definition base_labels (s : st) : list nat := if hasW s then labels s else [].

  Lemma learn_dim_tr s X : tr (learn_dim s X) = tr s /\ labels (learn_dim s X) = labels s /\
                           hasW (learn_dim s X) = hasW s.
  Proof. unfold learn_dim, tr. destruct (dim s), X; cbn; auto. Qed.

  Lemma fit_char s X veto m eps :
    match fit K s X veto m eps with
    | Some (s', ls) =>
        valid K s X = true /\
        exists s2 cs, steps K (fresh s) X 0 veto m eps = Some (s2, cs, ls) /\
          tr s' = tr s2 /\ labels s' = cs /\ hasW s' = true /\ dim s' = dim (learn_dim s X)
    | None => valid K s X = false \/ steps K (fresh s) X 0 veto m eps = None
    end.
  Proof.
    unfold fit. destruct (valid K s X) eqn:Hv; [|left; reflexivity].
    set (s1 := {| W := []; labels := repeat 0 (length X); wsc := []; sc := 0; rho := rho (learn_dim s X);
                  hasW := true; dim := dim (learn_dim s X) |}).
    assert (Hl : 0 + 0 + length X <= length (labels s1)) by (cbn; rewrite repeat_length; lia).
    pose proof (fit_loop_steps K X s1 0 0 veto m eps Hl) as FS.
    assert (Ht : tr s1 = tr (fresh s)).
    { unfold tr, s1, fresh; cbn. destruct (learn_dim_tr s X) as (E & _). unfold tr in E. inversion E. congruence. }
    pose proof (steps_tr X s1 (fresh s) 0 veto m eps Ht) as ST.
    destruct (fit_loop K s1 X 0 0 veto m eps) as [[s' ls]|].
    - destruct (steps K s1 X 0 veto m eps) as [[[s2 cs] ls2]|] eqn:E; [|contradiction].
      destruct (steps K (fresh s) X 0 veto m eps) as [[[s3 cs3] ls3]|]; [|contradiction].
      destruct FS as (C & -> & Lb & Hn). destruct ST as (T2 & -> & ->).
      split; [reflexivity|]. exists s3, cs3. split; [reflexivity|].
      destruct (steps_rho K _ _ _ _ _ _ _ _ _ E) as (_ & Hd & Hw).
      unfold core in C. inversion C as [[EW Ews Esc Er Eh Ed]].
      cbn [labels s1] in Lb. rewrite splice0 in Lb by exact Hn.
      repeat split; try assumption.
      + unfold tr in *. congruence.
      + rewrite Eh, Hw. reflexivity.
      + rewrite Ed, Hd. reflexivity.
    - destruct (steps K s1 X 0 veto m eps) as [[[s2 cs] ls2]|]; [contradiction|].
      destruct (steps K (fresh s) X 0 veto m eps) as [[[s3 cs3] ls3]|]; [contradiction|].
      right; reflexivity.
  Qed.

  Lemma partial_fit_char s X veto m eps : (hasW s = false -> W s = []) ->
    match partial_fit K s X veto m eps with
    | Some (s', ls) =>
        valid K s X = true /\
        exists s2 cs, steps K s X 0 veto m eps = Some (s2, cs, ls) /\
          tr s' = tr s2 /\ labels s' = base_labels s ++ cs /\ hasW s' = true /\ dim s' = dim (learn_dim s X)
    | None => valid K s X = false \/ steps K s X 0 veto m eps = None
    end.
  Proof.
    intros HW0. unfold partial_fit, base_labels. destruct (valid K s X) eqn:Hv; [|left; reflexivity].
    destruct (learn_dim_tr s X) as (Et & El & Eh). rewrite Eh.
    destruct (hasW s) eqn:HW.
    - set (s1 := set_labels (learn_dim s X) (labels (learn_dim s X) ++ repeat 0 (length X))).
      assert (Hl : 0 + length (labels (learn_dim s X)) + length X <= length (labels s1)).
      { unfold s1; cbn. rewrite app_length, repeat_length. lia. }
      pose proof (fit_loop_steps K X s1 0 _ veto m eps Hl) as FS.
      assert (Ht : tr s1 = tr s) by (unfold s1, tr in *; cbn; exact Et).
      pose proof (steps_tr X s1 s 0 veto m eps Ht) as ST.
      destruct (fit_loop K s1 X 0 _ veto m eps) as [[s' ls]|].
      + destruct (steps K s1 X 0 veto m eps) as [[[s2 cs] ls2]|] eqn:E; [|contradiction].
        destruct (steps K s X 0 veto m eps) as [[[s3 cs3] ls3]|]; [|contradiction].
        destruct FS as (C & -> & Lb & Hn). destruct ST as (T2 & -> & ->).
        split; [reflexivity|]. exists s3, cs3. split; [reflexivity|].
        destruct (steps_rho K _ _ _ _ _ _ _ _ _ E) as (_ & Hd & Hw).
        unfold core in C. inversion C as [[EW Ews Esc Er Eh' Ed]].
        cbn [labels s1 set_labels plus] in Lb. rewrite splice_end in Lb by exact Hn.
        repeat split.
        * unfold tr in *. congruence.
        * rewrite Lb, El. reflexivity.
        * rewrite Eh', Hw. unfold s1; cbn. congruence.
        * rewrite Ed, Hd. reflexivity.
      + destruct (steps K s1 X 0 veto m eps) as [[[s2 cs] ls2]|]; [contradiction|].
        destruct (steps K s X 0 veto m eps) as [[[s3 cs3] ls3]|]; [contradiction|].
        right; reflexivity.
    - set (s1 := {| W := []; labels := repeat 0 (length X); wsc := wsc (learn_dim s X);
                    sc := sc (learn_dim s X); rho := rho (learn_dim s X); hasW := true;
                    dim := dim (learn_dim s X) |}).
      assert (Hl : 0 + 0 + length X <= length (labels s1)) by (cbn; rewrite repeat_length; lia).
      pose proof (fit_loop_steps K X s1 0 0 veto m eps Hl) as FS.
      assert (Ht : tr s1 = tr s).
      { pose proof (HW0 eq_refl) as E0. unfold s1, tr in *; cbn. injection Et as A1 A2 A3 A4.
        rewrite E0, A2, A3, A4. reflexivity. }
      pose proof (steps_tr X s1 s 0 veto m eps Ht) as ST.
      destruct (fit_loop K s1 X 0 0 veto m eps) as [[s' ls]|].
      + destruct (steps K s1 X 0 veto m eps) as [[[s2 cs] ls2]|] eqn:E; [|contradiction].
        destruct (steps K s X 0 veto m eps) as [[[s3 cs3] ls3]|]; [|contradiction].
        destruct FS as (C & -> & Lb & Hn). destruct ST as (T2 & -> & ->).
        split; [reflexivity|]. exists s3, cs3. split; [reflexivity|].
        destruct (steps_rho K _ _ _ _ _ _ _ _ _ E) as (_ & Hd & Hw).
        unfold core in C. inversion C as [[EW Ews Esc Er Eh' Ed]].
        cbn [labels s1] in Lb. rewrite splice0 in Lb by exact Hn.
        repeat split.
        * unfold tr in *. congruence.
        * exact Lb.
        * rewrite Eh', Hw. reflexivity.
        * rewrite Ed, Hd. reflexivity.
      + destruct (steps K s1 X 0 veto m eps) as [[[s2 cs] ls2]|]; [contradiction|].
        destruct (steps K s X 0 veto m eps) as [[[s3 cs3] ls3]|]; [contradiction|].
        right; reflexivity.
  Qed.

  (* ---- validity of a concatenation ---- *)
  Lemma valid_app s X1 X2 : X1 <> [] ->
    valid K s (X1 ++ X2) = valid K s X1 && valid K (learn_dim s X1) X2.
  Proof.
    intros Hne. unfold valid, dims_ok, learn_dim. rewrite forallb_app.
    destruct (dim s) as [d|] eqn:Ed.
    - rewrite Ed, forallb_app.
      destruct (forallb (k_valid K) X1), (forallb (k_valid K) X2),
        (forallb (fun x => length x =? d) X1), (forallb (fun x => length x =? d) X2); reflexivity.
    - destruct X1 as [|x X1]; [congruence|]. cbn [app dim].
      change (x :: X1 ++ X2) with ((x :: X1) ++ X2).
      rewrite (forallb_app (fun y : list N => length y =? length x)).
      destruct (forallb (k_valid K) (x :: X1)), (forallb (k_valid K) X2),
        (forallb (fun y => length y =? length x) (x :: X1)),
        (forallb (fun y => length y =? length x) X2), (k_dimok K (length x)); reflexivity.
  Qed.

  Lemma learn_dim_app (s : st) (X1 X2 : list (list N)) : X1 <> [] -> dim (learn_dim s (X1 ++ X2)) = dim (learn_dim s X1).
  Proof. unfold learn_dim. destruct (dim s), X1; cbn; congruence. Qed.
  Lemma learn_dim_idem (s : st) (X1 X2 : list (list N)) : X1 <> [] -> dim (learn_dim (learn_dim s X1) X2) = dim (learn_dim s X1).
  Proof. unfold learn_dim. destruct (dim s) eqn:E, X1; cbn; try rewrite E; try congruence; try reflexivity. Qed.

  (* ---- two consecutive partial_fit calls = one on the concatenation ---- *)
  Theorem partial_fit_app s X1 X2 veto v2 m eps s1 l1 s2 l2 :
    (hasW s = false -> W s = []) -> X1 <> [] ->
    (forall k, v2 k = veto (length X1 + k)) ->
    partial_fit K s X1 veto m eps = Some (s1, l1) ->
    partial_fit K s1 X2 v2 m eps = Some (s2, l2) ->
    partial_fit K s (X1 ++ X2) veto m eps = Some (s2, l1 ++ l2).
  Proof.
    intros HW0 Hne Hv P1 P2.
    pose proof (partial_fit_char s X1 veto m eps HW0) as C1. rewrite P1 in C1.
    destruct C1 as (V1 & a & cs1 & S1 & T1 & L1 & H1 & D1).
    assert (HW1 : hasW s1 = false -> W s1 = []) by (rewrite H1; discriminate).
    pose proof (partial_fit_char s1 X2 v2 m eps HW1) as C2. rewrite P2 in C2.
    destruct C2 as (V2 & b & cs2 & S2 & T2 & L2 & H2 & D2).
    (* steps from a (same tr as s1) *)
    pose proof (steps_tr X2 s1 a 0 v2 m eps T1) as ST. rewrite S2 in ST.
    destruct (steps K a X2 0 v2 m eps) as [[[b' cs2'] l2']|] eqn:S2'; [|contradiction].
    destruct ST as (Tb & <- & <-).
    rewrite (steps_ext X2 a 0 v2 (fun k => veto (length X1 + k)) m eps Hv) in S2'.
    rewrite steps_shift, Nat.add_0_r in S2'.
    assert (S12 : steps K s (X1 ++ X2) 0 veto m eps = Some (b', cs1 ++ cs2, l1 ++ l2)).
    { rewrite steps_app, S1. cbn [obind]. cbn [plus]. rewrite S2'. reflexivity. }
    pose proof (partial_fit_char s (X1 ++ X2) veto m eps HW0) as C12.
    assert (V12 : valid K s (X1 ++ X2) = true).
    { rewrite valid_app by exact Hne. rewrite V1. cbn.
      (* validity of X2 in s1 only depends on dim s1 = dim (learn_dim s X1) *)
      unfold valid, dims_ok in *. rewrite D1 in V2. exact V2. }
    destruct (partial_fit K s (X1 ++ X2) veto m eps) as [[s' ls]|].
    - destruct C12 as (_ & c & cs & S & T' & L' & H' & D'). rewrite S12 in S. inversion S; subst c cs ls.
      f_equal. f_equal. apply st_ext.
      + congruence.
      + rewrite L', L2. unfold base_labels at 2. rewrite H1, L1, app_assoc. reflexivity.
      + congruence.
      + rewrite D', D2, learn_dim_app by exact Hne.
        assert (E : exists d, dim s1 = Some d).
        { rewrite D1. unfold learn_dim. destruct (dim s) eqn:Eds; [rewrite Eds; eauto|].
          destruct X1; [congruence|cbn; eauto]. }
        destruct E as [d E]. unfold learn_dim at 2. rewrite E. rewrite <- D1. reflexivity.
    - destruct C12 as [C|C]; congruence.
  Qed.

  (* ---- a fresh estimator: partial_fit = fit ---- *)
  Theorem fit_eq_partial_fit_fresh r X veto m eps :
    fit K (init r) X veto m eps = partial_fit K (init r) X veto m eps.
  Proof.
    unfold fit, partial_fit. destruct (valid K (init r) X); [|reflexivity].
    destruct (learn_dim_tr (init r) X) as (Et & El & Eh). rewrite Eh. cbn [init hasW].
    unfold tr in Et. injection Et as EW Ews Esc Er. rewrite Ews, Esc. reflexivity.
  Qed.

  (* ---- fit forgets everything but the hyper-parameters ---- *)
  Theorem fit_forgets s X veto m eps :
    valid K s X = true -> valid K (init (rho s)) X = true ->
    match fit K s X veto m eps, fit K (init (rho s)) X veto m eps with
    | Some (a, la), Some (b, lb) =>
        tr a = tr b /\ labels a = labels b /\ hasW a = hasW b /\ la = lb
    | None, None => True
    | _, _ => False
    end.
  Proof.
    intros V1 V2.
    pose proof (fit_char s X veto m eps) as C1.
    pose proof (fit_char (init (rho s)) X veto m eps) as C2.
    assert (E : fresh (init (rho s)) = fresh s) by reflexivity. rewrite E in C2.
    destruct (fit K s X veto m eps) as [[a la]|], (fit K (init (rho s)) X veto m eps) as [[b lb]|].
    - destruct C1 as (_ & s2 & cs & S & T1 & L1 & H1 & _), C2 as (_ & s3 & cs3 & S3 & T3 & L3 & H3 & _).
      rewrite S in S3. inversion S3; subst. repeat split; congruence.
    - destruct C1 as (_ & s2 & cs & S & _), C2 as [C|C]; congruence.
    - destruct C2 as (_ & s2 & cs & S & _), C1 as [C|C]; congruence.
    - exact I.
  Qed.

  (* ---- any partition of the stream into non-empty batches ---- *)
  Fixpoint pf_batches (s : st) (Bs : list (list (list N))) (off : nat) (veto : vetos) (m : mt) (eps : N)
    : option (st * list vlog) :=
    match Bs with
    | [] => Some (s, [])
    | B :: Bs' =>
        r <- partial_fit K s B (fun k => veto (off + k)) m eps ;;
        r' <- pf_batches (fst r) Bs' (off + length B) veto m eps ;;
        Some (fst r', snd r ++ snd r')
    end.

  Lemma partial_fit_ext s X v1 v2 m eps : (forall k, v1 k = v2 k) ->
    partial_fit K s X v1 m eps = partial_fit K s X v2 m eps.
  Proof.
    intros H. unfold partial_fit. destruct (valid K s X); [|reflexivity].
    assert (FL : forall s0 i j, fit_loop K s0 X i j v1 m eps = fit_loop K s0 X i j v2 m eps).
    { clear - H. induction X as [|x X IH]; intros s0 i j; cbn [fit_loop]; [reflexivity|].
      rewrite H. destruct (step_fit K s0 x (v2 i) m eps) as [[[a c] l]|]; cbn [obind]; [|reflexivity].
      rewrite IH. reflexivity. }
    destruct (hasW (learn_dim s X)); apply FL.
  Qed.

  Theorem pf_batches_concat Bs : forall s off veto m eps s' ls,
    (hasW s = false -> W s = []) -> Bs <> [] -> Forall (fun B => B <> []) Bs ->
    pf_batches s Bs off veto m eps = Some (s', ls) ->
    partial_fit K s (concat Bs) (fun k => veto (off + k)) m eps = Some (s', ls).
  Proof.
    induction Bs as [|B Bs IH]; intros s off veto m eps s' ls HW0 Hne Hall H; [congruence|].
    inversion Hall as [|? ? HB Hall']; subst. cbn [pf_batches] in H.
    destruct (partial_fit K s B (fun k => veto (off + k)) m eps) as [[s1 l1]|] eqn:P1; cbn [obind fst snd] in H; [|discriminate].
    destruct (pf_batches s1 Bs (off + length B) veto m eps) as [[s2 l2]|] eqn:P2; cbn [obind fst snd] in H; [|discriminate].
    inversion H; subst. cbn [concat].
    destruct Bs as [|B2 Bs].
    - cbn in P2. inversion P2; subst. cbn [concat]. rewrite !app_nil_r. exact P1.
    - assert (HW1 : hasW s1 = false -> W s1 = []).
      { pose proof (partial_fit_char s B (fun k => veto (off + k)) m eps HW0) as C1. rewrite P1 in C1.
        destruct C1 as (_ & a & cs1 & _ & _ & _ & H1 & _). rewrite H1. discriminate. }
      specialize (IH s1 (off + length B) veto m eps s' l2 HW1 ltac:(discriminate) Hall' P2).
      eapply (partial_fit_app s B (concat (B2 :: Bs)) (fun k => veto (off + k))
                              (fun k => veto (off + length B + k))); eauto.
      intros k. f_equal. lia.
  Qed.

  (* the property, for a fresh estimator: batches = one fit on the concatenation *)
  Corollary batches_eq_fit r Bs veto m eps s' ls :
    Bs <> [] -> Forall (fun B => B <> []) Bs ->
    pf_batches (init r) Bs 0 veto m eps = Some (s', ls) ->
    fit K (init r) (concat Bs) veto m eps = Some (s', ls).
  Proof.
    intros Hne Hall H. rewrite fit_eq_partial_fit_fresh.
    pose proof (pf_batches_concat Bs (init r) 0 veto m eps s' ls ltac:(reflexivity) Hne Hall H) as P.
    rewrite (partial_fit_ext _ _ veto (fun k => veto (0 + k))); [exact P|reflexivity].
  Qed.

  (* ------------------------------------------------------------------ *)
  (* C08: prediction                                                     *)
  Lemma omap_app {A B} (f : A -> option B) l1 : forall l2,
    omap f (l1 ++ l2) = (a <- omap f l1 ;; b <- omap f l2 ;; Some (a ++ b)).
  Proof.
    induction l1 as [|x l1 IH]; intros l2; cbn [app omap].
    - cbn. destruct (omap f l2); reflexivity.
    - destruct (f x); cbn [obind]; [|reflexivity]. rewrite IH.
      destruct (omap f l1); cbn [obind]; [|reflexivity]. destruct (omap f l2); reflexivity.
  Qed.

  Lemma omap_nth {A B} (f : A -> option B) l : forall ys i x,
    omap f l = Some ys -> nth_error l i = Some x ->
    exists y, nth_error ys i = Some y /\ f x = Some y.
  Proof.
    induction l as [|a l IH]; intros ys i x H Hn; [destruct i; discriminate|].
    cbn [omap] in H. destruct (f a) as [b|] eqn:Ea; cbn [obind] in H; [|discriminate].
    destruct (omap f l) as [r|] eqn:Er; cbn [obind] in H; [|discriminate]. inversion H; subst.
    destruct i; cbn in *.
    - inversion Hn; subst. eauto.
    - eapply IH; eauto.
  Qed.

  (* each row's label depends on that row and the model only *)
  Theorem predict_rowwise s X ys i x :
    predict K s X = Some ys -> nth_error X i = Some x ->
    exists y, nth_error ys i = Some y /\ step_pred K s x = Some y.
  Proof.
    unfold predict. destruct (hasW s && valid K s X); [|discriminate]. apply omap_nth.
  Qed.

  Theorem predict_app s X1 X2 y1 y2 :
    predict K s X1 = Some y1 -> predict K s X2 = Some y2 ->
    valid K s (X1 ++ X2) = true -> predict K s (X1 ++ X2) = Some (y1 ++ y2).
  Proof.
    unfold predict. intros H1 H2 V. rewrite V.
    destruct (hasW s); cbn [andb] in *; [|discriminate].
    destruct (valid K s X1); [|discriminate]. destruct (valid K s X2); [|discriminate].
    rewrite omap_app, H1, H2. reflexivity.
  Qed.

  (* the label is the oldest category of maximal activation, and is in range *)
  Theorem step_pred_first_argmax :
    (forall a b : N, nleb a b = true \/ nleb b a = true) ->
    (forall a b c : N, nleb a b = true -> nleb b c = true -> nleb a c = true) ->
    forall s x c, step_pred K s x = Some c ->
    exists Ts t, omap (k_choice K (W s) x) (W s) = Some Ts /\ nth_error Ts c = Some t /\
      c < length (W s) /\
      (forall j b, nth_error Ts j = Some b -> nleb b t = true) /\
      (forall j b, j < c -> nth_error Ts j = Some b -> nleb t b = false).
  Proof.
    intros Htot Htr s x c. unfold step_pred.
    destruct (omap (k_choice K (W s) x) (W s)) as [Ts|] eqn:E; cbn [obind]; [|discriminate].
    unfold argmax. intros H.
    pose proof (nanargmax_spec N nleb Htot Htr (map Some Ts)) as S. rewrite H in S.
    destruct S as [t (Hc & Hmax & Hfirst)].
    assert (Hn : forall j, nth_error (map Some Ts) j = option_map Some (nth_error Ts j)).
    { intros j. apply nth_error_map. }
    rewrite Hn in Hc. destruct (nth_error Ts c) as [t'|] eqn:Et; cbn in Hc; [|discriminate].
    inversion Hc; subst t'. exists Ts, t. split; [reflexivity|]. split; [exact Et|]. split; [|split].
    - assert (L : length Ts = length (W s)).
      { clear - E. revert Ts E. generalize (k_choice K (W s) x). intros f.
        induction (W s) as [|w l IH]; intros Ts E; cbn in E; [inversion E; reflexivity|].
        destruct (f w); cbn in E; [|discriminate]. destruct (omap f l) eqn:E'; cbn in E; [|discriminate].
        inversion E; subst. cbn. f_equal. apply IH. reflexivity. }
      rewrite <- L. apply nth_error_Some. congruence.
    - intros j b Hj. apply (Hmax j b). rewrite Hn, Hj. reflexivity.
    - intros j b Hlt Hj. apply (Hfirst j b Hlt). rewrite Hn, Hj. reflexivity.
  Qed.
End Hist.

(* Transfer between numeric instances.  A map phi between two instances of
   the signature that commutes with the field operations (division where the
   divisor is non-zero) and reflects the comparisons carries every sqrt/exp-free
   function of the model from one instance to the other.  Instantiated with
   Q2R : QN -> RN it says that what the correspondence check EXECUTES at exact
   rationals is, on rational inputs, the real-number function the theorems are
   about (Fuzzy ART kernel functions, bounding box, centre, shrink). *)
From Coq Require Import List Bool Arith ZArith QArith Qreduction Qreals Reals Lra Lia.
From ART Require Import Num NumR Vec Search Kernel Fuzzy.
Import ListNotations.

Record hom (A B : Num) (phi : A -> B) : Prop := {
  h_0 : phi n0 = n0;
  h_1 : phi n1 = n1;
  h_add : forall a b, phi (nadd a b) = nadd (phi a) (phi b);
  h_sub : forall a b, phi (nsub a b) = nsub (phi a) (phi b);
  h_mul : forall a b, phi (nmul a b) = nmul (phi a) (phi b);
  h_div : forall a b, neqb b n0 = false -> phi (ndiv a b) = ndiv (phi a) (phi b);
  h_leb : forall a b, nleb a b = nleb (phi a) (phi b);
  h_eqb : forall a b, neqb a b = neqb (phi a) (phi b);
  h_ofZ : forall z, phi (nofZ z) = nofZ z }.

Section Hom.
  Context {A B : Num} (phi : A -> B) (H : hom A B phi).

  Lemma hom_min a b : phi (nmin a b) = nmin (phi a) (phi b).
  Proof. unfold nmin. rewrite <- (h_leb _ _ _ H). destruct (nleb a b); reflexivity. Qed.
  Lemma hom_neg a : phi (nneg a) = nneg (phi a).
  Proof. unfold nneg. rewrite (h_sub _ _ _ H), (h_0 _ _ _ H). reflexivity. Qed.
  Lemma hom_abs a : phi (nabs a) = nabs (phi a).
  Proof. unfold nabs. rewrite (h_leb _ _ _ H n0 a), (h_0 _ _ _ H). destruct (nleb n0 (phi a)); [reflexivity|apply hom_neg]. Qed.
  Lemma hom_2 : phi n2 = n2.
  Proof. unfold n2. rewrite (h_add _ _ _ H), (h_1 _ _ _ H). reflexivity. Qed.

  Lemma hom_vzip (f : A -> A -> A) (g : B -> B -> B) : (forall a b, phi (f a b) = g (phi a) (phi b)) ->
    forall x y, map phi (vzip f x y) = vzip g (map phi x) (map phi y).
  Proof. intros Hf. induction x as [|a x IH]; intros [|b y]; cbn; try reflexivity. rewrite Hf, IH. reflexivity. Qed.
  Lemma hom_vmin x y : map phi (vmin x y) = vmin (map phi x) (map phi y).
  Proof. apply hom_vzip. apply hom_min. Qed.
  Lemma hom_vadd x y : map phi (vadd x y) = vadd (map phi x) (map phi y).
  Proof. apply hom_vzip. apply (h_add _ _ _ H). Qed.
  Lemma hom_vsub x y : map phi (vsub x y) = vsub (map phi x) (map phi y).
  Proof. apply hom_vzip. apply (h_sub _ _ _ H). Qed.
  Lemma hom_vscale t x : map phi (vscale t x) = vscale (phi t) (map phi x).
  Proof. unfold vscale. rewrite !map_map. apply map_ext. intros a. apply (h_mul _ _ _ H). Qed.
  Lemma hom_vsum x : phi (vsum x) = vsum (map phi x).
  Proof. induction x as [|a x IH]; cbn; [apply (h_0 _ _ _ H)|]. rewrite (h_add _ _ _ H), IH. reflexivity. Qed.
  Lemma hom_l1norm x : phi (l1norm x) = l1norm (map phi x).
  Proof. unfold l1norm. rewrite hom_vsum, !map_map. f_equal. apply map_ext. intros a. apply hom_abs. Qed.
  Lemma hom_vcompl x : map phi (vcompl x) = vcompl (map phi x).
  Proof. unfold vcompl. rewrite !map_map. apply map_ext. intros a. rewrite (h_sub _ _ _ H), (h_1 _ _ _ H). reflexivity. Qed.

  Lemma hom_odiv a b : option_map phi (odiv a b) = odiv (phi a) (phi b).
  Proof.
    unfold odiv. pose proof (h_eqb _ _ _ H b n0) as E0. rewrite (h_0 _ _ _ H) in E0. rewrite <- E0.
    destruct (neqb b n0) eqn:E; cbn; [reflexivity|]. rewrite (h_div _ _ _ H) by exact E. reflexivity.
  Qed.

  (* ---- Fuzzy ART ---- *)
  Lemma hom_fuzzy_choice alpha x w :
    option_map phi (fuzzy_choice alpha x w) = fuzzy_choice (phi alpha) (map phi x) (map phi w).
  Proof. unfold fuzzy_choice. rewrite hom_odiv, hom_l1norm, hom_vmin, (h_add _ _ _ H), hom_l1norm. reflexivity. Qed.
  Lemma hom_fuzzy_match x w :
    option_map phi (fuzzy_match x w) = fuzzy_match (map phi x) (map phi w).
  Proof. unfold fuzzy_match, dim_original. rewrite hom_odiv, hom_l1norm, hom_vmin, (h_ofZ _ _ _ H), map_length. reflexivity. Qed.
  Lemma hom_fuzzy_update beta x w :
    map phi (fuzzy_update beta x w) = fuzzy_update (phi beta) (map phi x) (map phi w).
  Proof. unfold fuzzy_update. rewrite hom_vadd, !hom_vscale, hom_vmin, (h_sub _ _ _ H), (h_1 _ _ _ H). reflexivity. Qed.
End Hom.

(* ------------------------------------------------------------------ Q2R : QN -> RN *)
Lemma Q2R_Qred (q : Q) : Q2R (Qred q) = Q2R q.
Proof. apply Qeq_eqR. apply Qred_correct. Qed.

Lemma Q2R_hom : hom QN RN Q2R.
Proof.
  constructor; cbn [nadd nsub nmul ndiv nleb neqb nofZ n0 n1 QN RN T].
  - unfold Q2R. cbn. lra.
  - unfold Q2R. cbn. lra.
  - intros a b. rewrite Q2R_Qred. apply Q2R_plus.
  - intros a b. rewrite Q2R_Qred. apply Q2R_minus.
  - intros a b. rewrite Q2R_Qred. apply Q2R_mult.
  - intros a b Hb. rewrite Q2R_Qred. apply Q2R_div. intros E. apply Qeq_bool_iff in E. rewrite E in Hb. discriminate.
  - intros a b. unfold Rleb. destruct (Rle_dec (Q2R a) (Q2R b)) as [L|L].
    + apply Qle_bool_iff. apply Rle_Qle. exact L.
    + destruct (Qle_bool a b) eqn:E; [|reflexivity]. exfalso. apply L. apply Qle_Rle. apply Qle_bool_iff. exact E.
  - intros a b. unfold Reqb. destruct (Req_EM_T (Q2R a) (Q2R b)) as [E|E].
    + apply Qeq_bool_iff. apply eqR_Qeq. exact E.
    + destruct (Qeq_bool a b) eqn:Eb; [|reflexivity]. exfalso. apply E. apply Qeq_eqR. apply Qeq_bool_iff. exact Eb.
  - intros z. unfold Q2R. cbn. field.
Qed.

(* what is executed at QN is, on rational inputs, the real-number kernel function *)
Theorem fuzzy_choice_QR (alpha : Q) (x w : list Q) :
  option_map Q2R (@fuzzy_choice QN alpha x w) = @fuzzy_choice RN (Q2R alpha) (map Q2R x) (map Q2R w).
Proof. exact (@hom_fuzzy_choice QN RN Q2R Q2R_hom alpha x w). Qed.
Theorem fuzzy_match_QR (x w : list Q) :
  option_map Q2R (@fuzzy_match QN x w) = @fuzzy_match RN (map Q2R x) (map Q2R w).
Proof. exact (@hom_fuzzy_match QN RN Q2R Q2R_hom x w). Qed.
Theorem fuzzy_update_QR (beta : Q) (x w : list Q) :
  map Q2R (@fuzzy_update QN beta x w) = @fuzzy_update RN (Q2R beta) (map Q2R x) (map Q2R w).
Proof. exact (@hom_fuzzy_update QN RN Q2R Q2R_hom beta x w). Qed.

(* a category computed at QN as the fold of the update rule over its members is, seen in R, the fold of the
   real-number update rule over the same (rational) members: the RN theorems about folds (C02) therefore speak
   about the very values the exact-rational correspondence compares with the implementation *)
Theorem fuzzy_fold_QR (beta : Q) (members : list (list Q)) (w0 : list Q) :
  map Q2R (fold_left (fun w x => @fuzzy_update QN beta x w) members w0) =
  fold_left (fun w x => @fuzzy_update RN (Q2R beta) x w) (map (map Q2R) members) (map Q2R w0).
Proof.
  revert w0. induction members as [|x ms IH]; intros w0; cbn [fold_left map]; [reflexivity|].
  rewrite IH, fuzzy_update_QR. reflexivity.
Qed.

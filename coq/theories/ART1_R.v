(* ART1 at the real-number instance: the template is the AND of the
   members, never increases, enclosure is permanent, bottom-up weights are
   the scaled template, the template keeps at least a rho fraction of each
   absorbed input.  Gaussian / Bayesian running mean and count. *)
From Coq Require Import List Bool Arith Reals Lra Lia.
From ART Require Import Num NumR Vec Mat Search Kernel ART1 Gauss Fuzzy_R.
Import ListNotations.
Open Scope R_scope.

Definition binary (t : list R) : Prop := Forall (fun a => a = 0 \/ a = 1) t.

Lemma nz_R (a : R) : @nz RN a = true <-> a <> 0.
Proof. unfold nz. cbn. unfold Reqb. destruct (Req_EM_T a 0); cbn; split; intros; try discriminate; try contradiction; auto. Qed.
Lemma nz_cases (a : R) : (a = 0 /\ @nz RN a = false) \/ (a <> 0 /\ @nz RN a = true).
Proof. destruct (Req_dec a 0) as [E|E]; [left|right]; split; auto; [|apply nz_R; exact E].
  destruct (@nz RN a) eqn:H; [apply nz_R in H; contradiction|reflexivity]. Qed.

Notation vandR := (@vand RN).

Lemma vand_binary (x t : list R) : binary (vandR x t).
Proof.
  unfold vand. revert t. induction x as [|a x IH]; intros [|b t]; cbn; try constructor.
  - destruct (@nz RN a && @nz RN b); auto.
  - apply IH.
Qed.

(* the template never increases *)
Theorem art1_template_decreasing (x t : list R) : binary t -> length x = length t -> vle (vandR x t) t.
Proof.
  unfold vand. intros Hb. revert x. induction Hb as [|b t Hb0 _ IH]; intros [|a x] Hl; cbn in *; try discriminate; constructor.
  - destruct (nz_cases a) as [[_ Ea]|[_ Ea]], (nz_cases b) as [[Eb0 Eb]|[Eb0 Eb]]; rewrite Ea, Eb; cbn;
      destruct Hb0; subst; lra.
  - apply IH. lia.
Qed.

(* a sample once enclosed (x AND t = t) stays enclosed under later learning *)
Theorem art1_enclosed_forever (x y t : list R) :
  length x = length t -> length y = length t -> vandR x t = t -> vandR x (vandR y t) = vandR y t.
Proof.
  unfold vand. revert y t. induction x as [|a x IH]; intros [|b y] [|c t] H1 H2 H; cbn in *; try discriminate; [reflexivity|].
  injection H as Hc Ht. f_equal; [|apply IH; auto; lia].
  assert (N1 : @nz RN 1 = true) by (apply nz_R; lra).
  assert (N0 : @nz RN 0 = false) by (destruct (nz_cases 0) as [[_ E]|[E _]]; [exact E|lra]).
  destruct (nz_cases a) as [[_ Ea]|[_ Ea]], (nz_cases b) as [[_ Eb]|[_ Eb]], (nz_cases c) as [[Ec0 Ec]|[Ec0 Ec]];
    rewrite ?Ea, ?Eb, ?Ec in *; cbn in *; rewrite ?N1, ?N0, ?Ea, ?Eb; cbn; try reflexivity;
    try (exfalso; lra).
Qed.

(* update: template = x AND old template; bottom-up = L/(L-1+|t'|) * t' *)
Theorem art1_update_form (L : R) (x w : list R) w' :
  @art1_update RN L x w = Some w' ->
  let t' := vandR x (@art1_td RN w (length x)) in
  exists k, w' = @vscale RN k t' ++ t' /\ k * (L - 1 + @l1norm RN t') = L.
Proof.
  unfold art1_update, art1_scale. cbv zeta. unfold odiv. intros H.
  match type of H with context[if ?c then _ else _] => destruct c eqn:E end; cbn [obind] in H; [discriminate|].
  inversion H; subst. eexists. split; [reflexivity|].
  cbn in E. apply Reqb_false in E. cbn. field. exact E.
Qed.

(* the template covers at least a rho fraction of each input it absorbs *)
Theorem art1_cover (x t : list R) (rho : R) :
  @l1norm RN x <> 0 -> 0 < @l1norm RN x ->
  rho <= @l1norm RN (vandR x t) / @l1norm RN x ->      (* the match value passed the vigilance in force *)
  rho * @l1norm RN x <= @l1norm RN (vandR x t).
Proof.
  intros Hne Hpos H. apply Rmult_le_compat_r with (r := @l1norm RN x) in H; [|lra].
  unfold Rdiv in H. rewrite Rmult_assoc, Rinv_l in H by exact Hne. lra.
Qed.

(* ---- Gaussian / Bayesian ART: the running mean is the arithmetic mean ---- *)
Notation vaddR := (@vadd RN).
Notation vscaleR := (@vscale RN).

Lemma running_mean (n : R) (mean S x : list R) :
  0 < n -> length S = length x -> mean = vscaleR (1 / n) S ->
  vaddR (vscaleR (1 - 1 / (n + 1)) mean) (vscaleR (1 / (n + 1)) x) = vscaleR (1 / (n + 1)) (vaddR S x).
Proof.
  intros Hn Hl ->. unfold vadd, vscale. revert x Hl.
  induction S as [|s S IH]; intros [|a x] Hl; cbn in *; try discriminate; [reflexivity|].
  f_equal; [field; lra|apply IH; lia].
Qed.


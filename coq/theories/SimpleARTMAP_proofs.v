(* C09: the A->B map is functional, total on the existing categories,
   monotone over the history, consistent with every training label; the
   internal assertion cannot fire; predictions are seen classes. *)
From Coq Require Import List Bool Arith Lia.
From ART Require Import Num Vec Search Search_proofs Kernel BaseArt BaseArt_proofs SimpleARTMAP.
Import ListNotations.

Lemma lookup_app m k v c :
  lookup (m ++ [(k, v)]) c =
  match lookup m c with Some b => Some b | None => if Nat.eqb k c then Some v else None end.
Proof.
  induction m as [|[a b] m IH]; cbn; [reflexivity|]. destruct (Nat.eqb a c); [reflexivity|exact IH].
Qed.

(* the winner of a scan is in the list and passed both tests when visited *)
Lemma scan_win_props {V} mbin veto_ok track l : forall (v : V) c,
  fst (fst (scan mbin veto_ok track l v)) = Some c ->
  In c l /\ exists v', veto_ok v' c = true /\ mbin v' c = true.
Proof.
  induction l as [|a l IH]; intros v c H; cbn [scan] in H; [discriminate|].
  destruct (mbin v a) eqn:Hm, (veto_ok v a) eqn:Hv; cbn [andb] in H.
  - inversion H; subst. split; [left; reflexivity|eauto].
  - destruct (track v a) as [v' keep]. destruct keep; [|discriminate].
    destruct (scan mbin veto_ok track l v') as [[w vf] lg] eqn:E. cbn in H. subst w.
    destruct (IH v' c) as (Hin & Hex); [rewrite E; reflexivity|]. split; [right; exact Hin|exact Hex].
  - destruct (scan mbin veto_ok track l v) as [[w vf] lg] eqn:E. cbn in H. subst w.
    destruct (IH v c) as (Hin & Hex); [rewrite E; reflexivity|]. split; [right; exact Hin|exact Hex].
  - destruct (scan mbin veto_ok track l v) as [[w vf] lg] eqn:E. cbn in H. subst w.
    destruct (IH v c) as (Hin & Hex); [rewrite E; reflexivity|]. split; [right; exact Hin|exact Hex].
Qed.

(* if match tracking never lowers the vigilance (w.r.t. a preorder on vigilance
   states), the winner passed a vigilance at least as strict as the configured one *)
Lemma scan_win_vig {V} (Vle : V -> V -> Prop) mbin veto_ok track :
  (forall v, Vle v v) -> (forall a b c, Vle a b -> Vle b c -> Vle a c) ->
  (forall v c, mbin v c = true -> veto_ok v c = false -> Vle v (fst (track v c))) ->
  forall l (v : V) c,
  fst (fst (scan mbin veto_ok track l v)) = Some c ->
  In c l /\ exists v', Vle v v' /\ veto_ok v' c = true /\ mbin v' c = true.
Proof.
  intros Hrefl Htrans Hup. induction l as [|a l IH]; intros v c H; cbn [scan] in H; [discriminate|].
  destruct (mbin v a) eqn:Hm, (veto_ok v a) eqn:Hv; cbn [andb] in H.
  - inversion H; subst. split; [left; reflexivity|]. exists v. auto.
  - pose proof (Hup v a Hm Hv) as Hle. destruct (track v a) as [v' keep]. cbn in Hle. destruct keep; [|discriminate].
    destruct (scan mbin veto_ok track l v') as [[w vf] lg] eqn:E. cbn in H. subst w.
    destruct (IH v' c) as (Hin & v2 & Hle2 & Hex); [rewrite E; reflexivity|].
    split; [right; exact Hin|]. exists v2. split; [eapply Htrans; eauto|exact Hex].
  - destruct (scan mbin veto_ok track l v) as [[w vf] lg] eqn:E. cbn in H. subst w.
    destruct (IH v c) as (Hin & Hex); [rewrite E; reflexivity|]. split; [right; exact Hin|exact Hex].
  - destruct (scan mbin veto_ok track l v) as [[w vf] lg] eqn:E. cbn in H. subst w.
    destruct (IH v c) as (Hin & Hex); [rewrite E; reflexivity|]. split; [right; exact Hin|exact Hex].
Qed.

Lemma omapi_nth {A B} (f : nat -> A -> option B) l : forall i r k y,
  omapi i f l = Some r -> nth_error r k = Some y ->
  exists a, nth_error l k = Some a /\ f (i + k) a = Some y.
Proof.
  induction l as [|a l IH]; intros i r k y H Hn; cbn [omapi] in H.
  - inversion H; subst. destruct k; discriminate.
  - destruct (f i a) as [b|] eqn:Ea; cbn [obind] in H; [|discriminate].
    destruct (omapi (S i) f l) as [r'|] eqn:Er; cbn [obind] in H; [|discriminate]. inversion H; subst.
    destruct k; cbn in *.
    + inversion Hn; subst. exists a. rewrite Nat.add_0_r. auto.
    + destruct (IH _ _ _ _ Er Hn) as (a' & Ha & Hf). exists a'. split; [exact Ha|].
      replace (i + S k) with (S i + k) by lia. exact Hf.
Qed.

Section P.
  Context {N : Num}.
  Variable K : Kernel N.
  Hypothesis nleb_total : forall a b : N, nleb a b = true \/ nleb b a = true.
  Hypothesis nleb_trans : forall a b c : N, nleb a b = true -> nleb b c = true -> nleb a c = true.

  (* an existing category that wins was not vetoed, in every mode *)
  Lemma winner_not_vetoed (a : st (N:=N)) x f m eps a' c vl :
    step_fit K a x (Some f) m eps = Some (a', c, vl) -> c < length (W a) -> f c = true.
  Proof.
    intros H Hc. assert (HW : W a <> []) by (destruct (W a); cbn in Hc; [lia|discriminate]).
    destruct (step_fit_is_scan K _ _ _ _ _ _ _ _ H HW) as (Ts & HT & D). cbv zeta in D.
    destruct D as [(Hw & _)|(_ & E)]; [|lia].
    destruct (scan_win_props _ _ _ _ _ _ Hw) as (Hin & v' & Hv & _).
    destruct m; cbn [veto_fun] in Hv; try exact Hv.
    (* MT~: vetoed categories were masked to NaN, and the winner is live *)
    destruct (order_sound N nleb nleb_total nleb_trans _ _ _ Hin) as [t Ht]. unfold live in Ht.
    unfold activations in HT. destruct (omapi_nth _ _ _ _ _ _ HT Ht) as (w & _ & Hf).
    cbn [mask_fun plus] in Hf. destruct (f c); [reflexivity|discriminate].
  Qed.

  (* ---- the invariant ---- *)
  Definition MapInv (s : sam (N:=N)) (p : nat) : Prop :=
    (forall c, lookup (mp s) c <> None <-> c < length (W (A s))) /\
    (forall i ca cb, i < p -> nth_error (labels (A s)) i = Some ca -> nth_error (bl s) i = Some cb ->
                     lookup (mp s) ca = Some cb) /\
    (forall c b, lookup (mp s) c = Some b -> In b (bl s)).

  Lemma sam_step_ok s x cb m eps p :
    MapInv s p -> In cb (bl s) ->
    match sam_step K s x cb m eps with
    | Some (s1, ca) =>
        (forall c b, lookup (mp s) c = Some b -> lookup (mp s1) c = Some b) /\   (* keys never change value *)
        lookup (mp s1) ca = Some cb /\
        (forall c, lookup (mp s1) c <> None <-> c < length (W (A s1))) /\
        (forall c b, lookup (mp s1) c = Some b -> In b (bl s1)) /\
        labels (A s1) = labels (A s) /\ bl s1 = bl s /\ hasL s1 = hasL s /\
        rho (A s1) = rho (A s) /\ hasW (A s1) = hasW (A s) /\ dim (A s1) = dim (A s)
    | None => step_fit K (A s) x (Some (sam_veto (mp s) cb)) m eps = None    (* never the assertion *)
    end.
  Proof.
    intros (Hdom & Hlab & Hval) Hcb. unfold sam_step.
    destruct (step_fit K (A s) x (Some (sam_veto (mp s) cb)) m eps) as [[[a' ca] vl]|] eqn:E; cbn [obind]; [|reflexivity].
    destruct (step_fit_frame K _ _ _ _ _ _ _ _ E) as (Hr & _ & Hl & Hw & Hd & _).
    pose proof (step_fit_count K _ _ _ _ _ _ _ _ E) as Hcnt.
    destruct (lookup (mp s) ca) as [b|] eqn:Elk.
    - assert (Hlt : ca < length (W (A s))) by (apply Hdom; congruence).
      pose proof (winner_not_vetoed _ _ _ _ _ _ _ _ E Hlt) as Hv. unfold sam_veto in Hv. rewrite Elk in Hv.
      rewrite Hv. cbn. apply Nat.eqb_eq in Hv; subst b.
      destruct Hcnt as [(_ & Hlen)|(Hc & _)]; [|lia].
      repeat split; auto; try (rewrite Hlen; apply Hdom); try (intros Hx; apply Hdom; rewrite <- Hlen; exact Hx).
    - assert (Hge : ~ ca < length (W (A s))) by (intros Hx; apply Hdom in Hx; congruence).
      destruct Hcnt as [(Hc & _)|(Hc & Hlen)]; [lia|]. cbn.
      split; [|split; [|split; [|split]]].
      + intros c b Hcb'. rewrite lookup_app, Hcb'. reflexivity.
      + rewrite lookup_app, Elk, Nat.eqb_refl. reflexivity.
      + intros c. rewrite lookup_app, Hlen. destruct (lookup (mp s) c) eqn:Ec.
        * split; [intros _|intros _; discriminate]. assert (c < length (W (A s))) by (apply Hdom; congruence). lia.
        * destruct (Nat.eqb ca c) eqn:Eq.
          -- apply Nat.eqb_eq in Eq; subst c. split; [intros _; lia|intros _; discriminate].
          -- apply Nat.eqb_neq in Eq. split; [congruence|]. intros Hx.
             assert (c < length (W (A s))) by lia. apply Hdom in H. congruence.
      + intros c b. rewrite lookup_app. destruct (lookup (mp s) c) eqn:Ec.
        * intros H; inversion H; subst. eapply Hval; eauto.
        * destruct (Nat.eqb ca c); [intros H; inversion H; subst; exact Hcb|discriminate].
      + repeat split; auto.
  Qed.

  (* ---- the training loop ---- *)
  Lemma sam_loop_ok X : forall y s i j m eps p s',
    MapInv s p -> i + j <= p -> i + j + length X <= length (labels (A s)) ->
    length X = length y -> skipn (i + j) (bl s) = y ->
    sam_loop K s X y i j m eps = Some s' ->
    MapInv s' (Nat.max p (i + j + length X)) /\ bl s' = bl s /\ hasL s' = hasL s /\
    length (labels (A s')) = length (labels (A s)) /\ rho (A s') = rho (A s) /\
    (forall c b, lookup (mp s) c = Some b -> lookup (mp s') c = Some b) /\
    (forall idx, idx < i + j \/ i + j + length X <= idx -> nth_error (labels (A s')) idx = nth_error (labels (A s)) idx).
  Proof.
    induction X as [|x X IH]; intros y s i j m eps p s' HI Hp Hlen Hxy Hsk H.
    - destruct y; [|discriminate]. cbn in H. inversion H; subst. cbn [length]. rewrite Nat.add_0_r.
      replace (Nat.max p (i + j)) with p by lia. repeat split; auto; apply HI.
    - destruct y as [|cb y]; [discriminate|]. cbn [sam_loop] in H. cbn [length] in *.
      assert (Hcb : nth_error (bl s) (i + j) = Some cb).
      { rewrite <- (firstn_skipn (i + j) (bl s)), Hsk.
        assert (Lb : length (firstn (i + j) (bl s)) = i + j).
        { apply firstn_length_le. assert (length (skipn (i + j) (bl s)) = S (length y)) by (rewrite Hsk; reflexivity).
          rewrite skipn_length in H0. lia. }
        rewrite nth_error_app2 by lia. rewrite Lb, Nat.sub_diag. reflexivity. }
      assert (Hin : In cb (bl s)) by (eapply nth_error_In; eauto).
      pose proof (sam_step_ok s x cb m eps p HI Hin) as Hst.
      destruct (sam_step K s x cb m eps) as [[s1 ca]|]; cbn [obind] in H; [|discriminate].
      destruct Hst as (Hmono & Hca & Hdom1 & Hval1 & Hl1 & Hb1 & Hh1 & Hr1 & Hw1 & Hd1).
      set (a2 := set_labels (A s1) (set_nth (i + j) ca (labels (A s1)))) in H.
      set (s2 := set_A s1 a2) in H.
      assert (HI2 : MapInv s2 (Nat.max p (S (i + j)))).
      { destruct HI as (Hdom & Hlab & Hval). unfold MapInv, s2, a2; cbn.
        split; [exact Hdom1|]. split; [|exact Hval1].
        intros idx ca' cb' Hidx Hn Hb. rewrite Hl1 in Hn. rewrite Hb1 in Hb.
        destruct (Nat.eq_dec idx (i + j)) as [->|Hne].
        - rewrite set_nth_same in Hn by lia. inversion Hn; subst ca'.
          rewrite Hcb in Hb. inversion Hb; subst cb'. exact Hca.
        - rewrite set_nth_other in Hn by exact Hne. apply Hmono. eapply Hlab; eauto. lia. }
      assert (Hsk2 : skipn (S i + j) (bl s2) = y).
      { unfold s2; cbn [bl set_A]. rewrite Hb1. replace (S i + j) with ((i + j) + 1) by lia.
        rewrite <- skipn_skipn'. rewrite Hsk. reflexivity. }
      assert (Hlen2 : S i + j + length X <= length (labels (A s2))).
      { unfold s2, a2; cbn. rewrite set_nth_length, Hl1. lia. }
      injection Hxy as Hxy.
      destruct (IH y s2 (S i) j m eps (Nat.max p (S (i + j))) s' HI2 ltac:(lia) Hlen2 Hxy Hsk2 H)
        as (HI' & Hb' & Hh' & Hl' & Hr' & Hm' & Hnth').
      replace (Nat.max (Nat.max p (S (i + j))) (S i + j + length X)) with (Nat.max p (i + j + S (length X))) in HI' by lia.
      split; [exact HI'|]. unfold s2, a2 in *; cbn in *.
      rewrite set_nth_length in Hl'. repeat split; try congruence.
      + intros c b Hc. apply Hm'. apply Hmono. exact Hc.
      + intros idx Hidx. rewrite Hnth' by lia. rewrite Hl1. apply set_nth_other. lia.
  Qed.

  Lemma mapinv_weaken s p q : MapInv s p -> q <= p -> MapInv s q.
  Proof. intros (H1 & H2 & H3) Hq. repeat split; try apply H1; auto. intros; eapply H2; eauto; lia. Qed.

  Lemma sam_epochs_ok n : forall s X y m eps s',
    MapInv s 0 -> length X = length y -> bl s = y -> length (labels (A s)) = length X ->
    sam_epochs K n s X y m eps = Some s' -> 1 <= n ->
    MapInv s' (length X) /\ bl s' = y /\ length (labels (A s')) = length X /\ rho (A s') = rho (A s) /\
    hasL s' = hasL s.
  Proof.
    (* after the first epoch the invariant holds for all rows; later epochs preserve it *)
    assert (G : forall k s X y m eps s' p,
      MapInv s p -> (p = 0 \/ p = length X) -> length X = length y -> bl s = y ->
      length (labels (A s)) = length X -> sam_epochs K k s X y m eps = Some s' ->
      (MapInv s' (if Nat.eqb k 0 then p else length X)) /\ bl s' = y /\
      length (labels (A s')) = length X /\ rho (A s') = rho (A s) /\ hasL s' = hasL s).
    { intros k. induction k as [|k IH]; intros s X y m eps s' p HI Hp Hxy Hb Hl H; cbn [sam_epochs] in H.
      - injection H as H. rewrite <- H. cbn [Nat.eqb]. split; [exact HI|]. split; [exact Hb|]. split; [exact Hl|]. split; reflexivity.
      - destruct (sam_loop K s X y 0 0 m eps) as [s1|] eqn:E; cbn [obind] in H; [|discriminate].
        assert (HI0 : MapInv s 0) by (eapply mapinv_weaken; eauto; lia).
        destruct (sam_loop_ok X y s 0 0 m eps 0 s1 HI0 ltac:(lia) ltac:(cbn; lia) Hxy ltac:(cbn; exact Hb) E)
          as (HI1 & Hb1 & Hh1 & Hl1 & Hr1 & _).
        cbn in HI1.
        destruct (IH s1 X y m eps s' (length X) HI1 ltac:(auto) Hxy ltac:(congruence) ltac:(congruence) H)
          as (HI' & Hb' & Hl' & Hr' & Hh').
        cbn [Nat.eqb]. split; [|repeat split; congruence].
        destruct (Nat.eqb k 0); exact HI'. }
    intros s X y m eps s' HI Hxy Hb Hl H Hn.
    destruct (G n s X y m eps s' 0 HI ltac:(auto) Hxy Hb Hl H) as (HI' & R).
    destruct n; [lia|]. cbn in HI'. split; [exact HI'|exact R].
  Qed.

  (* ---- fit ---- *)
  Theorem sam_fit_ok s X y iters m eps s' :
    sam_fit K s X y iters m eps = Some s' -> 1 <= iters ->
    MapInv s' (length X) /\ bl s' = y /\ length (labels (A s')) = length X /\ length X = length y /\
    rho (A s') = rho (A s) /\ hasL s' = true.
  Proof.
    unfold sam_fit. destruct (sam_valid K s X y) eqn:V; [|discriminate]. intros H Hn.
    unfold sam_valid in V. apply andb_true_iff in V as [V _]. apply andb_true_iff in V as [V _].
    apply Nat.eqb_eq in V.
    set (s0 := {| A := _; mp := []; bl := y; hasL := true |}) in H.
    assert (HI : MapInv s0 0).
    { unfold MapInv, s0; cbn. repeat split; intros; try lia; try congruence; try discriminate. }
    destruct (sam_epochs_ok iters s0 X y m eps s' HI V eq_refl ltac:(cbn; apply repeat_length) H Hn)
      as (HI' & Hb & Hl & Hr & Hh).
    split; [exact HI'|]. split; [exact Hb|]. split; [exact Hl|]. split; [exact V|]. split; [|exact Hh].
    rewrite Hr. unfold s0; cbn. unfold learn_dim. destruct (dim (A s)), X; reflexivity.
  Qed.

  (* mapping the stored A-side labels reproduces the supplied targets exactly *)
  Theorem map_reproduces_targets s :
    MapInv s (length (bl s)) -> length (labels (A s)) = length (bl s) ->
    map_a2b (mp s) (labels (A s)) = Some (bl s).
  Proof.
    intros (_ & Hlab & _) Hlen. unfold map_a2b.
    assert (G : forall la lb, length la = length lb ->
      (forall i ca cb, nth_error la i = Some ca -> nth_error lb i = Some cb -> lookup (mp s) ca = Some cb) ->
      omap (lookup (mp s)) la = Some lb).
    { induction la as [|a la IH]; intros [|b lb] Hl Hn; try discriminate; [reflexivity|].
      cbn [omap]. rewrite (Hn 0 a b eq_refl eq_refl). cbn [obind].
      rewrite (IH lb); [reflexivity|cbn in Hl; lia|]. intros i ca cb H1 H2. apply (Hn (S i)); assumption. }
    apply G; [exact Hlen|]. intros i ca cb H1 H2. eapply Hlab; eauto.
    apply nth_error_Some. congruence.
  Qed.

  (* ---- partial_fit ---- *)
  Theorem sam_partial_fit_ok s X y m eps s' :
    MapInv s (length (bl s)) -> length (labels (A s)) = length (bl s) ->
    (hasL s = false -> bl s = [] /\ mp s = [] /\ W (A s) = []) ->
    sam_partial_fit K s X y m eps = Some s' ->
    MapInv s' (length (bl s')) /\ bl s' = bl s ++ y /\ length (labels (A s')) = length (bl s') /\
    rho (A s') = rho (A s) /\ hasL s' = true /\
    (forall c b, lookup (mp s) c = Some b -> lookup (mp s') c = Some b).
  Proof.
    intros HI Hlen Hun. unfold sam_partial_fit. destruct (sam_valid K s X y) eqn:V; [|discriminate].
    unfold sam_valid in V. apply andb_true_iff in V as [V _]. apply andb_true_iff in V as [V _].
    apply Nat.eqb_eq in V.
    assert (ELD : W (learn_dim (A s) X) = W (A s) /\ labels (learn_dim (A s) X) = labels (A s) /\
                  rho (learn_dim (A s) X) = rho (A s)).
    { unfold learn_dim. destruct (dim (A s)), X; cbn; auto. }
    destruct ELD as (EW & EL & ER).
    destruct (hasL s) eqn:HL; intros H.
    - set (s0 := {| A := _; mp := mp s; bl := bl s ++ y; hasL := true |}) in H.
      assert (HI0 : MapInv s0 (length (bl s))).
      { destruct HI as (H1 & H2 & H3). unfold MapInv, s0; cbn. rewrite EW, EL. split; [exact H1|]. split.
        - intros i ca cb Hi Hn Hb. rewrite nth_error_app1 in Hn by lia. rewrite nth_error_app1 in Hb by lia.
          eapply H2; eauto.
        - intros c b Hc. apply in_or_app. left. eapply H3; eauto. }
      assert (Hsk : skipn (0 + length (bl s)) (bl s0) = y).
      { unfold s0; cbn. rewrite skipn_app, skipn_all, Nat.sub_diag. reflexivity. }
      assert (Hl0 : 0 + length (bl s) + length X <= length (labels (A s0))).
      { unfold s0; cbn. rewrite EL, app_length, repeat_length. lia. }
      destruct (sam_loop_ok X y s0 0 (length (bl s)) m eps (length (bl s)) s' HI0 ltac:(lia) Hl0 V Hsk H)
        as (HI' & Hb' & Hh' & Hl' & Hr' & Hm' & _).
      unfold s0 in *; cbn in *. rewrite EL, app_length, repeat_length in Hl'.
      replace (Nat.max (length (bl s)) (length (bl s) + length X)) with (length (bl s) + length y) in HI' by lia.
      assert (Lb : length (bl s') = length (bl s) + length y) by (rewrite Hb', app_length; reflexivity).
      split; [rewrite Lb; exact HI'|]. split; [exact Hb'|]. split; [rewrite Lb, Hl'; lia|].
      split; [congruence|]. split; [exact Hh'|exact Hm'].
    - destruct (Hun eq_refl) as (Eb & Em & EWs).
      set (s0 := {| A := _; mp := mp s; bl := y; hasL := true |}) in H.
      assert (HI0 : MapInv s0 0).
      { unfold MapInv, s0; cbn. rewrite Em. cbn. repeat split; intros; try lia; try congruence; try discriminate. }
      destruct (sam_loop_ok X y s0 0 0 m eps 0 s' HI0 ltac:(lia) ltac:(cbn; rewrite repeat_length; lia) V eq_refl H)
        as (HI' & Hb' & Hh' & Hl' & Hr' & Hm' & _).
      unfold s0 in *; cbn in *. rewrite repeat_length in Hl'.
      cbn [Nat.max] in HI'.
      assert (Lb : length (bl s') = length y) by (rewrite Hb'; reflexivity).
      split; [rewrite Lb, <- V; exact HI'|]. split; [rewrite Hb', Eb; reflexivity|]. split; [rewrite Lb, Hl'; lia|].
      split; [congruence|]. split; [exact Hh'|]. rewrite Em. intros; discriminate.
  Qed.

  (* ---- every reachable state ---- *)
  Definition SInv (s : sam (N:=N)) : Prop :=
    MapInv s (length (bl s)) /\ length (labels (A s)) = length (bl s) /\
    (hasL s = false -> bl s = [] /\ mp s = [] /\ W (A s) = []).

  Inductive sreach (r : list N) : sam (N:=N) -> Prop :=
  | sreach_init : sreach r (sam_init r)
  | sreach_fit s X y iters m eps s' :
      sreach r s -> 1 <= iters -> sam_fit K s X y iters m eps = Some s' -> sreach r s'
  | sreach_pfit s X y m eps s' :
      sreach r s -> sam_partial_fit K s X y m eps = Some s' -> sreach r s'.

  Theorem sreach_inv r s : sreach r s -> SInv s /\ rho (A s) = r.
  Proof.
    induction 1 as [|s X y iters m eps s' _ [_ IHr] Hn H|s X y m eps s' _ [IH IHr] H].
    - split; [|reflexivity]. unfold SInv, MapInv, sam_init; cbn.
      repeat split; intros; try lia; try congruence; try discriminate.
    - destruct (sam_fit_ok _ _ _ _ _ _ _ H Hn) as (HI & Hb & Hl & Hxy & Hr & Hh).
      split; [|congruence]. unfold SInv. rewrite Hb, <- Hxy. split; [exact HI|]. split; [exact Hl|].
      rewrite Hh; discriminate.
    - destruct IH as (HI & Hl & Hun).
      destruct (sam_partial_fit_ok _ _ _ _ _ _ HI Hl Hun H) as (HI' & Hb & Hl' & Hr & Hh & _).
      split; [|congruence]. unfold SInv. split; [exact HI'|]. split; [exact Hl'|]. rewrite Hh; discriminate.
  Qed.

  (* ---- prediction ---- *)
  Theorem sam_predict_seen_class s x ca cb p :
    MapInv s p -> sam_step_pred K s x = Some (ca, cb) ->
    lookup (mp s) ca = Some cb /\ In cb (bl s) /\ step_pred K (A s) x = Some ca.
  Proof.
    intros (_ & _ & Hval). unfold sam_step_pred.
    destruct (step_pred K (A s) x) as [a|]; cbn [obind]; [|discriminate].
    destruct (lookup (mp s) a) as [b|] eqn:E; cbn [obind]; [|discriminate].
    intros H; inversion H; subst. repeat split; auto. eapply Hval; eauto.
  Qed.
End P.

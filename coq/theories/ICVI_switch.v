(* C15, switch_label: the invariant of ICVI_full.v is preserved when a sample
   is moved from one cluster (which keeps at least one member: the API refuses
   to empty a cluster) to another, existing or brand-new, cluster.  Hence the
   tracked value equals the batch index after ANY interleaving of add_sample
   and switch_label that the API permits. *)
From Coq Require Import List Bool Arith ZArith Reals Lra Lia Permutation.
From ART Require Import Num NumR Vec VecR Search Kernel SimpleARTMAP ICVI ICVI_R ICVI_full.
Import ListNotations.
Open Scope R_scope.

(* ------------------------------------------------------------------ order of the data is irrelevant *)
Lemma s1_perm C C2 i : Permutation C C2 -> s1 C i = s1 C2 i.
Proof. intros H. unfold s1. apply lsum_perm. apply Permutation_map. exact H. Qed.
Lemma s2_perm C C2 i : Permutation C C2 -> s2 C i = s2 C2 i.
Proof. intros H. unfold s2. apply lsum_perm. apply Permutation_map. exact H. Qed.
Lemma wf_perm d C C2 : Permutation C C2 -> wf d C -> wf d C2.
Proof. intros H W. unfold wf in *. eapply Permutation_Forall; eauto. Qed.

Lemma meanv_perm d C C2 : Permutation C C2 -> wf d C -> meanv d C = meanv d C2.
Proof.
  intros H W. pose proof (wf_perm d C C2 H W) as W2.
  apply vec_ext; [rewrite !meanv_length by assumption; reflexivity|].
  intros i Hi. rewrite meanv_length in Hi by exact W. rewrite !co_meanv by assumption.
  rewrite (s1_perm C C2 i H), (Permutation_length H). reflexivity.
Qed.

Lemma css_perm d C C2 : Permutation C C2 -> wf d C -> css d C = css d C2.
Proof.
  intros H W. pose proof (wf_perm d C C2 H W) as W2.
  destruct C as [|y C].
  - apply Permutation_nil in H. subst C2. reflexivity.
  - assert (N1 : y :: C <> []) by discriminate.
    assert (N2 : C2 <> []) by (intros ->; apply Permutation_sym, Permutation_nil in H; discriminate).
    rewrite (css_coord d _ W N1), (css_coord d _ W2 N2). apply bigsum_ext. intros i Hi.
    rewrite (s1_perm _ _ i H), (s2_perm _ _ i H), (Permutation_length H). reflexivity.
Qed.

Lemma cluster_ok_perm d C C2 c : Permutation C C2 -> wf d C -> cluster_ok d C c -> cluster_ok d C2 c.
Proof.
  intros H W [On Ov OCP OG]. constructor.
  - rewrite On, (Permutation_length H). reflexivity.
  - rewrite Ov. apply meanv_perm; assumption.
  - rewrite OCP. apply css_perm; assumption.
  - exact OG.
Qed.

Lemma filter_perm {A} (f : A -> bool) (l l2 : list A) : Permutation l l2 -> Permutation (filter f l) (filter f l2).
Proof.
  induction 1 as [|a l l2 H IH|a b l|l l2 l3 H1 IH1 H2 IH2]; cbn.
  - constructor.
  - destruct (f a); [constructor|]; exact IH.
  - destruct (f a), (f b); try apply Permutation_refl. apply perm_swap.
  - eapply Permutation_trans; eauto.
Qed.

Lemma members_perm (D D2 : data) l : Permutation D D2 -> Permutation (members D l) (members D2 l).
Proof. intros H. unfold members, cluster. apply Permutation_map. apply filter_perm. exact H. Qed.

Lemma Struct_perm d (s : chR) (D D2 : data) : Permutation D D2 -> Struct d s D -> Struct d s D2.
Proof.
  intros H [Hwf Hdim Hn Hmu Hmu0 Hnd Hkeys Hstats Hw].
  constructor; auto.
  - eapply Permutation_Forall; eauto.
  - rewrite Hn, (Permutation_length H). reflexivity.
  - intros Hne. assert (Dne : D <> []) by (intros ->; apply Permutation_nil in H; contradiction).
    rewrite (Hmu Dne). apply meanv_perm; [unfold pts; apply Permutation_map; exact H|apply pts_wf; exact Hwf].
  - intros ->. apply Hmu0. apply Permutation_sym, Permutation_nil in H. exact H.
  - intros l. rewrite Hkeys. split; apply Permutation_in; [|apply Permutation_sym]; apply Permutation_map; exact H.
  - intros l c G. eapply cluster_ok_perm; [apply members_perm; exact H|apply members_wf; exact Hwf|apply Hstats; exact G].
Qed.

(* ------------------------------------------------------------------ one cluster loses a member *)
Lemma remove_stats_spec (s : chR) d (C : list (list R)) (c : cstatR) (x : list R) (l : nat) :
  wf d C -> C <> [] -> length x = d ->
  cd_get (h_CD s) l = Some c -> cluster_ok d (C ++ [x]) c ->
  exists c' cpd, @remove_stats RN s x l = Some (c', cpd) /\ cluster_ok d C c' /\ cpd = css d C - css d (C ++ [x]).
Proof.
  intros HW Hne Hx Hget [On Ov OCP OG].
  pose proof (INR_pos_of_nonempty C Hne) as Hm.
  assert (W' : wf d (C ++ [x])) by (apply wf_app; assumption).
  assert (Ne' : C ++ [x] <> []) by (destruct C; discriminate).
  assert (Len' : INR (length (C ++ [x])) = INR (length C) + 1) by (rewrite app_length, plus_INR; cbn; lra).
  unfold remove_stats. rewrite Hget. cbn [obind].
  assert (Hgt : @nleb RN (c_n c) n1 = false) by (cbn; apply Rleb_false; rewrite On, Len'; lra).
  rewrite Hgt. cbn [nsub RN n1].
  rewrite odiv_some by (rewrite On, Len'; lra). cbn [obind].
  set (m := INR (length C)) in *.
  set (v := c_v c). normT.
  assert (Lv : @length R v = d) by (unfold v; rewrite Ov; apply meanv_length; exact W').
  set (w := vsubR v x). normT.
  assert (Lw : @length R w = d) by (unfold w; rewrite vsub_length; lia).
  set (dvp := @vscale RN (1 / (c_n c - 1)) w). normT.
  assert (Ldvp : @length R dvp = d) by (unfold dvp; rewrite vscale_length; exact Lw).
  set (dxv := vsubR x v). normT.
  assert (Ldxv : @length R dxv = d) by (unfold dxv; rewrite vsub_length; lia).
  assert (Cv : forall i, (i < d)%nat -> co i v = (s1 C i + co i x) / (m + 1)).
  { intros i Hi. unfold v. rewrite Ov, co_meanv by assumption. rewrite s1_app, Len'. reflexivity. }
  assert (Cdvp : forall i, (i < d)%nat -> co i dvp = (1 / ((m + 1) - 1)) * ((s1 C i + co i x) / (m + 1) - co i x)).
  { intros i Hi. unfold dvp. rewrite co_vscale. unfold w. rewrite co_vsub by lia. rewrite Cv by exact Hi.
    rewrite On, Len'. reflexivity. }
  assert (Cdxv : forall i, (i < d)%nat -> co i dxv = co i x - (s1 C i + co i x) / (m + 1)).
  { intros i Hi. unfold dxv. rewrite co_vsub by lia. rewrite Cv by exact Hi. reflexivity. }
  (* the correction vector stays zero *)
  set (inner := vaddR dxv (@vscale RN (c_n c - 1) dvp)). normT.
  assert (Ls : @length R (@vscale RN (c_n c - 1) dvp) = d) by (rewrite vscale_length; exact Ldvp).
  assert (Li0 : @length R dxv = @length R (@vscale RN (c_n c - 1) dvp)) by (rewrite Ls; exact Ldxv).
  assert (Li : @length R inner = d) by (unfold inner; rewrite (vadd_length _ _ Li0); exact Ldxv).
  assert (LG : @length R (c_G c) = d) by (rewrite OG; apply repeat_length).
  assert (LG0 : @length R (c_G c) = @length R inner) by (rewrite LG, Li; reflexivity).
  assert (EG : vsubR (c_G c) inner = repeat 0 d).
  { apply vec_ext.
    - rewrite (vsub_length _ _ LG0), repeat_length. exact LG.
    - intros i Hi. rewrite (vsub_length _ _ LG0), LG in Hi.
      rewrite (co_vsub _ _ i LG0) by (rewrite LG; exact Hi).
      unfold inner. rewrite (co_vadd _ _ i Li0) by (rewrite Ldxv; exact Hi).
      rewrite co_vscale, OG, !co_repeat by exact Hi. rewrite Cdxv, Cdvp by exact Hi.
      rewrite On, Len'. fold m. field. lra. }
  fold inner. rewrite EG.
  eexists. eexists. split; [reflexivity|]. split.
  - constructor; cbn [c_n c_v c_CP c_G].
    + rewrite On, Len'. fold m. lra.
    + assert (Lvd : @length R v = @length R dvp) by (rewrite Lv, Ldvp; reflexivity).
      apply vec_ext.
      * rewrite (vadd_length _ _ Lvd). rewrite meanv_length by exact HW. exact Lv.
      * intros i Hi. rewrite (vadd_length _ _ Lvd), Lv in Hi.
        rewrite (co_vadd _ _ i Lvd) by (rewrite Lv; exact Hi). rewrite Cv, Cdvp by exact Hi.
        rewrite co_meanv by assumption. fold m. field. lra.
    + rewrite OCP. rewrite (css_coord d C HW Hne), (css_coord d (C ++ [x]) W' Ne').
      unfold sq.
      rewrite (dot_bigsum dxv dxv d Ldxv Ldxv), (dot_bigsum dvp dvp d Ldvp Ldvp).
      rewrite (dot_bigsum dvp (repeat 0 d) d Ldvp (repeat_length 0 d)).
      unfold nneg, n2. cbn [nadd nsub nmul RN n0 n1].
      replace (0 - (bigsum d (fun i => co i dxv * co i dxv) + (c_n c - 1) * bigsum d (fun i => co i dvp * co i dvp) +
                    (1 + 1) * bigsum d (fun i => co i dvp * co i (repeat 0 d))))
        with ((-1) * bigsum d (fun i => co i dxv * co i dxv) + ((-1) * (c_n c - 1)) * bigsum d (fun i => co i dvp * co i dvp) +
              (-2) * bigsum d (fun i => co i dvp * co i (repeat 0 d))) by lra.
      rewrite <- !bigsum_scal, <- !bigsum_plus. apply bigsum_ext. intros i Hi.
      rewrite co_repeat by exact Hi. rewrite Cdxv, Cdvp by exact Hi.
      rewrite s1_app, s2_app, Len', On, Len'. fold m. field. lra.
    + reflexivity.
  - rewrite (css_coord d C HW Hne), (css_coord d (C ++ [x]) W' Ne').
    unfold sq.
    rewrite (dot_bigsum dxv dxv d Ldxv Ldxv), (dot_bigsum dvp dvp d Ldvp Ldvp).
    rewrite (dot_bigsum dvp (repeat 0 d) d Ldvp (repeat_length 0 d)).
    unfold nneg, n2. cbn [nadd nsub nmul RN n0 n1].
    replace (0 - (bigsum d (fun i => co i dxv * co i dxv) + (c_n c - 1) * bigsum d (fun i => co i dvp * co i dvp) +
                  (1 + 1) * bigsum d (fun i => co i dvp * co i (repeat 0 d))))
      with ((-1) * bigsum d (fun i => co i dxv * co i dxv) + ((-1) * (c_n c - 1)) * bigsum d (fun i => co i dvp * co i dvp) +
            (-2) * bigsum d (fun i => co i dvp * co i (repeat 0 d))) by lra.
    rewrite <- bigsum_minus, <- !bigsum_scal, <- !bigsum_plus. apply bigsum_ext. intros i Hi.
    rewrite co_repeat by exact Hi. rewrite Cdxv, Cdvp by exact Hi.
    rewrite s1_app, s2_app, Len', On, Len'. fold m. field. lra.
Qed.

(* ------------------------------------------------------------------ the cluster that gains the sample (any state) *)
Lemma add_stats_spec d (s : chR) (D : data) (x : list R) (l : nat) :
  Struct d s D -> length x = d ->
  exists cd cpd, @add_stats RN s x l = Some (cd, cpd) /\
                 cluster_ok d (members D l ++ [x]) cd /\
                 h_WGSS s + cpd = lsum (map CPof (cd_set (h_CD s) l cd)) /\
                 (forall c, cd_get (h_CD s) l = Some c -> cpd = c_CP cd - c_CP c) /\
                 (cd_get (h_CD s) l = None -> cd = @mkCstat RN 1 x 0 (repeat 0 d) /\ cpd = 0).
Proof.
  intros [Hwf Hdim Hn Hmu Hmu0 Hnd Hkeys Hstats Hw] Hx.
  destruct (cd_get (h_CD s) l) as [c|] eqn:G.
  - pose proof (Hstats _ _ G) as Ok.
    assert (Mne : members D l <> []) by (apply members_nonempty, Hkeys; eapply cd_get_some_key; exact G).
    destruct (add_stats_existing s d (members D l) c x l (members_wf d D l Hwf) Mne Hx G Ok) as [cd [cpd [E1 [E2 E3]]]].
    exists cd, cpd. split; [exact E1|]. split; [exact E2|].
    assert (Ecp : cpd = c_CP cd - c_CP c).
    { destruct Ok as [_ _ OCP _]. destruct E2 as [_ _ OCP' _]. rewrite OCP, OCP', E3. reflexivity. }
    split; [|split; [|discriminate]].
    + rewrite (cd_set_sum_present _ _ _ _ G). rewrite Hw, Ecp. lra.
    + intros c0 E0. injection E0 as <-. exact Ecp.
  - assert (Mem : members D l = []).
    { destruct (members D l) eqn:EM; [reflexivity|]. exfalso.
      assert (In l (map snd D)) by (apply members_nonempty; rewrite EM; discriminate).
      apply Hkeys in H. apply cd_get_none in G. contradiction. }
    unfold add_stats. rewrite G. rewrite Hdim. eexists. eexists. split; [reflexivity|].
    rewrite Mem. cbn [app]. split; [apply cluster_ok_first; exact Hx|]. split; [|split; [discriminate|auto]].
    rewrite (cd_set_sum_absent _ _ _ G). rewrite Hw. cbn. lra.
Qed.

Lemma cd_get_present (cd : list (nat * cstatR)) l : In l (keys cd) -> exists c, cd_get cd l = Some c.
Proof.
  intros H. destruct (cd_get cd l) as [c|] eqn:G; [eexists; reflexivity|]. apply cd_get_none in G. contradiction.
Qed.

Lemma set_nth_split {A} (l1 : list A) a b l2 : set_nth (length l1) b (l1 ++ a :: l2) = l1 ++ b :: l2.
Proof. induction l1 as [|y l1 IH]; cbn; [reflexivity|]. rewrite IH. reflexivity. Qed.

Definition substf2 (F : cstatR -> R) (l1 : nat) (c1 : cstatR) (l2 : nat) (c2 : cstatR) (kc : nat * cstatR) : R :=
  let '(i, c) := kc in if Nat.eqb i l1 then F c1 else if Nat.eqb i l2 then F c2 else F c.

Lemma substf2_absent1 F l1 c1 l2 c2 (cd0 : list (nat * cstatR)) : ~ In l1 (keys cd0) ->
  map (substf2 F l1 c1 l2 c2) cd0 = map (substf F l2 c2) cd0.
Proof.
  induction cd0 as [|[k c0] cd0 IH]; cbn; [reflexivity|]. intros H.
  destruct (Nat.eqb_spec k l1) as [->|Hk]; [exfalso; apply H; left; reflexivity|]. rewrite IH by tauto. reflexivity.
Qed.

Lemma substf2_as_substf F l1 c1 l2 c2 (cd0 : list (nat * cstatR)) : NoDup (keys cd0) -> In l1 (keys cd0) -> l2 <> l1 ->
  map (substf2 F l1 c1 l2 c2) cd0 = map (substf F l2 c2) (cd_set cd0 l1 c1).
Proof.
  intros ND Hin Hne. induction cd0 as [|[k c0] cd0 IH]; cbn; [contradiction|].
  inversion ND as [|? ? Hk ND']; subst.
  destruct (Nat.eqb_spec k l1) as [->|Hk1]; cbn.
  - destruct (Nat.eqb_spec l1 l2); [congruence|]. f_equal. apply substf2_absent1. exact Hk.
  - destruct (Nat.eqb_spec k l1); [congruence|]. f_equal. apply IH; [exact ND'|].
    cbn in Hin. destruct Hin as [E|E]; [congruence|exact E].
Qed.

(* ------------------------------------------------------------------ switch_label preserves the invariant *)
Theorem switch_label_inv d (s : chR) (D : data) (j : nat) (x : list R) (lold lnew : nat) :
  Struct d s D -> nth_error D j = Some (x, lold) -> lnew <> lold -> (2 <= length (members D lold))%nat ->
  exists p, @switch_label RN s x lold lnew = Some p /\
            Struct d (@update RN s p) (set_nth j (x, lnew) D) /\
            @batch_ch RN (set_nth j (x, lnew) D) d = Some (h_crit (@update RN s p)).
Proof.
  intros St Hj Hne H2.
  destruct (nth_error_split D j Hj) as [D1 [D2 [ED Lj]]].
  set (Dm := D1 ++ D2).
  assert (P1 : Permutation D (Dm ++ [(x, lold)])).
  { rewrite ED. unfold Dm. rewrite <- app_assoc. apply Permutation_app_head. cbn. apply Permutation_cons_append. }
  pose proof (Struct_perm d s _ _ P1 St) as St1.
  pose proof St1 as [Hwf Hdim Hn Hmu Hmu0 Hnd Hkeys Hstats Hw].
  assert (Hx : length x = d).
  { apply Forall_app in Hwf. destruct Hwf as [_ Hwf]. inversion Hwf; subst. assumption. }
  assert (Wm : Forall (fun p => length (fst p) = d) Dm) by (apply Forall_app in Hwf; tauto).
  (* the old cluster keeps at least one member *)
  assert (Mold : members (Dm ++ [(x, lold)]) lold = members Dm lold ++ [x]) by apply members_app_same.
  assert (Mne : members Dm lold <> []).
  { pose proof (Permutation_length (members_perm _ _ lold P1)) as PL. rewrite Mold, app_length in PL. cbn in PL.
    destruct (members Dm lold); [cbn in PL; lia|discriminate]. }
  assert (Kold : In lold (keys (h_CD s))).
  { apply Hkeys. rewrite map_app, in_app_iff. right. left. reflexivity. }
  destruct (cd_get_present _ _ Kold) as [c Gc].
  pose proof (Hstats _ _ Gc) as Okc. rewrite Mold in Okc.
  destruct (remove_stats_spec s d (members Dm lold) c x lold (members_wf d Dm lold Wm) Mne Hx Gc Okc)
    as [cdr [cpr [Erm [Okr Ecpr]]]].
  (* the new cluster *)
  destruct (add_stats_spec d s _ x lnew St1 Hx) as [cda [cpa [Ead [Oka [_ [Ecpa Enew]]]]]].
  rewrite (members_app_other _ _ _ _ Hne) in Oka.
  (* the state after the switch *)
  set (CD1 := cd_set (h_CD s) lold cdr).
  set (CD' := cd_set CD1 lnew cda).
  set (D' := Dm ++ [(x, lnew)]).
  assert (K1 : keys CD1 = keys (h_CD s)) by (apply cd_set_present; exact Kold).
  assert (Nd1 : NoDup (keys CD1)) by (rewrite K1; exact Hnd).
  assert (G1 : cd_get CD1 lnew = cd_get (h_CD s) lnew) by (apply cd_get_set_other; exact Hne).
  assert (LoldDm : In lold (map snd Dm)) by (apply members_nonempty; exact Mne).
  assert (Keys' : forall l0, In l0 (keys CD') <-> In l0 (map snd D')).
  { intros l0. unfold D'. rewrite map_app, in_app_iff. cbn [map snd In].
    assert (KDm : In l0 (keys (h_CD s)) <-> In l0 (map snd Dm)).
    { rewrite Hkeys, map_app, in_app_iff. cbn [map snd In]. split; [intros [H|[H|[]]]; [exact H|subst l0; exact LoldDm]|tauto]. }
    unfold CD'. destruct (cd_get CD1 lnew) as [c2|] eqn:G.
    - rewrite cd_set_present by (eapply cd_get_some_key; exact G). rewrite K1, KDm.
      split; [tauto|]. intros [H|[H|[]]]; [exact H|]. subst l0. apply KDm. rewrite <- K1. eapply cd_get_some_key; exact G.
    - apply cd_get_none in G. rewrite (cd_set_absent _ _ _ G). unfold keys. rewrite map_app, in_app_iff. cbn [map fst In].
      fold (keys CD1). rewrite K1, KDm. tauto. }
  assert (Nd' : NoDup (keys CD')).
  { unfold CD'. destruct (cd_get CD1 lnew) as [c2|] eqn:G.
    - rewrite cd_set_present by (eapply cd_get_some_key; exact G). exact Nd1.
    - apply cd_get_none in G. rewrite (cd_set_absent _ _ _ G). unfold keys. rewrite map_app. cbn [map fst].
      apply NoDup_snoc; assumption. }
  assert (Stats' : forall l0 c0, cd_get CD' l0 = Some c0 -> cluster_ok d (members D' l0) c0).
  { intros l0 c0 G0. unfold CD' in G0. destruct (Nat.eq_dec l0 lnew) as [->|Hn0].
    - rewrite cd_get_set_same in G0. injection G0 as <-. unfold D'. rewrite members_app_same. exact Oka.
    - rewrite (cd_get_set_other _ _ _ _ Hn0) in G0. unfold D'. rewrite (members_app_other _ _ _ _ Hn0).
      unfold CD1 in G0. destruct (Nat.eq_dec l0 lold) as [->|Ho0].
      + rewrite cd_get_set_same in G0. injection G0 as <-. exact Okr.
      + rewrite (cd_get_set_other _ _ _ _ Ho0) in G0. rewrite <- (members_app_other Dm x lold l0 Ho0). apply Hstats. exact G0. }
  assert (Wsum : h_WGSS s + cpr + cpa = lsum (map CPof CD')).
  { assert (S1 : lsum (map CPof CD1) = h_WGSS s + cpr).
    { unfold CD1. rewrite (cd_set_sum_present _ _ _ _ Gc), <- Hw.
      destruct Okc as [_ _ OCPc _]. destruct Okr as [_ _ OCPr _]. rewrite OCPc, OCPr, Ecpr. lra. }
    unfold CD'. destruct (cd_get CD1 lnew) as [c2|] eqn:G.
    - rewrite (cd_set_sum_present _ _ _ _ G), S1.
      assert (G2 : cd_get (h_CD s) lnew = Some c2) by (symmetry; exact G1). rewrite (Ecpa _ G2). lra.
    - rewrite (cd_set_sum_absent _ _ _ G), S1.
      assert (G2 : cd_get (h_CD s) lnew = None) by (symmetry; exact G1). destruct (Enew G2) as [-> ->]. cbn. lra. }
  (* the criterion *)
  set (isnew := match cd_get (h_CD s) lnew with None => true | Some _ => false end).
  set (k := if isnew then S (length (h_CD s)) else length (h_CD s)).
  set (mu := h_mu s).
  set (F := fun c0 : cstatR => c_n c0 * @sq RN (vsubR (c_v c0) mu)).
  set (SEP := (if isnew then [@sq RN (@vsub RN x mu)] else []) ++ map (substf2 F lold cdr lnew cda) (h_CD s)).
  destruct (criterion_defined k (h_n s) SEP (@nadd RN (@nadd RN (h_WGSS s) cpr) cpa)) as [cr Ecr].
  set (p := @mkNewp RN (h_n s) mu cr lold cdr cpr (Some (lnew, cda, cpa))).
  exists p.
  assert (Esw : @switch_label RN s x lold lnew = Some p).
  { unfold switch_label. destruct (Nat.eqb_spec lnew lold) as [E|_]; [contradiction|].
    step_bind Erm. step_bind Ead. cbv beta iota zeta. step_bind Ecr. reflexivity. }
  split; [exact Esw|].
  assert (St' : Struct d (@update RN s p) D').
  { unfold update, p. cbn [p_label p_CD p_CPdiff p_label2 p_n p_mu p_crit]. fold CD1. fold CD'.
    constructor; cbn [h_dim h_n h_mu h_CD h_WGSS h_crit].
    - unfold D'. apply Forall_app. split; [exact Wm|]. constructor; [exact Hx|constructor].
    - exact Hdim.
    - rewrite Hn. unfold D'. rewrite !app_length. reflexivity.
    - intros _. unfold mu. rewrite Hmu by (destruct Dm; discriminate).
      unfold D'. rewrite !pts_app. reflexivity.
    - intros E. unfold D' in E. destruct Dm; discriminate.
    - exact Nd'.
    - exact Keys'.
    - exact Stats'.
    - cbn [nadd RN]. exact Wsum. }
  assert (P2 : Permutation D' (set_nth j (x, lnew) D)).
  { rewrite ED, <- Lj, set_nth_split. unfold D', Dm. rewrite <- app_assoc. apply Permutation_app_head. cbn.
    apply Permutation_sym, Permutation_cons_append. }
  pose proof (Struct_perm d _ _ _ P2 St') as St''.
  split; [exact St''|].
  rewrite (batch_from_stats d _ _ St'').
  unfold update, p. cbn [p_label p_CD p_CPdiff p_label2 p_n p_mu p_crit h_dim h_n h_mu h_CD h_WGSS h_crit]. fold CD1. fold CD'.
  rewrite <- Ecr.
  assert (Ek : length CD' = k).
  { unfold CD', k, isnew. rewrite <- G1. destruct (cd_get CD1 lnew) as [c2|] eqn:G.
    - rewrite cd_set_length_present by (eapply cd_get_some_key; exact G).
      rewrite <- (map_length fst CD1). fold (keys CD1). rewrite K1. apply map_length.
    - apply cd_get_none in G. rewrite (cd_set_absent _ _ _ G), app_length. cbn.
      rewrite <- (map_length fst CD1). fold (keys CD1). rewrite K1. unfold keys. rewrite map_length. lia. }
  rewrite Ek. apply criterion_sum.
  rewrite !vsum_lsum. unfold SEP.
  rewrite (substf2_as_substf F lold cdr lnew cda (h_CD s) Hnd Kold Hne). fold CD1.
  change (sepf mu) with (fun kc : nat * cstatR => F (snd kc)).
  unfold CD', isnew. rewrite <- G1.
  destruct (cd_get CD1 lnew) as [c2|] eqn:G.
  - cbn [app]. rewrite (substf_present F lnew cda CD1 Nd1) by (eapply cd_get_some_key; exact G). reflexivity.
  - pose proof G as G'. apply cd_get_none in G'. rewrite (substf_absent F lnew cda CD1 G').
    rewrite (cd_set_absent _ _ _ G'). rewrite map_app, !lsum_app.
    assert (G2 : cd_get (h_CD s) lnew = None) by (symmetry; exact G1). destruct (Enew G2) as [-> _].
    match goal with |- ?A + _ = _ + ?A => generalize A; intros A0 end.
    unfold lsum, F. cbn [map fold_right snd c_n c_v]. lra.
Qed.

(* ------------------------------------------------------------------ switching to the same label changes nothing *)
Lemma cd_set_same_val (cd : list (nat * cstatR)) l c : cd_get cd l = Some c -> cd_set cd l c = cd.
Proof.
  induction cd as [|[k c0] cd IH]; cbn; [discriminate|].
  destruct (Nat.eqb_spec k l) as [->|Hne]; intros H; [injection H as ->; reflexivity|]. rewrite IH by exact H. reflexivity.
Qed.

Lemma set_nth_same_val {A} (l : list A) j a : nth_error l j = Some a -> set_nth j a l = l.
Proof.
  revert j. induction l as [|y l IH]; intros [|j] H; cbn in *; try discriminate.
  - injection H as ->. reflexivity.
  - rewrite IH by exact H. reflexivity.
Qed.

Theorem switch_same_label_inv d (s : chR) (D : data) (j : nat) (x : list R) (lold : nat) :
  Struct d s D -> @batch_ch RN D d = Some (h_crit s) -> nth_error D j = Some (x, lold) ->
  exists p, @switch_label RN s x lold lold = Some p /\
            Struct d (@update RN s p) (set_nth j (x, lold) D) /\
            @batch_ch RN (set_nth j (x, lold) D) d = Some (h_crit (@update RN s p)).
Proof.
  intros St Cr Hj. pose proof St as [Hwf Hdim Hn Hmu Hmu0 Hnd Hkeys Hstats Hw].
  assert (Kold : In lold (keys (h_CD s))).
  { apply Hkeys. apply nth_error_In in Hj. apply (in_map snd) in Hj. exact Hj. }
  destruct (cd_get_present _ _ Kold) as [c Gc].
  unfold switch_label. rewrite Nat.eqb_refl. rewrite Gc. cbn [obind].
  eexists. split; [reflexivity|].
  rewrite (set_nth_same_val _ _ _ Hj).
  unfold update. cbn [p_label p_CD p_CPdiff p_label2 p_n p_mu p_crit]. rewrite (cd_set_same_val _ _ _ Gc).
  split; [|exact Cr].
  constructor; cbn [h_dim h_n h_mu h_CD h_WGSS h_crit]; auto.
  cbn [nadd RN n0]. rewrite Hw. lra.
Qed.

(* ------------------------------------------------------------------ any interleaving the API permits *)
Inductive iop := OAdd (x : list R) (l : nat) | OSwitch (j : nat) (lnew : nat).

Definition op_step (sd : chR * data) (o : iop) : option (chR * data) :=
  let '(s, D) := sd in
  match o with
  | OAdd x l => p <- @add_sample RN s x l ;; Some (@update RN s p, D ++ [(x, l)])
  | OSwitch j lnew =>
      match nth_error D j with
      | Some (x, lold) => p <- @switch_label RN s x lold lnew ;; Some (@update RN s p, set_nth j (x, lnew) D)
      | None => None
      end
  end.

Fixpoint run_ops (ops : list iop) (sd : chR * data) : option (chR * data) :=
  match ops with
  | [] => Some sd
  | o :: ops' => sd' <- op_step sd o ;; run_ops ops' sd'
  end.

(* what the API permits: samples of the right dimension; a switch addresses an existing sample and never
   empties a cluster ("Can't remove a value from a cluster of 1") *)
Definition permitted (d : nat) (D : data) (o : iop) : Prop :=
  match o with
  | OAdd x l => length x = d
  | OSwitch j lnew => exists x lold, nth_error D j = Some (x, lold) /\ (lnew = lold \/ (2 <= length (members D lold))%nat)
  end.

Definition data_step (D : data) (o : iop) : data :=
  match o with
  | OAdd x l => D ++ [(x, l)]
  | OSwitch j lnew => match nth_error D j with Some (x, _) => set_nth j (x, lnew) D | None => D end
  end.

Fixpoint all_permitted (d : nat) (D : data) (ops : list iop) : Prop :=
  match ops with
  | [] => True
  | o :: ops' => permitted d D o /\ all_permitted d (data_step D o) ops'
  end.

Definition Inv (d : nat) (s : chR) (D : data) : Prop := Struct d s D /\ @batch_ch RN D d = Some (h_crit s).

Lemma op_step_inv d (s : chR) (D : data) (o : iop) : Inv d s D -> permitted d D o ->
  exists s', op_step (s, D) o = Some (s', data_step D o) /\ Inv d s' (data_step D o).
Proof.
  intros [St Cr] P. destruct o as [x l|j lnew]; cbn [op_step data_step permitted] in *.
  - destruct (add_sample_inv d s D x l St P) as [p [Ep [St' Cr']]].
    rewrite Ep. cbn [obind]. eexists. split; [reflexivity|]. split; assumption.
  - destruct P as [x [lold [Hj Hor]]]. rewrite Hj.
    destruct (Nat.eq_dec lnew lold) as [->|Hne].
    + destruct (switch_same_label_inv d s D j x lold St Cr Hj) as [p [Ep [St' Cr']]].
      rewrite Ep. cbn [obind]. eexists. split; [reflexivity|]. split; assumption.
    + destruct Hor as [E|H2]; [contradiction|].
      destruct (switch_label_inv d s D j x lold lnew St Hj Hne H2) as [p [Ep [St' Cr']]].
      rewrite Ep. cbn [obind]. eexists. split; [reflexivity|]. split; assumption.
Qed.

Theorem run_ops_inv d : forall (ops : list iop) (s : chR) (D : data),
  Inv d s D -> all_permitted d D ops ->
  exists s' D', run_ops ops (s, D) = Some (s', D') /\ Inv d s' D'.
Proof.
  induction ops as [|o ops IH]; intros s D I P; cbn [run_ops all_permitted] in *.
  - exists s, D. auto.
  - destruct P as [P1 P2]. destruct (op_step_inv d s D o I P1) as [s1 [E1 I1]].
    rewrite E1. cbn [obind]. apply IH; assumption.
Qed.

(* C15, first sentence: after ANY sequence of add_sample / switch_label (+ update) operations that the API
   permits, starting from the empty index, every operation was defined and the tracked criterion value equals
   the batch Calinski-Harabasz index of the current labelled data (0 by convention while it is undefined) *)
Theorem icvi_tracks_batch_index d (ops : list iop) : all_permitted d [] ops ->
  exists s D, run_ops ops (@ch_init RN d, []) = Some (s, D) /\ @batch_ch RN D d = Some (h_crit s).
Proof.
  intros P. assert (I0 : Inv d (@ch_init RN d) []) by (split; [apply struct_init|unfold batch_ch; cbn; reflexivity]).
  destruct (run_ops_inv d ops _ _ I0 P) as [s [D [E [_ Cr]]]]. exists s, D. auto.
Qed.

(* C18 at the real-number instance. *)
From Coq Require Import List Bool Arith Reals Lra Lia.
From ART Require Import Num NumR Vec Search Kernel BaseArt Fuzzy Prep.
Import ListNotations.
Open Scope R_scope.

(* normalisation maps [dmin, dmax] into [0, 1] and de_normalize inverts it, column by column *)
Lemma normalize_range (lo hi x : list R) :
  Forall2 (fun l h => l < h) lo hi -> Forall2 Rle lo x -> Forall2 Rle x hi ->
  Forall (fun a => 0 <= a <= 1) (@normalize_row RN lo hi x).
Proof.
  unfold normalize_row, vsub. intros H. revert x. induction H as [|l h lo hi Hlh _ IH]; intros [|a x] H1 H2;
    inversion H1; inversion H2; subst; cbn; constructor.
  - assert (0 < h - l) by lra. split.
    + apply Rmult_le_pos; [lra|]. left. apply Rinv_0_lt_compat. lra.
    + apply Rmult_le_reg_r with (h - l); [lra|]. unfold Rdiv. rewrite Rmult_assoc, Rinv_l by lra. lra.
  - apply IH; assumption.
Qed.

Lemma denormalize_normalize (lo hi x : list R) :
  Forall2 (fun l h => l <> h) lo hi -> length x = length lo ->
  @denormalize_row RN lo hi (@normalize_row RN lo hi x) = x.
Proof.
  unfold denormalize_row, normalize_row, vadd, vmul, vsub. intros H. revert x.
  induction H as [|l h lo hi Hlh _ IH]; intros [|a x] Hl; cbn in *; try discriminate; [reflexivity|].
  f_equal; [field; lra|apply IH; lia].
Qed.

(* complement coding doubles the width, is inverted by de_compliment_code, and is accepted by Fuzzy ART's validation *)
Lemma decc_cc (x : list R) : @de_compliment_code RN (@compliment_code RN x) = x.
Proof.
  unfold de_compliment_code, compliment_code, vcompl. rewrite app_length, map_length.
  match goal with |- context[Nat.div ?a 2] => assert (E : Nat.div a 2 = length x) end.
  { change (((length x + length x) / 2)%nat = length x).
    replace (length x + length x)%nat with (length x * 2)%nat by lia. apply Nat.div_mul. lia. }
  rewrite E. rewrite firstn_app, skipn_app, Nat.sub_diag.
  rewrite (firstn_all2 x) by lia. rewrite (skipn_all2 x) by lia. cbn [firstn skipn app]. rewrite app_nil_r.
  clear E. induction x as [|a x IH]; cbn; [reflexivity|]. f_equal; [unfold nhalf, n2; cbn; field|exact IH].
Qed.

Lemma vsum_cc (x : list R) : @vsum RN (@compliment_code RN x) = INR (length x).
Proof.
  unfold compliment_code, vcompl.
  assert (G : forall (a b : list R), @vsum RN (a ++ b) = @vsum RN a + @vsum RN b).
  { induction a as [|u a IH]; intros b; cbn; [lra|]. rewrite IH. cbn. lra. }
  rewrite G. induction x as [|a x IH]; [cbn; lra|].
  change (@vsum RN (a :: x)) with (a + @vsum RN x).
  change (@vsum RN (map (@nsub RN n1) (a :: x))) with ((1 - a) + @vsum RN (map (@nsub RN n1) x)).
  change (length (a :: x)) with (S (length x)). rewrite S_INR. lra.
Qed.

Theorem prepared_fuzzy_is_valid (x : list R) :
  Forall (fun a => 0 <= a <= 1) x -> @fuzzy_valid RN (@compliment_code RN x) = true.
Proof.
  intros H. unfold fuzzy_valid. rewrite vsum_cc.
  assert (L : length (@compliment_code RN x) = (length x * 2)%nat).
  { unfold compliment_code, vcompl; rewrite app_length, map_length. change (length x + length x = length x * 2)%nat. lia. }
  rewrite L. rewrite Nat.even_mul. cbn [Nat.even orb andb].
  replace (Nat.even (length x) || true) with true by (destruct (Nat.even (length x)); reflexivity). cbn [andb].
  assert (R1 : forallb (fun a : RN => @nleb RN n0 a && @nleb RN a n1) (@compliment_code RN x) = true).
  { unfold compliment_code, vcompl. rewrite forallb_app. apply andb_true_iff. split; apply forallb_forall; intros a Ha.
    - rewrite Forall_forall in H. specialize (H a Ha). cbn. apply andb_true_iff. split; apply Rleb_true; lra.
    - apply in_map_iff in Ha as (b & <- & Hb). rewrite Forall_forall in H. specialize (H b Hb). cbn. apply andb_true_iff. split; apply Rleb_true; lra. }
  rewrite R1. cbn [andb].
  unfold nabs, hundredth, n2. cbn.
  replace (INR (length x) - IZR (Z.of_nat (length x * 2)) / (1 + 1)) with 0.
  - assert (E : Rleb 0 0 = true) by (apply Rleb_true; lra). rewrite E. apply Rleb_true. lra.
  - rewrite Nat2Z.inj_mul, mult_IZR, <- INR_IZR_INZ. cbn. field.
Qed.

(* validation gates: an invalid batch makes fit / partial_fit / predict undefined - the model
   returns no new state at all, so nothing can have changed *)
Theorem reject_atomic (K : Kernel RN) (s : st (N:=RN)) X veto m eps :
  valid K s X = false ->
  fit K s X veto m eps = None /\ partial_fit K s X veto m eps = None /\ predict K s X = None.
Proof.
  intros H. unfold fit, partial_fit, predict. rewrite H. rewrite andb_false_r. auto.
Qed.

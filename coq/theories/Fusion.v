(* FusionART (artlib/fusion/FusionART.py) as a kernel: the vigilance state is
   the vector of the channel modules' vigilances; everything else is the
   BaseART machinery.  Weights are sliced with the data channel indices, as
   the code does (correct when each module's weight is as long as its channel). *)
From Coq Require Import List Bool Arith ZArith Lia.
From ART Require Import Num Vec Search Kernel BaseArt.
Import ListNotations.

Section Fusion.
  Context {N : Num}.

  (* _channel_indices: consecutive (start, end) pairs *)
  Fixpoint positions (start : nat) (dims : list nat) : list (nat * nat) :=
    match dims with
    | [] => []
    | d :: dims' => (start, start + d) :: positions (start + d) dims'
    end.
  Definition chan {A} (p : nat * nat) (l : list A) : list A := slice (fst p) (snd p) l.

  (* dims: data channel widths; wdims: lengths of the module weights (after the fix: commit the fused
     weight is split by these, not by the channel widths) *)
  Variables (mods : list (Kernel N)) (gammas : list N) (dims wdims : list nat).
  Definition pos := combine (positions 0 dims) (positions 0 wdims).

  (* per-channel views of the stored weights: modules[k].W *)
  Definition chanW (p : nat * nat) (Ws : list (list N)) : list (list N) := map (chan p) Ws.

  Fixpoint wsum (ts : list N) (gs : list N) : N :=
    match ts, gs with t :: ts', g :: gs' => nadd (nmul t g) (wsum ts' gs') | _, _ => n0 end.

  (* category_choice with skip_channels: a skipped channel contributes nothing (activation 0; /repo fix ee23ec6) *)
  Definition fusion_choice_skip (skip : list nat) (Ws : list (list N)) (x w : list N) : option N :=
    ts <- omapi 0 (fun k Kp =>
            let '(K, (p, pw)) := Kp in
            if existsb (Nat.eqb k) skip then Some n0
            else k_choice K (chanW pw Ws) (chan p x) (chan pw w)) (combine mods pos) ;;
    (* sum([a * gamma_k]) starts from 0 and adds left to right *)
    Some (fold_left (fun acc tg => nadd acc (nmul (fst tg) (snd tg))) (combine ts gammas) n0).
  Definition fusion_choice := fusion_choice_skip [].

  Definition fusion_match (x w : list N) : list (option N) :=
    concat (map (fun Kp => k_match (fst Kp) (chan (fst (snd Kp)) x) (chan (snd (snd Kp)) w)) (combine mods pos)).
  Definition fusion_update (x w : list N) : option (list N) :=
    parts <- omap (fun Kp => k_update (fst Kp) (chan (fst (snd Kp)) x) (chan (snd (snd Kp)) w)) (combine mods pos) ;;
    Some (concat parts).
  Definition fusion_new (x : list N) : option (list N) :=
    parts <- omap (fun Kp => k_new (fst Kp) (chan (fst (snd Kp)) x)) (combine mods pos) ;;
    Some (concat parts).
  Definition fusion_valid (x : list N) : bool :=
    Nat.eqb (length x) (fold_right plus 0 dims) &&
    forallb (fun Kp => k_valid (fst Kp) (chan (fst (snd Kp)) x)) (combine mods pos).

  Definition fusionK : Kernel N := {|
    k_choice := fusion_choice;
    k_match := fusion_match;
    k_inv := concat (map (@k_inv N) mods);
    k_update := fusion_update;
    k_new := fusion_new;
    k_valid := fusion_valid;
    k_dimok := fun d => Nat.eqb d (fold_right plus 0 dims) |}.

  (* step_pred / predict with skip_channels (negative indices normalised) *)
  Definition norm_skip (skip : list Z) : list nat :=
    map (fun k => Z.to_nat (if Z.ltb k 0 then Z.of_nat (length mods) + k else k)%Z) skip.
  Definition fusion_step_pred (skip : list nat) (Ws : list (list N)) (x : list N) : option nat :=
    Ts <- omap (fusion_choice_skip skip Ws x) Ws ;; argmax nleb Ts.

  (* join_channel_data / split_channel_data *)
  Definition half : N := ndiv n1 n2.
  Fixpoint join_row (k : nat) (ds : list nat) (skip : list nat) (data : list (list N)) : list N :=
    match ds with
    | [] => []
    | d :: ds' =>
        if existsb (Nat.eqb k) skip then repeat half d ++ join_row (S k) ds' skip data
        else match data with
             | c :: data' => c ++ join_row (S k) ds' skip data'
             | [] => []
             end
    end.
  Fixpoint split_row (k : nat) (ds : list nat) (skip : list nat) (row : list N) : list (list N) :=
    match ds with
    | [] => []
    | d :: ds' =>
        if existsb (Nat.eqb k) skip then split_row (S k) ds' skip (skipn d row)
        else firstn d row :: split_row (S k) ds' skip (skipn d row)
    end.
End Fusion.

(* C11, last clause, the other direction: prepare_data applied to what restore_data returns (one block per SUPPLIED
   channel - the form prepare_data accepts since /repo 67c6f3c) gives back the prepared row on the supplied channels. *)
From Coq Require Import List Bool Arith ZArith Lia.
From ART Require Import Num Vec Search Kernel Fusion Fusion_proofs Fusion_prep.
Import ListNotations.

Section FPI.
  Context {N : Num}.
  Variables prep rest : nat -> list N -> list N.

  Definition prepare_row_supplied (ds : list nat) (skip : list nat) (data : list (list N)) : list N :=
    join_row 0 ds skip (zipwith prep (supplied 0 (length ds) skip) data).
  (* prepare_data tells the two forms apart by the number of arrays *)
  Definition prepare_row_any (ds : list nat) (skip : list nat) (data : list (list N)) : list N :=
    if Nat.eqb (length data) (length (supplied 0 (length ds) skip)) then prepare_row_supplied ds skip data
    else prepare_row prep ds skip data.

  Lemma split_row_length (ds : list nat) : forall k skip (row : list N),
    length (split_row k ds skip row) = length (supplied k (length ds) skip).
  Proof.
    unfold supplied. induction ds as [|d ds IH]; intros k skip row; cbn [split_row length seq filter]; [reflexivity|].
    destruct (existsb (Nat.eqb k) skip); cbn [negb length]; rewrite IH; reflexivity.
  Qed.

  Lemma split_row_widths (ds : list nat) : forall k skip (row : list N),
    fold_right plus 0 ds <= length row ->
    Forall2 (fun c d => length c = d) (split_row k ds skip row)
            (map snd (filter (fun kd => negb (existsb (Nat.eqb (fst kd)) skip)) (combine (seq k (length ds)) ds))).
  Proof.
    induction ds as [|d ds IH]; intros k skip row H; cbn [split_row length seq combine filter fst map]; [constructor|].
    cbn [fold_right] in H.
    assert (H' : fold_right plus 0 ds <= length (skipn d row)) by (rewrite skipn_length; lia).
    destruct (existsb (Nat.eqb k) skip); cbn [negb map snd].
    - apply IH. exact H'.
    - constructor; [rewrite firstn_length; lia|apply IH; exact H'].
  Qed.

  Lemma zipwith_inv (S0 : list nat) : forall (B : list (list N)),
    (forall i b, In i S0 -> In b B -> prep i (rest i b) = b) -> length B <= length S0 ->
    zipwith prep S0 (zipwith rest S0 B) = B.
  Proof.
    induction S0 as [|i S0 IH]; intros [|b B] H L; cbn in *; try reflexivity; try lia.
    f_equal; [apply H; auto|]. apply IH; [intros j c Hj Hc; apply H; auto|lia].
  Qed.

  Theorem prepare_restore (ds : list nat) (skip : list nat) (row : list N) :
    fold_right plus 0 ds <= length row ->
    (forall i b, In i (supplied 0 (length ds) skip) -> In b (split_row 0 ds skip row) -> prep i (rest i b) = b) ->
    split_row 0 ds skip (prepare_row_supplied ds skip (restore_row rest ds skip row)) = split_row 0 ds skip row.
  Proof.
    intros Hl H. unfold prepare_row_supplied, restore_row.
    rewrite zipwith_inv; [|exact H|rewrite split_row_length; lia].
    apply split_join. apply split_row_widths. exact Hl.
  Qed.

  (* restore_data's result is taken in its own form *)
  Theorem prepare_any_of_restored (ds : list nat) (skip : list nat) (row : list N) :
    prepare_row_any ds skip (restore_row rest ds skip row) = prepare_row_supplied ds skip (restore_row rest ds skip row).
  Proof.
    unfold prepare_row_any. 
    assert (E : length (restore_row rest ds skip row) = length (supplied 0 (length ds) skip)).
    { unfold restore_row. generalize (split_row_length ds 0 skip row).
      generalize (split_row 0 ds skip row) (supplied 0 (length ds) skip). clear.
      intros B S0. revert B. induction S0 as [|i S0 IH]; intros [|b B] H; cbn in *; try reflexivity; try discriminate.
      f_equal. apply IH. lia. }
    rewrite E, Nat.eqb_refl. reflexivity.
  Qed.
End FPI.

(* C15, second sentence: after iCVIFuzzyART training (model ICVIFuzzy.icvi_fit,
   online and offline) the tracked criterion value equals the batch
   Calinski-Harabasz index of (X, labels_).  The loop issues add_sample
   (online) or switch_label (offline) operations; whenever the model run is
   defined those operations were permitted, so the invariant of ICVI_full /
   ICVI_switch carries through.  Kernel-abstract. *)
From Coq Require Import List Bool Arith ZArith Reals Lra Lia Permutation.
From ART Require Import Num NumR Vec VecR Search Kernel BaseArt BaseArt_proofs SimpleARTMAP ICVI ICVI_R ICVI_full ICVI_switch ICVIFuzzy.
Import ListNotations.
Open Scope R_scope.

Notation stR := (@st RN).

(* ------------------------------------------------------------------ lists *)
Lemma nth_set_nth_same (l : list nat) k c : (k < length l)%nat -> nth k (set_nth k c l) 0%nat = c.
Proof. intros H. apply nth_error_nth. apply set_nth_same. exact H. Qed.

Lemma nth_set_nth_other (l : list nat) k j c : j <> k -> nth j (set_nth k c l) 0%nat = nth j l 0%nat.
Proof.
  intros H. pose proof (set_nth_other k c l j H) as E.
  destruct (nth_error l j) as [a|] eqn:En.
  - rewrite (nth_error_nth _ _ _ E). symmetry. apply nth_error_nth. exact En.
  - rewrite nth_overflow by (apply nth_error_None; exact E). rewrite nth_overflow by (apply nth_error_None; exact En). reflexivity.
Qed.

Lemma combine_set_nth {A} (X : list A) (L : list nat) i x c : nth_error X i = Some x ->
  set_nth i (x, c) (combine X L) = combine X (set_nth i c L).
Proof.
  revert L i. induction X as [|y X IH]; intros [|b L] [|i] H; cbn in *; try discriminate; try reflexivity.
  - injection H as ->. reflexivity.
  - rewrite IH by exact H. reflexivity.
Qed.

Lemma nth_error_combine {A} (X : list A) (L : list nat) i x : nth_error X i = Some x -> (i < length L)%nat ->
  nth_error (combine X L) i = Some (x, nth i L 0%nat).
Proof.
  revert L i. induction X as [|y X IH]; intros [|b L] [|i] H Hl; cbn in *; try discriminate; try lia.
  - injection H as ->. reflexivity.
  - apply IH; [exact H|lia].
Qed.

Lemma combine_snoc {A} (X : list A) (L : list nat) x c : length X = length L ->
  combine (X ++ [x]) (L ++ [c]) = combine X L ++ [(x, c)].
Proof. intros H. rewrite combine_app' by exact H. reflexivity. Qed.

Lemma skipn_cons_nth {A} (X0 : list A) i x X : skipn i X0 = x :: X -> nth_error X0 i = Some x /\ skipn (S i) X0 = X.
Proof.
  revert i. induction X0 as [|y X0 IH]; intros [|i] H; cbn in *; try discriminate.
  - injection H as -> ->. auto.
  - apply IH. exact H.
Qed.

Section Fit.
  Variable K : Kernel RN.

  (* ---------------------------------------------------------------- online: one add_sample per presented sample *)
  Lemma icvi_loop_online d : forall (X : list (list R)) (s : stR) (h : chR) (i : nat) m eps s' h' (Xd : list (list R)) (Ld : list nat),
    icvi_loop K false s h X i m eps = Some (s', h') ->
    Inv d h (combine Xd Ld) -> length Xd = length Ld -> Forall (fun x => length x = d) X ->
    (i + length X <= length (labels s))%nat ->
    exists cs, length cs = length X /\ Inv d h' (combine (Xd ++ X) (Ld ++ cs)) /\
               length (labels s') = length (labels s) /\
               (forall j, (j < length X)%nat -> nth (i + j) (labels s') 0%nat = nth j cs 0%nat) /\
               (forall k, (k < i)%nat -> nth k (labels s') 0%nat = nth k (labels s) 0%nat).
  Proof.
    induction X as [|x X IH]; intros s h i m eps s' h' Xd Ld H I HL HX Hlen.
    - cbn in H. injection H as <- <-. exists []. rewrite !app_nil_r. cbn [length].
      split; [reflexivity|]. split; [exact I|]. split; [reflexivity|]. split; [intros j Hj; lia|intros; reflexivity].
    - cbn [icvi_loop] in H.
      destruct (step_fit K s x _ m eps) as [[[s1 c] log]|] eqn:Es; cbn [obind] in H; [|discriminate].
      destruct (existsb _ log); [discriminate|].
      destruct (@add_sample RN h x c) as [p|] eqn:Ea; cbn [obind] in H; [|discriminate].
      apply Forall_cons_iff in HX. destruct HX as [Hx HX].
      destruct I as [St Cr].
      destruct (add_sample_inv d h _ x c St Hx) as [p' [Ep [St' Cr']]]. rewrite Ea in Ep. injection Ep as <-.
      destruct (step_fit_frame K s x _ m eps s1 c log Es) as [_ [_ [El _]]].
      set (s2 := set_labels s1 (set_nth i c (labels s1))) in H.
      assert (L2 : length (labels s2) = length (labels s)) by (unfold s2; cbn [labels set_labels]; rewrite set_nth_length, El; reflexivity).
      rewrite <- (combine_snoc Xd Ld x c HL) in St', Cr'.
      assert (HL' : length (Xd ++ [x]) = length (Ld ++ [c])) by (rewrite !app_length, HL; reflexivity).
      cbn [length] in Hlen.
      destruct (IH s2 _ (S i) m eps s' h' (Xd ++ [x]) (Ld ++ [c]) H (conj St' Cr') HL' HX) as [cs [Lc [I' [Ll [Hn Hk]]]]]; [rewrite L2; lia|].
      exists (c :: cs). rewrite <- !app_assoc in I'. cbn [app] in I'.
      split; [cbn; rewrite Lc; reflexivity|]. split; [exact I'|]. split; [rewrite Ll, L2; reflexivity|]. split.
      + intros [|j] Hj.
        * rewrite Nat.add_0_r. rewrite Hk by lia. unfold s2. cbn [labels set_labels nth]. apply nth_set_nth_same. rewrite El. lia.
        * cbn [nth]. rewrite <- (Hn j) by (cbn in Hj; lia). f_equal. lia.
      + intros k Hk'. rewrite Hk by lia. unfold s2. cbn [labels set_labels]. rewrite nth_set_nth_other by lia. rewrite El. reflexivity.
  Qed.

  (* ---------------------------------------------------------------- offline: all samples known, one switch_label per sample *)
  Lemma switch_defined_means_permitted d (h : chR) (D : data) (x : list R) (lold lnew : nat) p :
    Struct d h D -> In lold (map snd D) -> lnew <> lold -> @switch_label RN h x lold lnew = Some p ->
    (2 <= length (members D lold))%nat.
  Proof.
    intros St Hin Hne H. pose proof St as [Hwf Hdim Hn Hmu Hmu0 Hnd Hkeys Hstats Hw].
    unfold switch_label in H. destruct (Nat.eqb_spec lnew lold) as [E|_]; [contradiction|].
    unfold remove_stats in H.
    destruct (cd_get (h_CD h) lold) as [c|] eqn:G; cbn [obind] in H; [|discriminate].
    destruct (@nleb RN (c_n c) n1) eqn:El; [discriminate|].
    cbn in El. apply Rleb_false in El. destruct (Hstats _ _ G) as [On _ _ _]. rewrite On in El.
    destruct (members D lold) as [|a [|b C]]; cbn in *; try lra. lia.
  Qed.

  Lemma icvi_loop_offline d (X0 : list (list R)) : forall (X : list (list R)) (s : stR) (h : chR) (i : nat) m eps s' h',
    icvi_loop K true s h X i m eps = Some (s', h') ->
    skipn i X0 = X -> length (labels s) = length X0 ->
    Inv d h (combine X0 (labels s)) ->
    Inv d h' (combine X0 (labels s')) /\ length (labels s') = length X0.
  Proof.
    induction X as [|x X IH]; intros s h i m eps s' h' H Hsk HL I.
    - cbn in H. injection H as <- <-. auto.
    - cbn [icvi_loop] in H.
      destruct (step_fit K s x _ m eps) as [[[s1 c] log]|] eqn:Es; cbn [obind] in H; [|discriminate].
      destruct (existsb _ log); [discriminate|].
      set (cur := nth i (labels s) 0%nat) in *.
      destruct (@switch_label RN h x cur c) as [p|] eqn:Ea; cbn [obind] in H; [|discriminate].
      destruct (skipn_cons_nth X0 i x X Hsk) as [Hxi Hsk'].
      assert (Hi : (i < length (labels s))%nat) by (rewrite HL; apply nth_error_Some; congruence).
      pose proof (nth_error_combine X0 (labels s) i x Hxi Hi) as Hj. fold cur in Hj.
      destruct I as [St Cr].
      destruct (step_fit_frame K s x _ m eps s1 c log Es) as [_ [_ [El _]]].
      set (s2 := set_labels s1 (set_nth i c (labels s1))) in H.
      assert (L2 : length (labels s2) = length X0) by (unfold s2; cbn [labels set_labels]; rewrite set_nth_length, El; exact HL).
      assert (E2 : combine X0 (labels s2) = set_nth i (x, c) (combine X0 (labels s))).
      { unfold s2. cbn [labels set_labels]. rewrite El. symmetry. apply combine_set_nth. exact Hxi. }
      assert (I2 : Inv d (@update RN h p) (combine X0 (labels s2))).
      { rewrite E2. destruct (Nat.eq_dec c cur) as [->|Hne].
        - destruct (switch_same_label_inv d h _ i x cur St Cr Hj) as [p' [Ep [St' Cr']]].
          rewrite Ea in Ep. injection Ep as <-. split; assumption.
        - assert (Hin : In cur (map snd (combine X0 (labels s)))).
          { apply nth_error_In in Hj. apply (in_map snd) in Hj. exact Hj. }
          pose proof (switch_defined_means_permitted d h _ x cur c p St Hin Hne Ea) as H2.
          destruct (switch_label_inv d h _ i x cur c St Hj Hne H2) as [p' [Ep [St' Cr']]].
          rewrite Ea in Ep. injection Ep as <-. split; assumption. }
      apply (IH s2 _ (S i) m eps s' h' H Hsk' L2 I2).
  Qed.

  (* the initial "everything in cluster 0" phase of the offline mode *)
  Lemma offline_init d : forall (X : list (list R)) (h0 : chR) (Xd : list (list R)) h,
    fold_left (fun oh x => h <- oh ;; p <- @add_sample RN h x 0%nat ;; Some (@update RN h p)) X (Some h0) = Some h ->
    Inv d h0 (combine Xd (repeat 0%nat (length Xd))) -> Forall (fun x => length x = d) X ->
    Inv d h (combine (Xd ++ X) (repeat 0%nat (length (Xd ++ X)))).
  Proof.
    induction X as [|x X IH]; intros h0 Xd h H I HX.
    - cbn in H. injection H as <-. rewrite app_nil_r. exact I.
    - apply Forall_cons_iff in HX. destruct HX as [Hx HX]. destruct I as [St Cr].
      destruct (add_sample_inv d h0 _ x 0%nat St Hx) as [p [Ep [St' Cr']]].
      cbn [fold_left] in H. cbn [obind] in H. rewrite Ep in H. cbn [obind] in H.
      assert (E : combine Xd (repeat 0%nat (length Xd)) ++ [(x, 0%nat)] = combine (Xd ++ [x]) (repeat 0%nat (length (Xd ++ [x])))).
      { rewrite app_length. cbn [length]. rewrite repeat_app. cbn [repeat]. symmetry. apply combine_snoc. rewrite repeat_length. reflexivity. }
      rewrite E in St', Cr'.
      pose proof (IH _ (Xd ++ [x]) h H (conj St' Cr') HX) as R. rewrite <- app_assoc in R. exact R.
  Qed.

  Lemma valid_uniform (s : stR) (x0 : list R) (X : list (list R)) :
    valid K s (x0 :: X) = true -> Forall (fun x => length x = length x0) (x0 :: X).
  Proof.
    unfold valid, dims_ok. intros H. apply andb_prop in H. destruct H as [_ H].
    destruct (dim s) as [d0|].
    - rewrite forallb_forall in H. assert (H0 : length x0 = d0) by (apply Nat.eqb_eq, H; left; reflexivity).
      apply Forall_forall. intros y Hy. rewrite H0. apply Nat.eqb_eq, H. exact Hy.
    - apply andb_prop in H. destruct H as [H _]. rewrite forallb_forall in H.
      apply Forall_forall. intros y Hy. apply Nat.eqb_eq, H. exact Hy.
  Qed.

  (* C15, second sentence, for the model of iCVIFuzzyART.fit (online and offline, every kernel, mode, epsilon):
     whenever the fit is defined, the tracked criterion value is the batch index of (X, labels_) *)
  Theorem icvi_fit_tracks_batch_index (offline : bool) (s : stR) (X : list (list R)) m eps s' h' :
    icvi_fit K offline s X m eps = Some (s', h') ->
    @batch_ch RN (combine X (labels s')) (length (hd [] X)) = Some (h_crit h') /\ length (labels s') = length X.
  Proof.
    unfold icvi_fit. destruct (valid K s X) eqn:Ev; [|discriminate].
    destruct X as [|x0 X]; [discriminate|]. cbv zeta. cbn [hd].
    pose proof (valid_uniform s x0 X Ev) as HU. set (d := length x0) in *. set (XX := x0 :: X) in *.
    assert (I0 : Inv d (@ch_init RN d) (combine [] [])) by (split; [apply struct_init|unfold batch_ch; cbn; reflexivity]).
    destruct offline.
    - match goal with |- context [fold_left ?f XX ?z] => destruct (fold_left f XX z) as [h0|] eqn:Ef end; cbn [obind]; [|discriminate].
      intros H. pose proof (offline_init d XX (@ch_init RN d) [] h0 Ef I0 HU) as I1. cbn [app] in I1.
      destruct (icvi_loop_offline d XX XX _ h0 0%nat m eps s' h' H eq_refl) as [[_ Cr] Ll].
      + cbn [labels]. apply repeat_length.
      + cbn [labels]. exact I1.
      + split; [exact Cr|exact Ll].
    - cbn [obind]. intros H.
      destruct (icvi_loop_online d XX _ (@ch_init RN d) 0%nat m eps s' h' [] [] H I0 eq_refl HU) as [cs [Lc [[_ Cr] [Ll [Hn _]]]]].
      + cbn [labels plus]. rewrite repeat_length. apply Nat.le_refl.
      + cbn [labels] in Ll. rewrite repeat_length in Ll. cbn [app] in Cr.
        assert (E : labels s' = cs).
        { apply (nth_ext _ _ 0%nat 0%nat); [rewrite Ll, Lc; reflexivity|]. intros j Hj. rewrite Ll in Hj. apply (Hn j). exact Hj. }
        rewrite E. split; [exact Cr|]. rewrite Lc. reflexivity.
  Qed.
End Fit.

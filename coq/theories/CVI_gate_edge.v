(* C04 / C15, the edges of the validity indices' domain (CVIART.CVI_match, artlib/cvi/CVIART.py): scikit-learn's indices
   exist for 2 .. n-1 distinct labels.  A labelling with one cluster per sample (what a second epoch at a high vigilance
   meets) and a labelling with a single cluster have NO index, for every n - so the gate has nothing to compare with and
   permits the assignment instead of evaluating the index (wave-7 seed C04_7 moved the upper edge to n and reached
   scikit-learn's ValueError). *)
From Coq Require Import List Bool Arith Lia.
From ART Require Import Num CVI_gate.
Import ListNotations.

Lemma nodup_fixed_point_length (l : list nat) : NoDup l -> length (nodup Nat.eq_dec l) = length l.
Proof. intros H. rewrite (nodup_fixed_point Nat.eq_dec H). reflexivity. Qed.

Theorem one_cluster_per_sample_has_no_index (labels : list nat) :
  NoDup labels -> index_defined labels = false.
Proof.
  intros H. unfold index_defined, distinct. rewrite (nodup_fixed_point_length _ H).
  destruct (Nat.leb_spec 2 (length labels)) as [H2|H2]; cbn [andb]; [|reflexivity].
  apply Nat.leb_gt. lia.
Qed.

Lemma nodup_repeat (c n : nat) : length (nodup Nat.eq_dec (repeat c n)) <= 1.
Proof.
  induction n as [|n IH]; cbn [repeat nodup]; [cbn; lia|].
  destruct (in_dec Nat.eq_dec c (repeat c n)) as [Hin|Hn]; [exact IH|].
  destruct n as [|n]; [cbn; lia|]. exfalso. apply Hn. left. reflexivity.
Qed.

Theorem a_single_cluster_has_no_index (c n : nat) : index_defined (repeat c n) = false.
Proof.
  unfold index_defined, distinct. pose proof (nodup_repeat c n) as H.
  destruct (Nat.leb_spec 2 (length (nodup Nat.eq_dec (repeat c n)))) as [H2|H2]; [lia|reflexivity].
Qed.

Section Edge.
  Context {N : Num}.
  (* ... and then the gate answers without looking at any index value *)
  Theorem gate_permits_when_every_sample_is_alone ncat labels i c lb (old new : N) :
    NoDup labels -> cvi_match ncat labels i c lb old new = true.
  Proof.
    intros H. unfold cvi_match. destruct (Nat.ltb ncat 2); [reflexivity|].
    rewrite (one_cluster_per_sample_has_no_index _ H). reflexivity.
  Qed.
  Theorem gate_permits_on_a_single_cluster ncat k n i c lb (old new : N) :
    cvi_match ncat (repeat k n) i c lb old new = true.
  Proof.
    unfold cvi_match. destruct (Nat.ltb ncat 2); [reflexivity|].
    rewrite a_single_cluster_has_no_index. reflexivity.
  Qed.
End Edge.

(* the index exists strictly inside: n-1 clusters on n >= 3 samples *)
Example index_defined_just_below_the_edge : index_defined [0; 1; 2; 3; 3] = true /\ index_defined [0; 1; 2; 3; 4] = false.
Proof. vm_compute. split; reflexivity. Qed.

(* C05: labels, category count and per-category counters stay consistent,
   over every history of fit / partial_fit calls. *)
From Coq Require Import List Bool Arith Lia.
From ART Require Import Num Vec Search Kernel BaseArt BaseArt_proofs.
Import ListNotations.

(* restricted-growth sequence: every label is an existing category or the
   next new one; returns the number of categories used *)
Fixpoint rgs (k : nat) (l : list nat) : option nat :=
  match l with
  | [] => Some k
  | a :: l' => if a <? k then rgs k l' else if a =? k then rgs (S k) l' else None
  end.

Lemma rgs_app l1 : forall k l2,
  rgs k (l1 ++ l2) = match rgs k l1 with Some k' => rgs k' l2 | None => None end.
Proof.
  induction l1 as [|a l1 IH]; intros k l2; cbn [rgs app]; [reflexivity|].
  destruct (a <? k); [apply IH|]. destruct (a =? k); [apply IH|reflexivity].
Qed.

Lemma rgs_spec l : forall k k', rgs k l = Some k' ->
  k <= k' /\ Forall (fun a => a < k') l /\ (forall c, k <= c < k' -> In c l).
Proof.
  induction l as [|a l IH]; intros k k' H; cbn [rgs] in H.
  - inversion H; subst. repeat split; [lia|constructor|intros; lia].
  - destruct (a <? k) eqn:E1.
    + apply Nat.ltb_lt in E1. destruct (IH _ _ H) as (Hle & Hf & Hin).
      repeat split; [lia|constructor; [lia|exact Hf]|]. intros c Hc. right. apply Hin. exact Hc.
    + destruct (a =? k) eqn:E2; [|discriminate]. apply Nat.eqb_eq in E2; subst a.
      destruct (IH _ _ H) as (Hle & Hf & Hin).
      repeat split; [lia|constructor; [lia|exact Hf]|]. intros c Hc.
      destruct (Nat.eq_dec c k) as [->|Hne]; [left; reflexivity|right; apply Hin; lia].
Qed.

Lemma nth_set_nth_same {A} k (a d : A) : forall l, k < length l -> nth k (set_nth k a l) d = a.
Proof. induction k; intros [|b l] H; cbn in *; try lia; auto. apply IHk; lia. Qed.
Lemma nth_set_nth_other {A} k (a d : A) : forall l j, j <> k -> nth j (set_nth k a l) d = nth j l d.
Proof.
  induction k; intros [|b l] j H; cbn; auto.
  - destruct j; [congruence|reflexivity].
  - destruct j; [reflexivity|]. apply IHk. congruence.
Qed.

Section Book.
  Context {N : Num}.
  Variable K : Kernel N.
  Notation st := (@st N).

  Definition hist_ok (ws : list nat) (L : list nat) (n : nat) : Prop :=
    forall c, c < n -> nth c ws 0 = count_occ Nat.eq_dec L c.

  (* L = labels of the samples presented since the last fit *)
  Definition Book (s : st) (L : list nat) : Prop :=
    length (wsc s) = length (W s) /\
    rgs 0 L = Some (length (W s)) /\
    hist_ok (wsc s) L (length (W s)).

  Lemma count_last (L : list nat) c c' :
    count_occ Nat.eq_dec (L ++ [c]) c' = count_occ Nat.eq_dec L c' + (if Nat.eq_dec c c' then 1 else 0).
  Proof. rewrite count_occ_app. cbn. destruct (Nat.eq_dec c c'); reflexivity. Qed.

  Lemma book_step s L x veto m eps s' c vl :
    Book s L -> step_fit K s x veto m eps = Some (s', c, vl) -> Book s' (L ++ [c]).
  Proof.
    intros (Hlen & Hr & Hh) H.
    destruct (step_fit_frame _ _ _ _ _ _ _ _ _ H) as (_ & _ & _ & _ & _ & O).
    destruct (rgs_spec _ _ _ Hr) as (_ & Hlt & _).
    assert (Hfresh : count_occ Nat.eq_dec L (length (W s)) = 0).
    { apply count_occ_not_In. intros Hin. rewrite Forall_forall in Hlt. specialize (Hlt _ Hin). lia. }
    unfold Book. rewrite rgs_app, Hr.
    destruct O as [(E & -> & w & _ & EW & Ew)|[(_ & Hc & w & w' & _ & _ & EW & Ew)|(_ & -> & w' & _ & EW & Ew)]].
    - rewrite E in *. cbn in Hlen. destruct (wsc s); [|discriminate]. rewrite EW, Ew. cbn.
      repeat split. intros c Hc. assert (c = 0) by lia; subst.
      rewrite count_last. cbn in Hfresh. rewrite Hfresh. reflexivity.
    - rewrite EW, Ew, !set_nth_length. split; [exact Hlen|]. split.
      + cbn [rgs]. apply Nat.ltb_lt in Hc. rewrite Hc. reflexivity.
      + intros c' Hc'. rewrite count_last. destruct (Nat.eq_dec c c') as [->|Hne].
        * rewrite nth_set_nth_same by lia. rewrite (Hh c' Hc'). lia.
        * rewrite nth_set_nth_other by congruence. rewrite (Hh c' Hc'). lia.
    - rewrite EW, Ew, !app_length. cbn [length]. split; [lia|]. split.
      + cbn [rgs]. rewrite Nat.ltb_irrefl, Nat.eqb_refl. f_equal. lia.
      + intros c' Hc'. rewrite count_last.
        destruct (Nat.eq_dec (length (W s)) c') as [<-|Hne].
        * rewrite app_nth2 by lia. rewrite Hlen, Nat.sub_diag. cbn. lia.
        * rewrite app_nth1 by lia. rewrite Hh by lia. lia.
  Qed.

  Lemma book_steps X : forall s L i veto m eps s' cs ls,
    Book s L -> steps K s X i veto m eps = Some (s', cs, ls) ->
    Book s' (L ++ cs) /\ sc s' = sc s + length cs /\ length cs = length X.
  Proof.
    induction X as [|x X IH]; intros s L i veto m eps s' cs ls HB H; cbn [steps] in H.
    - inversion H; subst. rewrite app_nil_r. cbn. split; [exact HB|]. split; [lia|reflexivity].
    - destruct (step_fit K s x (veto i) m eps) as [[[s1 c] l]|] eqn:E; cbn [obind] in H; [|discriminate].
      destruct (steps K s1 X (S i) veto m eps) as [[[s2 cs2] ls2]|] eqn:E2; cbn [obind] in H; [|discriminate].
      inversion H; subst.
      pose proof (book_step _ _ _ _ _ _ _ _ _ HB E) as HB1.
      destruct (IH _ _ _ _ _ _ _ _ _ HB1 E2) as (HB2 & Hsc & Hl).
      destruct (step_fit_frame _ _ _ _ _ _ _ _ _ E) as (_ & Hs1 & _).
      rewrite <- app_assoc in HB2. cbn in *. split; [exact HB2|]. split; lia.
  Qed.

  Lemma book_core (a b : st) L : core a = core b -> Book a L -> Book b L.
  Proof. unfold core, Book. intros H. inversion H. congruence. Qed.

  (* the state invariant between calls *)
  Definition Inv (s : st) : Prop :=
    Book s (labels s) /\ sc s = length (labels s) /\
    (hasW s = false -> W s = [] /\ wsc s = [] /\ labels s = []).

  Lemma inv_init r : Inv (init r).
  Proof. unfold Inv, Book, hist_ok, init; cbn. repeat split; auto. intros; lia. Qed.

  Lemma splice0 (n : nat) cs : length cs = n -> splice (repeat 0 n) 0 cs = cs.
  Proof.
    intros H. unfold splice. cbn. rewrite skipn_all2 by (rewrite repeat_length; lia). apply app_nil_r.
  Qed.
  Lemma splice_end (l : list nat) n cs : length cs = n -> splice (l ++ repeat 0 n) (length l) cs = l ++ cs.
  Proof.
    intros H. unfold splice. rewrite firstn_app, firstn_all, Nat.sub_diag. cbn. rewrite app_nil_r.
    rewrite skipn_all2 by (rewrite app_length, repeat_length; lia). rewrite app_nil_r. reflexivity.
  Qed.

  Theorem fit_inv s X veto m eps s' ls :
    fit K s X veto m eps = Some (s', ls) -> Inv s' /\ length (labels s') = length X /\ hasW s' = true.
  Proof.
    unfold fit. destruct (valid K s X); [|discriminate]. intros H.
    set (s1 := {| W := []; labels := repeat 0 (length X); wsc := []; sc := 0; rho := rho (learn_dim s X);
                  hasW := true; dim := dim (learn_dim s X) |}) in *.
    assert (Hl : 0 + 0 + length X <= length (labels s1)) by (cbn; rewrite repeat_length; lia).
    pose proof (fit_loop_steps K X s1 0 0 veto m eps Hl) as FS. rewrite H in FS.
    destruct (steps K s1 X 0 veto m eps) as [[[s2 cs] ls2]|] eqn:E; [|contradiction].
    destruct FS as (C & _ & Lb & Hn).
    assert (B1 : Book s1 []) by (unfold Book, hist_ok; cbn; repeat split; auto; intros; lia).
    destruct (book_steps _ _ _ _ _ _ _ _ _ _ B1 E) as (B2 & Hsc & _). cbn in B2, Hsc.
    cbn [labels s1] in Lb. rewrite splice0 in Lb by exact Hn.
    destruct (steps_rho K _ _ _ _ _ _ _ _ _ E) as (_ & _ & Hw).
    unfold core in C. inversion C as [[EW Ews Esc Er Eh Ed]].
    unfold Inv. rewrite Lb. split; [split; [|split]|split].
    - apply (book_core s2 s'); [unfold core; congruence|exact B2].
    - congruence.
    - intros Hf. rewrite Eh, Hw in Hf. discriminate.
    - exact Hn.
    - rewrite Eh, Hw. reflexivity.
  Qed.

  Theorem partial_fit_inv s X veto m eps s' ls :
    Inv s -> partial_fit K s X veto m eps = Some (s', ls) ->
    Inv s' /\ length (labels s') = length (labels s) + length X /\ hasW s' = true.
  Proof.
    intros (HB & Hsc & Hun). unfold partial_fit. destruct (valid K s X); [|discriminate].
    assert (EW : W (learn_dim s X) = W s /\ wsc (learn_dim s X) = wsc s /\ sc (learn_dim s X) = sc s /\
                 labels (learn_dim s X) = labels s /\ hasW (learn_dim s X) = hasW s).
    { unfold learn_dim. destruct (dim s), X; cbn; auto. }
    destruct EW as (EW & Ews & Esc & El & Eh).
    rewrite Eh. destruct (hasW s) eqn:HW; intros H.
    - set (s1 := set_labels _ _) in H. rewrite El in *.
      assert (Hl : 0 + length (labels s) + length X <= length (labels s1)).
      { unfold s1; cbn. rewrite El, app_length, repeat_length. lia. }
      pose proof (fit_loop_steps K X s1 0 _ veto m eps Hl) as FS. rewrite H in FS.
      destruct (steps K s1 X 0 veto m eps) as [[[s2 cs] ls2]|] eqn:E; [|contradiction].
      destruct FS as (C & _ & Lb & Hn).
      assert (B1 : Book s1 (labels s)).
      { unfold Book, s1; cbn. rewrite EW, Ews. exact HB. }
      destruct (book_steps _ _ _ _ _ _ _ _ _ _ B1 E) as (B2 & Hsc2 & _).
      cbn [labels s1 set_labels] in Lb. rewrite El in Lb. cbn [plus] in Lb. rewrite splice_end in Lb by exact Hn.
      destruct (steps_rho K _ _ _ _ _ _ _ _ _ E) as (_ & _ & Hw).
      unfold core in C. inversion C as [[EW' Ews' Esc' Er' Eh' Ed']].
      unfold Inv. rewrite Lb, app_length. split; [split; [|split]|split].
      + apply (book_core s2 s'); [unfold core; congruence|exact B2].
      + rewrite Esc', Hsc2. unfold s1; cbn. rewrite Esc. lia.
      + intros Hf. rewrite Eh', Hw in Hf. unfold s1 in Hf; cbn in Hf. congruence.
      + lia.
      + rewrite Eh', Hw. unfold s1; cbn. congruence.
    - destruct (Hun eq_refl) as (HW0 & Hws0 & Hl0).
      set (s1 := {| W := []; labels := _; wsc := _; sc := _; rho := _; hasW := true; dim := _ |}) in H.
      assert (Hl : 0 + 0 + length X <= length (labels s1)) by (cbn; rewrite repeat_length; lia).
      pose proof (fit_loop_steps K X s1 0 0 veto m eps Hl) as FS. rewrite H in FS.
      destruct (steps K s1 X 0 veto m eps) as [[[s2 cs] ls2]|] eqn:E; [|contradiction].
      destruct FS as (C & _ & Lb & Hn).
      assert (B1 : Book s1 []).
      { unfold Book, hist_ok, s1; cbn. rewrite Ews, Hws0. repeat split; auto. intros; lia. }
      destruct (book_steps _ _ _ _ _ _ _ _ _ _ B1 E) as (B2 & Hsc2 & _). cbn in B2.
      cbn [labels s1] in Lb. rewrite splice0 in Lb by exact Hn.
      destruct (steps_rho K _ _ _ _ _ _ _ _ _ E) as (_ & _ & Hw).
      unfold core in C. inversion C as [[EW' Ews' Esc' Er' Eh' Ed']].
      unfold Inv. rewrite Lb. split; [split; [|split]|split].
      + apply (book_core s2 s'); [unfold core; congruence|exact B2].
      + rewrite Esc', Hsc2. unfold s1; cbn. rewrite Esc, Hsc, Hl0. cbn. lia.
      + intros Hf. rewrite Eh', Hw in Hf. discriminate.
      + rewrite Hl0. cbn. exact Hn.
      + rewrite Eh', Hw. reflexivity.
  Qed.

  (* every state reachable by single-epoch fit / partial_fit calls *)
  Inductive reach (r : list N) : st -> Prop :=
  | reach_init : reach r (init r)
  | reach_fit s X veto m eps s' ls :
      reach r s -> fit K s X veto m eps = Some (s', ls) -> reach r s'
  | reach_pfit s X veto m eps s' ls :
      reach r s -> partial_fit K s X veto m eps = Some (s', ls) -> reach r s'.

  Theorem reach_inv r s : reach r s -> Inv s.
  Proof.
    induction 1 as [|s X veto m eps s' ls _ _ H|s X veto m eps s' ls _ IH H].
    - apply inv_init.
    - apply (fit_inv _ _ _ _ _ _ _ H).
    - apply (partial_fit_inv _ _ _ _ _ _ _ IH H).
  Qed.

  (* what the invariant says in the property's words *)
  Theorem inv_consequences s : Inv s ->
    length (wsc s) = length (W s) /\
    Forall (fun l => l < length (W s)) (labels s) /\              (* every label indexes an existing category *)
    (forall c, c < length (W s) -> In c (labels s)) /\            (* no category is empty *)
    rgs 0 (labels s) = Some (length (W s)) /\                     (* categories numbered in order of creation *)
    (forall c, c < length (W s) -> nth c (wsc s) 0 = count_occ Nat.eq_dec (labels s) c) /\
    sc s = length (labels s).
  Proof.
    intros ((Hlen & Hr & Hh) & Hsc & _). destruct (rgs_spec _ _ _ Hr) as (_ & Hlt & Hin).
    repeat split; auto. intros c Hc. apply Hin. lia.
  Qed.

  (* the counters add up to the number of presented samples *)
  Lemma sum_ind a : forall m k,
    fold_right plus 0 (map (fun c => if Nat.eq_dec a c then 1 else 0) (seq k m)) =
    (if le_lt_dec k a then if lt_dec a (k + m) then 1 else 0 else 0).
  Proof.
    induction m as [|m IH]; intros k; cbn [seq map fold_right].
    - destruct (le_lt_dec k a); [destruct (lt_dec a (k + 0)); [lia|reflexivity]|reflexivity].
    - rewrite IH. destruct (Nat.eq_dec a k), (le_lt_dec k a), (lt_dec a (k + S m)),
        (le_lt_dec (S k) a), (lt_dec a (S k + m)); lia.
  Qed.
  Lemma sum_add (f g : nat -> nat) l :
    fold_right plus 0 (map (fun c => f c + g c) l) =
    fold_right plus 0 (map f l) + fold_right plus 0 (map g l).
  Proof. induction l as [|x l IH]; cbn; [reflexivity|rewrite IH; lia]. Qed.

  Lemma count_sum (L : list nat) : forall n, Forall (fun a => a < n) L ->
    fold_right plus 0 (map (count_occ Nat.eq_dec L) (seq 0 n)) = length L.
  Proof.
    induction L as [|a L IH]; intros n Hf.
    - cbn. induction (seq 0 n); cbn; auto.
    - inversion Hf as [|? ? Ha Hf']; subst. specialize (IH n Hf').
      cbn [length]. rewrite <- IH.
      rewrite (map_ext (count_occ Nat.eq_dec (a :: L))
                       (fun c => (if Nat.eq_dec a c then 1 else 0) + count_occ Nat.eq_dec L c)).
      + rewrite sum_add, sum_ind.
        destruct (le_lt_dec 0 a); [|lia]. destruct (lt_dec a (0 + n)); [reflexivity|lia].
      + intros c. cbn. destruct (Nat.eq_dec a c); reflexivity.
  Qed.

  Theorem counters_total s : Inv s ->
    fold_right plus 0 (map (fun c => nth c (wsc s) 0) (seq 0 (length (W s)))) = sc s.
  Proof.
    intros ((Hlen & Hr & Hh) & Hsc & _). destruct (rgs_spec _ _ _ Hr) as (_ & Hlt & _).
    rewrite Hsc, <- (count_sum (labels s) (length (W s)) Hlt).
    f_equal. apply map_ext_in. intros c Hc. apply in_seq in Hc. apply Hh. lia.
  Qed.
End Book.

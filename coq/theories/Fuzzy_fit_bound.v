(* C02, size-bound clause for Fuzzy ART at the level of a whole fit: under every
   mode whose match tracking never lowers the vigilance, every category of
   every state reached by fit on complement-coded data satisfies |w| >= rho d. *)
From Coq Require Import List Bool Arith ZArith Reals Lra Lia.
From ART Require Import Num NumR Vec Search Search_proofs Kernel BaseArt BaseArt_proofs
     SimpleARTMAP_proofs Fuzzy Fuzzy_R Bounds_R.
Import ListNotations.
Open Scope R_scope.

Section FB.
  Variables alpha beta : R.
  Hypothesis Hb : 0 <= beta <= 1.
  Let K := @fuzzyK RN alpha beta.

  (* a complement-coded row of raw dimension d (as a real number) and width n *)
  Definition cc_row (d : R) (n : nat) (x : list R) : Prop :=
    length x = n /\ @dim_original RN x = d /\ Forall (fun a => 0 <= a) x /\ @vsum RN x = d.

  Definition FInv (rho0 d : R) (n : nat) (s : st (N:=RN)) : Prop :=
    rho s = [rho0] /\ Forall (fz_ok rho0 d n) (W s).

  Lemma fuzzy_fit_loop_bound rho0 d n m eps : raising m eps -> rho0 <= 1 -> 0 < d ->
    forall (X : list (list R)) (s : st (N:=RN)) i j veto s' ls,
      Forall (cc_row d n) X -> FInv rho0 d n s -> fit_loop K s X i j veto m eps = Some (s', ls) -> FInv rho0 d n s'.
  Proof.
    intros Hra Hr1 Hd. induction X as [|x X IH]; intros s i j veto s' ls HX I H; cbn [fit_loop] in H.
    - inversion H; subst. exact I.
    - apply Forall_cons_iff in HX. destruct HX as [[Hn [Hdo [Hx0 Hsum]]] HX].
      destruct (step_fit K s x (veto i) m eps) as [[[s1 c] l]|] eqn:Es; cbn [obind] in H; [|discriminate].
      destruct I as [Hrho HW].
      assert (I1 : FInv rho0 d n s1).
      { split.
        - destruct (step_fit_frame K _ _ _ _ _ _ _ _ Es) as (E & _). rewrite E. exact Hrho.
        - rewrite <- Hn. rewrite <- Hn in HW.
          exact (fuzzy_step_bound alpha beta Hb s x (veto i) m eps s1 c l rho0 d Hra Hrho Hr1 Hd Hdo Hx0 Hsum HW Es). }
      match type of H with context [fit_loop K ?s2 X (S i) j veto m eps] =>
        assert (I2 : FInv rho0 d n s2) by (destruct I1 as [A B]; split; [exact A|exact B]);
        destruct (fit_loop K s2 X (S i) j veto m eps) as [[s3 ls3]|] eqn:Ef; cbn [obind] in H; [|discriminate] end.
      inversion H; subst. cbn [fst]. eapply IH; eauto.
  Qed.

  Theorem fuzzy_fit_size_bound (s : st (N:=RN)) X veto m eps rho0 d n s' ls :
    raising m eps -> rho0 <= 1 -> 0 < d -> rho s = [rho0] -> Forall (cc_row d n) X ->
    fit K s X veto m eps = Some (s', ls) ->
    Forall (fun w => rho0 * d <= @l1norm RN w) (W s').
  Proof.
    intros Hra Hr1 Hd Hs HX H. unfold fit in H. destruct (valid K s X); [|discriminate].
    assert (I0 : FInv rho0 d n {| W := []; labels := repeat 0%nat (length X); wsc := []; sc := 0; rho := rho (learn_dim s X);
                                  hasW := true; dim := dim (learn_dim s X) |}).
    { split; cbn [rho W]; [|constructor]. unfold learn_dim. destruct (dim s); destruct X; exact Hs. }
    destruct (fuzzy_fit_loop_bound rho0 d n m eps Hra Hr1 Hd _ _ _ _ _ _ _ HX I0 H) as [_ B].
    eapply Forall_impl; [|exact B]. intros w [_ [_ Hw]]. exact Hw.
  Qed.
End FB.

(* FALCON / TD-FALCON (artlib/reinforcement/FALCON.py): training is FusionART
   training on joined state|action|reward rows (Fusion.v); here the parts that
   are specific: bounded SARSA targets and greedy action selection. *)
From Coq Require Import List Bool Arith Lia.
From ART Require Import Num Vec Search Kernel Fusion.
Import ListNotations.

Section Falcon.
  Context {N : Num}.

  Definition clip01 (a : N) : N := nmax (nmin a n1) n0.       (* np.maximum(np.minimum(a, 1), 0) *)

  (* sarsa_t = clip(Q_t + alpha (r_t + lambda Q_{t+1} - Q_t)) for every transition but the last *)
  Fixpoint sarsa (alpha lambda : N) (Q r : list N) : list N :=
    match Q, r with
    | q0 :: ((q1 :: _) as Q'), r0 :: r' =>
        clip01 (nadd q0 (nmul alpha (nsub (nadd r0 (nmul lambda q1)) q0))) :: sarsa alpha lambda Q' r'
    | _, _ => []
    end.
  (* de_compliment_code of a width-2 reward row, compliment_code of a target *)
  Definition decc (row : list N) : N :=
    match row with [a; b] => nhalf (nadd a (nsub n1 b)) | _ => n0 end.
  Definition cc (t : N) : list N := [t; nsub n1 t].

  (* calculate_SARSA for an episode of >= 2 steps: Q = predicted rewards (all 0 before any training) *)
  Definition sarsa_targets (alpha lambda : N) (Q : list N) (rewards_cc : list (list N)) : list (list N) :=
    map cc (sarsa alpha lambda Q (map decc rewards_cc)).

  (* calculate_SARSA as a whole: an episode of one step (or none) is trained on its own reward row, or on the
     complement-coded single_sample_reward when one is given; (rows kept, targets) *)
  Definition calc_sarsa (alpha lambda : N) (Q : list N) (rewards_cc : list (list N)) (single : option N)
    : nat * list (list N) :=
    match rewards_cc with
    | _ :: _ :: _ => (pred (length rewards_cc), sarsa_targets alpha lambda Q rewards_cc)
    | _ => (length rewards_cc, match single with None => rewards_cc | Some r => [cc r] end)
    end.

  (* get_action: the member of the action space whose predicted reward is maximal
     (minimal on request), first on ties *)
  Definition argmin (leb : N -> N -> bool) (T : list N) : option nat := argmax (fun a b => leb b a) T.
  Definition get_action {A} (maximise : bool) (space : list A) (rewards : list N) : option A :=
    i <- (if maximise then argmax nleb rewards else argmin nleb rewards) ;; nth_error space i.
End Falcon.

(* C06 / C09 / C19 for SimpleARTMAP.fit on a model that was trained before: the A-side categories, counters and labels,
   the category-to-class map and the stored targets of the earlier history are all replaced - a fit of a used model is
   the fit of a freshly constructed one with the same vigilance (for any number of epochs). *)
From Coq Require Import List Bool Arith Lia.
From ART Require Import Num Vec Search Kernel BaseArt SimpleARTMAP DualVig_refit.
Import ListNotations.

Section SRefit.
  Context {N : Num}.
  Variable K : Kernel N.

  Theorem sam_fit_forgets (s : sam (N:=N)) X y iters m eps :
    sam_valid K s X y = true -> sam_valid K (sam_init (rho (A s))) X y = true ->
    sam_fit K s X y iters m eps = sam_fit K (sam_init (rho (A s))) X y iters m eps.
  Proof.
    intros V1 V2. unfold sam_fit. rewrite V1, V2.
    unfold sam_valid in V1, V2.
    apply andb_prop in V1. destruct V1 as [V1 Va]. apply andb_prop in V1. destruct V1 as [_ Hn].
    apply andb_prop in V2. destruct V2 as [_ Vb].
    destruct X as [|x X]; [cbn in Hn; discriminate|].
    pose proof (valid_dim K _ _ _ Va) as D1. pose proof (valid_dim K _ _ _ Vb) as D2.
    set (b0 := learn_dim (A s) (x :: X)) in *. set (c0 := learn_dim (A (sam_init (rho (A s)))) (x :: X)) in *.
    assert (R0 : rho b0 = rho (A s)) by (unfold b0, learn_dim; destruct (dim (A s)); reflexivity).
    assert (R1 : rho c0 = rho (A s)) by reflexivity.
    rewrite D1, D2, R0, R1. reflexivity.
  Qed.
End SRefit.

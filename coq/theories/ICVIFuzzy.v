(* iCVIFuzzyART.fit (artlib/cvi/iCVIFuzzyArt.py): FuzzyART training whose reset
   function admits a category only if assigning the sample to it strictly
   improves the incremental Calinski-Harabasz index. *)
From Coq Require Import List Bool Arith ZArith Lia.
From ART Require Import Num Vec Search Kernel BaseArt ICVI.
Import ListNotations.

Section ICVIFuzzy.
  Context {N : Num}.
  Variable K : Kernel N.

  (* iCVI_match: strict improvement of the criterion *)
  Definition icvi_veto (offline : bool) (h : ch (N:=N)) (x : list N) (cur : nat) (c : nat) : option bool :=
    p <- (if offline then switch_label h x cur c else add_sample h x c) ;;
    Some (nltb (h_crit h) (p_crit p)).

  Fixpoint icvi_loop (offline : bool) (s : st (N:=N)) (h : ch (N:=N)) (X : list (list N)) (i : nat) (m : mt) (eps : N)
    : option (st (N:=N) * ch (N:=N)) :=
    match X with
    | [] => Some (s, h)
    | x :: X' =>
        let cur := nth i (labels s) 0 in
        (* a reset-function call that raises aborts the fit: all candidate answers must be defined *)
        let answers := map (icvi_veto offline h x cur) (seq 0 (length (W s))) in
        let veto := fun c => match nth c answers None with Some b => b | None => false end in
        r <- step_fit K s x (Some veto) m eps ;;
        let '(s1, c, log) := r in
        if existsb (fun e => match nth (fst e) answers None with None => true | Some _ => false end) log then None else
        p <- (if offline then switch_label h x cur c else add_sample h x c) ;;
        let h' := update h p in
        icvi_loop offline (set_labels s1 (set_nth i c (labels s1))) h' X' (S i) m eps
    end.

  Definition icvi_fit (offline : bool) (s : st (N:=N)) (X : list (list N)) (m : mt) (eps : N)
    : option (st (N:=N) * ch (N:=N)) :=
    if valid K s X then
      match X with
      | [] => None
      | x0 :: _ =>
        let s0 := learn_dim s X in
        let s1 := {| W := []; labels := repeat 0 (length X); wsc := []; sc := 0; rho := rho s0; hasW := true; dim := dim s0 |} in
        (* offline: every sample is first added to cluster 0 *)
        h0 <- (if offline
               then fold_left (fun oh x => h <- oh ;; p <- add_sample h x 0 ;; Some (update h p)) X (Some (ch_init (length x0)))
               else Some (ch_init (length x0))) ;;
        icvi_loop offline s1 h0 X 0 m eps
      end
    else None.
End ICVIFuzzy.

(* C11, last clause: FusionART.prepare_data / restore_data with skipped
   channels are mutually inverse on the supplied channels.  Row-level model:
   prepare applies each supplied channel's own preparation and joins (skipped
   columns filled with 1/2); restore splits and applies to the j-th supplied
   block the restoration of the j-th SUPPLIED channel (the pairing repaired by
   the fix: commit; the code before indexed the blocks by channel number). *)
From Coq Require Import List Bool Arith ZArith Lia.
From ART Require Import Num Vec Search Kernel Fusion Fusion_proofs.
Import ListNotations.

Section FP.
  Context {N : Num}.
  Variables prep rest : nat -> list N -> list N.        (* per channel number *)

  Definition supplied (k n : nat) (skip : list nat) : list nat :=
    filter (fun i => negb (existsb (Nat.eqb i) skip)) (seq k n).

  (* raw: one block per channel (all channels present; the skipped ones are ignored) *)
  Definition prepare_row (ds : list nat) (skip : list nat) (raw : list (list N)) : list N :=
    join_row 0 ds skip (map (fun i => prep i (nth i raw [])) (supplied 0 (length ds) skip)).

  Fixpoint zipwith {A B C} (f : A -> B -> C) (l1 : list A) (l2 : list B) : list C :=
    match l1, l2 with a :: l1', b :: l2' => f a b :: zipwith f l1' l2' | _, _ => [] end.

  Definition restore_row (ds : list nat) (skip : list nat) (row : list N) : list (list N) :=
    zipwith rest (supplied 0 (length ds) skip) (split_row 0 ds skip row).

  (* what the code did before the fix: block number = channel number *)
  Definition restore_row_before_fix (ds : list nat) (skip : list nat) (row : list N) : list (option (list N)) :=
    let blocks := split_row 0 ds skip row in
    map (fun i => option_map (rest i) (nth_error blocks i)) (supplied 0 (length ds) skip).

  Lemma zipwith_map {A B} (f : nat -> A -> B) (g : nat -> A) (l : list nat) :
    zipwith f l (map g l) = map (fun i => f i (g i)) l.
  Proof. induction l as [|i l IH]; cbn; [reflexivity|]. rewrite IH. reflexivity. Qed.

  Lemma supplied_filter_combine (ds : list nat) : forall k skip,
    map snd (filter (fun kd => negb (existsb (Nat.eqb (fst kd)) skip)) (combine (seq k (length ds)) ds))
    = map (fun i => nth (i - k) ds 0) (supplied k (length ds) skip).
  Proof.
    unfold supplied. induction ds as [|d ds IH]; intros k skip; cbn [length seq combine filter map fst]; [reflexivity|].
    destruct (existsb (Nat.eqb k) skip); cbn [negb map snd].
    - rewrite IH. apply map_ext_in. intros i Hi. apply filter_In in Hi. destruct Hi as [Hi _]. apply in_seq in Hi.
      replace (i - k) with (S (i - S k)) by lia. reflexivity.
    - rewrite Nat.sub_diag. cbn [nth]. f_equal. rewrite IH. apply map_ext_in. intros i Hi. apply filter_In in Hi. destruct Hi as [Hi _].
      apply in_seq in Hi. replace (i - k) with (S (i - S k)) by lia. reflexivity.
  Qed.

  Theorem restore_prepare (ds : list nat) (skip : list nat) (raw : list (list N)) :
    (forall i, In i (supplied 0 (length ds) skip) ->
               rest i (prep i (nth i raw [])) = nth i raw [] /\ length (prep i (nth i raw [])) = nth i ds 0) ->
    restore_row ds skip (prepare_row ds skip raw) = map (fun i => nth i raw []) (supplied 0 (length ds) skip).
  Proof.
    intros H. unfold restore_row, prepare_row.
    rewrite split_join.
    - rewrite zipwith_map. apply map_ext_in. intros i Hi. apply H. exact Hi.
    - rewrite supplied_filter_combine.
      set (S0 := supplied 0 (length ds) skip) in *. clearbody S0.
      induction S0 as [|i S0 IH]; cbn [map]; constructor.
      + rewrite Nat.sub_0_r. apply H. left. reflexivity.
      + apply IH. intros j Hj. apply H. right. exact Hj.
  Qed.
End FP.

(* the pairing before the fix really was wrong: three channels of widths 1, skip the first one -
   the block of channel 1 is restored with ... nothing at all for channel 2 (IndexError), and the
   block of channel 2 is handed to channel 1's module *)
From Coq Require Import QArith.
Open Scope Q_scope.
Example restore_before_fix_refuted :
  let prep := fun (i : nat) (c : list QN) => c in
  let rest := fun (i : nat) (c : list QN) => map (fun a => Qred (a + inject_Z (Z.of_nat i))) c in
  let raw := [[1#8]; [2#8]; [3#8]] : list (list QN) in
  let row := @prepare_row QN prep [1; 1; 1]%nat [0%nat] raw in
  @restore_row_before_fix QN rest [1; 1; 1]%nat [0%nat] row <> map (fun c => Some c) (@restore_row QN rest [1; 1; 1]%nat [0%nat] row)
  /\ nth 1 (@restore_row_before_fix QN rest [1; 1; 1]%nat [0%nat] row) None = None.
Proof. vm_compute. split; [discriminate|reflexivity]. Qed.

(* C20, globally: EVERY position of the returned order after the first holds an unvisited sample closest to the
   samples before it (Prim's rule along the whole order, not just one loop iteration), and the returned matrix
   inherits symmetry and the zero diagonal from the input. *)
From Coq Require Import List Bool Arith Lia Permutation.
From ART Require Import Search Search_proofs VAT VAT_proofs.
Import ListNotations.

Section P.
  Variable A : Type.
  Variable leb : A -> A -> bool.
  Hypothesis leb_total : forall a b, leb a b = true \/ leb b a = true.
  Hypothesis leb_trans : forall a b c, leb a b = true -> leb b c = true -> leb a c = true.
  Variable d0 : A.

  (* the loop only appends: its result is the visited list followed by an arrangement of the remaining ones *)
  Lemma vat_loop_prefix fuel D : forall vis rem out,
    length rem <= fuel -> vat_loop A leb d0 fuel D vis rem = Some out ->
    exists tail, out = vis ++ tail /\ Permutation rem tail.
  Proof.
    induction fuel as [|f IH]; intros vis rem out Hf H; cbn [vat_loop] in H.
    - destruct rem; [|cbn in Hf; lia]. inversion H; subst. exists []. rewrite app_nil_r. split; [reflexivity|constructor].
    - destruct rem as [|r0 rem'] eqn:Er; [inversion H; subst; exists []; rewrite app_nil_r; split; [reflexivity|constructor]|].
      rewrite <- Er in *.
      destruct (argmin A leb _) as [p|]; [|discriminate].
      assert (Hlen : 0 < length rem) by (rewrite Er; cbn; lia).
      assert (Hj : p mod length rem < length rem) by (apply Nat.mod_upper_bound; lia).
      set (jx := p mod length rem) in *.
      specialize (IH (vis ++ [nth jx rem 0]) (pop jx rem) out).
      rewrite (pop_length jx rem Hj) in IH.
      destruct (IH ltac:(lia) H) as (tail & Eo & Pt).
      exists (nth jx rem 0 :: tail). split; [rewrite Eo, <- app_assoc; reflexivity|].
      etransitivity; [apply (pop_perm jx rem Hj)|]. apply perm_skip. exact Pt.
  Qed.

  Theorem vat_loop_prim fuel D : forall vis rem out,
    vis <> [] -> length rem <= fuel -> vat_loop A leb d0 fuel D vis rem = Some out ->
    forall pre x post, out = vis ++ pre ++ x :: post ->
      exists from, In from (vis ++ pre) /\
        forall i j, In i (vis ++ pre) -> In j (x :: post) ->
          leb (dist A d0 D from x) (dist A d0 D i j) = true.
  Proof.
    induction fuel as [|f IH]; intros vis rem out Hv Hf H pre x post Eo; cbn [vat_loop] in H.
    - destruct rem; [|cbn in Hf; lia]. inversion H as [Hvo]. rewrite <- Hvo in Eo.
      apply (f_equal (@length nat)) in Eo. rewrite !app_length in Eo. cbn in Eo. lia.
    - destruct rem as [|r0 rem'] eqn:Er.
      { inversion H as [Hvo]. rewrite <- Hvo in Eo. apply (f_equal (@length nat)) in Eo. rewrite !app_length in Eo. cbn in Eo. lia. }
      rewrite <- Er in *.
      destruct (argmin A leb _) as [p|] eqn:Ea; [|discriminate].
      assert (Hr : rem <> []) by (rewrite Er; discriminate).
      assert (Hlen : 0 < length rem) by (rewrite Er; cbn; lia).
      assert (Hj : p mod length rem < length rem) by (apply Nat.mod_upper_bound; lia).
      destruct (vat_next_spec A leb leb_total leb_trans d0 D vis rem p Hv Hr Ea) as (Hin & Hfrom & Hmin).
      set (jx := p mod length rem) in *. set (nxt := nth jx rem 0) in *.
      assert (Hf' : length (pop jx rem) <= f) by (rewrite (pop_length jx rem Hj); lia).
      destruct (vat_loop_prefix f D _ _ _ Hf' H) as (tail & Et & Pt).
      assert (Hv' : vis ++ [nxt] <> []) by (destruct vis; discriminate).
      destruct pre as [|y pre'].
      + (* x is the sample appended by this very iteration *)
        cbn [app] in Eo. rewrite Et, <- app_assoc in Eo. apply app_inv_head in Eo. cbn in Eo.
        inversion Eo; subst x post. rewrite app_nil_r.
        exists (nth (p / length rem) vis 0). split; [exact Hfrom|].
        intros i j Hi Hjn. apply Hmin; [exact Hi|].
        destruct Hjn as [<-|Hjn]; [exact Hin|].
        apply (Permutation_in _ (Permutation_sym (pop_perm jx rem Hj))). right.
        apply (Permutation_in _ (Permutation_sym Pt)). exact Hjn.
      + (* x comes later: the first element of pre is the appended sample, recurse *)
        assert (Ey : y = nxt).
        { rewrite Et, <- app_assoc in Eo. apply app_inv_head in Eo. cbn in Eo. inversion Eo. reflexivity. }
        subst y.
        assert (Eo' : out = (vis ++ [nxt]) ++ pre' ++ x :: post) by (rewrite Eo, <- app_assoc; reflexivity).
        destruct (IH _ _ _ Hv' Hf' H pre' x post Eo') as (from & Hfi & Hall).
        exists from. rewrite <- app_assoc in Hfi. split; [exact Hfi|].
        intros i j Hi Hjn. apply Hall; [rewrite <- app_assoc; exact Hi|exact Hjn].
  Qed.

  (* the whole returned order is Prim-ordered *)
  Theorem vat_is_prim_ordered D out :
    Forall (fun r => length r = length D) D ->
    vat_order A leb d0 D = Some out ->
    forall pre x post, out = pre ++ x :: post -> pre <> [] ->
      exists from, In from pre /\
        forall i j, In i pre -> In j (x :: post) -> leb (dist A d0 D from x) (dist A d0 D i j) = true.
  Proof.
    intros Hsq. unfold vat_order. destruct (argmax leb (concat D)) as [p|] eqn:E; [|discriminate]. intros H.
    set (n := length D) in *.
    destruct (argmax_in_range A d0 leb _ p leb_total leb_trans E) as (Hp & _ & _).
    rewrite (concat_length_square A D n Hsq) in Hp.
    assert (Hn : 0 < n) by (destruct n; lia).
    assert (Hlt : p / n < n) by (apply Nat.div_lt_upper_bound; lia).
    assert (Hf : length (pop (p / n) (seq 0 n)) <= n) by (rewrite pop_length by (rewrite seq_length; exact Hlt); rewrite seq_length; lia).
    intros pre x post Eo Hne.
    destruct (vat_loop_prefix n D _ _ _ Hf H) as (tail & Et & _).
    destruct pre as [|y pre']; [congruence|].
    assert (Ey : y = p / n) by (rewrite Et in Eo; cbn in Eo; inversion Eo; reflexivity). subst y.
    apply (vat_loop_prim n D [p / n] _ out ltac:(discriminate) Hf H pre' x post). exact Eo.
  Qed.

  (* hence symmetric with zero diagonal for such input *)
  Theorem reorder_symmetric D perm a b : a < length perm -> b < length perm ->
    (forall i j, dist A d0 D i j = dist A d0 D j i) ->
    dist A d0 (reorder A d0 D perm) a b = dist A d0 (reorder A d0 D perm) b a.
  Proof. intros Ha Hb Hs. rewrite !(reorder_entry A d0) by assumption. apply Hs. Qed.
  Theorem reorder_diagonal D perm a (z : A) : a < length perm ->
    (forall i, dist A d0 D i i = z) -> dist A d0 (reorder A d0 D perm) a a = z.
  Proof. intros Ha Hz. rewrite (reorder_entry A d0) by assumption. apply Hz. Qed.
End P.

(* BaseART.fit with several epochs (max_iter > 1): the sample loop repeated over the same data, labels overwritten in
   place, counters running on.  The book-keeping that survives is about the whole history of assignments L (every
   sample of every epoch): categories are numbered in order of first use in L, the per-category counters are the
   histogram of L, sample_counter_ = |L| = epochs * n, and labels_ is the last epoch's part of L.  (With one epoch
   L = labels_: C05's invariant.  With several, a category may be left without a sample in labels_ - the recorded
   finding - and this theorem says exactly what the counters then count.) *)
From Coq Require Import List Bool Arith Lia.
From ART Require Import Num Vec Search Kernel BaseArt BaseArt_proofs BaseArt_book.
Import ListNotations.

Section E.
  Context {N : Num}.
  Variable K : Kernel N.

  Fixpoint epochs (n : nat) (s : st (N:=N)) (X : list (list N)) (veto : vetos) (m : mt) (eps : N)
    : option (st (N:=N) * list vlog) :=
    match n with
    | O => Some (s, [])
    | S n' =>
        r <- fit_loop K s X 0 0 veto m eps ;;
        r' <- epochs n' (fst r) X veto m eps ;;
        Some (fst r', snd r ++ snd r')
    end.
  Definition fit_iters (s : st (N:=N)) (X : list (list N)) (iters : nat) (veto : vetos) (m : mt) (eps : N) :=
    match iters with
    | O => None
    | S n => r <- fit K s X veto m eps ;; r' <- epochs n (fst r) X veto m eps ;; Some (fst r', snd r ++ snd r')
    end.

  Lemma splice_all (l cs : list nat) : length cs = length l -> splice l 0 cs = cs.
  Proof.
    intros H. unfold splice. cbn [firstn app plus]. rewrite skipn_all2 by lia. apply app_nil_r.
  Qed.

  Lemma epoch_book s L X veto m eps s' ls :
    Book s L -> sc s = length L -> length (labels s) = length X ->
    fit_loop K s X 0 0 veto m eps = Some (s', ls) ->
    exists cs, length cs = length X /\ Book s' (L ++ cs) /\ sc s' = length L + length X /\ labels s' = cs.
  Proof.
    intros HB Hsc Hl H.
    pose proof (fit_loop_steps K X s 0 0 veto m eps ltac:(lia)) as FS. rewrite H in FS.
    destruct (steps K s X 0 veto m eps) as [[[s2 cs] ls2]|] eqn:E; [|contradiction].
    destruct FS as (C & _ & Lb & Hn).
    destruct (book_steps K _ _ _ _ _ _ _ _ _ _ HB E) as (B2 & Hsc2 & _).
    exists cs. split; [exact Hn|]. split; [apply (book_core s2 s'); [symmetry; exact C|exact B2]|]. split.
    - unfold core in C. inversion C. lia.
    - rewrite Lb. apply splice_all. lia.
  Qed.

  Lemma epochs_book n : forall s L X veto m eps s' ls,
    Book s L -> sc s = length L -> length (labels s) = length X ->
    epochs n s X veto m eps = Some (s', ls) ->
    exists more, length more = n * length X /\ Book s' (L ++ more) /\ sc s' = length L + n * length X /\
                 length (labels s') = length X /\ (n <> 0 -> labels s' = skipn (length more - length X) more).
  Proof.
    induction n as [|n IH]; intros s L X veto m eps s' ls HB Hsc Hl H; cbn [epochs] in H.
    - inversion H; subst. exists []. rewrite app_nil_r. cbn [length Nat.mul].
      split; [reflexivity|]. split; [exact HB|]. split; [lia|]. split; [exact Hl|]. intros Hc. exfalso. apply Hc. reflexivity.
    - destruct (fit_loop K s X 0 0 veto m eps) as [[s1 l1]|] eqn:E1; cbn [obind] in H; [|discriminate]. cbn [fst snd] in H.
      destruct (epochs n s1 X veto m eps) as [[s2 l2]|] eqn:E2; cbn [obind] in H; [|discriminate].
      inversion H; subst.
      destruct (epoch_book _ _ _ _ _ _ _ _ HB Hsc Hl E1) as (cs & Hn & B1 & Hs1 & Hl1).
      assert (Hl1' : length (labels s1) = length X) by (rewrite Hl1; exact Hn).
      destruct (IH s1 (L ++ cs) X veto m eps s' l2 B1 ltac:(rewrite app_length; lia) Hl1' E2) as (more & Hm & B2 & Hs2 & Hl2 & Hlast).
      exists (cs ++ more). rewrite app_assoc. split; [rewrite app_length; cbn; lia|]. split; [exact B2|].
      split; [rewrite app_length in Hs2; cbn; lia|]. split; [exact Hl2|].
      intros _. destruct n as [|n'].
      + cbn [epochs] in E2. inversion E2 as [[Es El]]. rewrite <- Es. destruct more; [|cbn in Hm; lia]. rewrite app_nil_r.
        rewrite Hn, Nat.sub_diag. cbn. exact Hl1.
      + rewrite (Hlast ltac:(discriminate)). rewrite app_length.
        assert (Hge : length X <= length more) by (rewrite Hm; cbn [Nat.mul]; apply Nat.le_add_r).
        replace (length cs + length more - length X) with (length cs + (length more - length X)) by lia.
        rewrite skipn_app. rewrite (skipn_all2 cs) by lia. cbn [app].
        replace (length cs + (length more - length X) - length cs) with (length more - length X) by lia. reflexivity.
  Qed.

  (* the whole call *)
  Theorem fit_iters_book s X iters veto m eps s' ls :
    fit_iters s X iters veto m eps = Some (s', ls) ->
    exists L, length L = iters * length X /\ Book s' L /\ sc s' = length L /\
              labels s' = skipn (length L - length X) L /\ length (labels s') = length X.
  Proof.
    unfold fit_iters. destruct iters as [|n]; [discriminate|].
    destruct (fit K s X veto m eps) as [[s1 l1]|] eqn:E1; cbn [obind]; [|discriminate]. cbn [fst snd].
    destruct (epochs n s1 X veto m eps) as [[s2 l2]|] eqn:E2; cbn [obind]; [|discriminate].
    intros H. inversion H; subst.
    destruct (fit_inv K _ _ _ _ _ _ _ E1) as ((B1 & Hs1 & _) & Hl1 & _).
    destruct (epochs_book n s1 (labels s1) X veto m eps s' l2 B1 Hs1 Hl1 E2) as (more & Hm & B2 & Hs2 & Hl2 & Hlast).
    exists (labels s1 ++ more). rewrite app_length, Hl1. split; [cbn; lia|]. split; [exact B2|]. split; [lia|]. split; [|exact Hl2].
    destruct n as [|n'].
    - cbn [epochs] in E2. inversion E2 as [[Es El]]. rewrite <- Es. destruct more; [|cbn in Hm; lia]. rewrite app_nil_r.
      cbn [length]. replace (length X + 0 - length X) with 0 by lia. reflexivity.
    - rewrite (Hlast ltac:(discriminate)).
      assert (Hge : length X <= length more) by (rewrite Hm; cbn [Nat.mul]; apply Nat.le_add_r).
      replace (length X + length more - length X) with (length (labels s1) + (length more - length X)) by lia.
      rewrite skipn_app. rewrite (skipn_all2 (labels s1)) by lia. cbn [app].
      replace (length (labels s1) + (length more - length X) - length (labels s1)) with (length more - length X) by lia. reflexivity.
  Qed.

  (* in the property's words: every label indexes an existing category, there is one counter per category, and the
     counters add up to the number of presentations *)
  Theorem fit_iters_labels_in_range s X iters veto m eps s' ls :
    fit_iters s X iters veto m eps = Some (s', ls) ->
    length (wsc s') = length (W s') /\ Forall (fun l => l < length (W s')) (labels s') /\ sc s' = iters * length X.
  Proof.
    intros H. destruct (fit_iters_book _ _ _ _ _ _ _ _ H) as (L & HL & (Hlen & Hr & _) & Hsc & Hlab & _).
    split; [exact Hlen|]. split; [|lia].
    destruct (rgs_spec _ _ _ Hr) as (_ & Hlt & _). rewrite Hlab.
    apply Forall_forall. intros l Hin. rewrite Forall_forall in Hlt.
    assert (In l L). { rewrite <- (firstn_skipn (length L - length X) L). apply in_or_app. right. exact Hin. }
    specialize (Hlt l H0). lia.
  Qed.
End E.

(* C12: hierarchies are nested and navigable. *)
From Coq Require Import List Bool Arith Lia.
From ART Require Import Num Vec Search Kernel BaseArt SimpleARTMAP SimpleARTMAP_proofs Deep.
Import ListNotations.

Lemma omap_pointwise {A B} (f : A -> option B) l : forall r i i' a,
  omap f l = Some r -> nth_error l i = Some a -> nth_error l i' = Some a ->
  exists b, nth_error r i = Some b /\ nth_error r i' = Some b.
Proof.
  intros r i i' a H H1 H2.
  assert (G : forall l r k x, omap f l = Some r -> nth_error l k = Some x ->
                              exists y, nth_error r k = Some y /\ f x = Some y).
  { clear. induction l as [|a l IH]; intros r k x H Hn; [destruct k; discriminate|].
    cbn [omap] in H. destruct (f a) as [b|] eqn:Ea; cbn [obind] in H; [|discriminate].
    destruct (omap f l) as [r'|] eqn:Er; cbn [obind] in H; [|discriminate]. inversion H; subst.
    destruct k; cbn in *; [inversion Hn; subst; eauto|eapply IH; eauto]. }
  destruct (G _ _ _ _ H H1) as (b1 & Hb1 & F1). destruct (G _ _ _ _ H H2) as (b2 & Hb2 & F2).
  exists b1. split; [exact Hb1|]. congruence.
Qed.

Lemma omap_length {A B} (f : A -> option B) l : forall r, omap f l = Some r -> length r = length l.
Proof.
  induction l as [|a l IH]; intros r H; cbn [omap] in H; [inversion H; reflexivity|].
  destruct (f a); cbn [obind] in H; [|discriminate]. destruct (omap f l) eqn:E; cbn [obind] in H; [|discriminate].
  inversion H; subst. cbn. f_equal. apply IH. reflexivity.
Qed.

Lemma omap_is_map {A B} (f : A -> option B) (d : B) l : forall r,
  omap f l = Some r -> r = map (fun a => match f a with Some b => b | None => d end) l.
Proof.
  induction l as [|a l IH]; intros r H; cbn [omap] in H; [inversion H; reflexivity|].
  destruct (f a) eqn:Ea; cbn [obind] in H; [|discriminate]. destruct (omap f l) eqn:E; cbn [obind] in H; [|discriminate].
  inversion H; subst. cbn. rewrite Ea. f_equal. apply IH. reflexivity.
Qed.

(* the image of a label vector under a map has no more distinct values *)
Definition ndistinct (l : list nat) : nat := length (nodup Nat.eq_dec l).
Lemma ndistinct_map (f : nat -> nat) l : ndistinct (map f l) <= ndistinct l.
Proof.
  unfold ndistinct. rewrite <- (map_length f (nodup Nat.eq_dec l)).
  apply NoDup_incl_length; [apply NoDup_nodup|].
  intros x Hx. apply nodup_In in Hx. apply in_map_iff in Hx as (a & <- & Ha).
  apply in_map. apply nodup_In. exact Ha.
Qed.

Section P.
  Context {N : Num}.
  Hypothesis nleb_total : forall a b : N, nleb a b = true \/ nleb b a = true.
  Hypothesis nleb_trans : forall a b c : N, nleb a b = true -> nleb b c = true -> nleb a c = true.
  Notation sam := (@sam N).

  Definition layer_ok (l : sam) (n : nat) : Prop :=
    MapInv l n /\ length (labels (A l)) = n /\ length (bl l) = n.
  (* layer j+1 is supervised by the A-side labels of layer j *)
  Fixpoint chained (y : list nat) (ls : list sam) : Prop :=
    match ls with [] => True | l :: rest => bl l = y /\ chained (labels (A l)) rest end.

  Theorem chain_fit_ok Ks : forall ls Xs y iters m eps ls',
    chain_fit Ks ls Xs y iters m eps = Some ls' -> 1 <= iters ->
    Forall (fun l => layer_ok l (length y)) ls' /\ chained y ls' /\ length ls' = length Ks.
  Proof.
    induction Ks as [|K Ks IH]; intros ls Xs y iters m eps ls' H Hn; cbn [chain_fit] in H.
    - destruct ls, Xs; try discriminate. inversion H; subst. cbn. auto.
    - destruct ls as [|l ls]; [discriminate|]. destruct Xs as [|X Xs]; [discriminate|].
      destruct (sam_fit K (rewrap l) X y iters m eps) as [l'|] eqn:E; cbn [obind] in H; [|discriminate].
      destruct (chain_fit Ks ls Xs (labels (A l')) iters m eps) as [rest|] eqn:E2; cbn [obind] in H; [|discriminate].
      inversion H; subst.
      destruct (sam_fit_ok K nleb_total nleb_trans _ _ _ _ _ _ _ E Hn) as (HI & Hb & Hl & Hxy & _).
      destruct (IH _ _ _ _ _ _ _ E2 Hn) as (Hf & Hc & Hlen).
      rewrite Hl, Hxy in Hf. cbn. split; [|split; [split; [exact Hb|exact Hc]|lia]].
      constructor; [|exact Hf]. unfold layer_ok. rewrite <- Hxy. split; [exact HI|]. split; [exact Hl|].
      rewrite Hb. lia.
  Qed.

  (* one layer: samples sharing the finer (A-side) label share the coarser (B-side) one *)
  Lemma layer_nested (l : sam) n i i' c :
    layer_ok l n -> nth_error (labels (A l)) i = Some c -> nth_error (labels (A l)) i' = Some c ->
    exists b, nth_error (bl l) i = Some b /\ nth_error (bl l) i' = Some b.
  Proof.
    intros ((_ & Hlab & _) & Hl & Hb) H1 H2.
    assert (Hi : i < n) by (rewrite <- Hl; apply nth_error_Some; congruence).
    assert (Hi' : i' < n) by (rewrite <- Hl; apply nth_error_Some; congruence).
    destruct (nth_error (bl l) i) as [b|] eqn:E1; [|apply nth_error_None in E1; lia].
    destruct (nth_error (bl l) i') as [b'|] eqn:E2; [|apply nth_error_None in E2; lia].
    pose proof (Hlab i c b Hi H1 E1). pose proof (Hlab i' c b' Hi' H2 E2).
    exists b. split; [reflexivity|congruence].
  Qed.

  (* labels_deep_ = the targets followed by every layer's A-side labels *)
  Lemma labels_deep_eq y (ls : list sam) : chained y ls -> ls <> [] ->
    labels_deep ls = y :: map (fun l => labels (A l)) ls.
  Proof.
    unfold labels_deep. revert y. induction ls as [|l ls IH]; intros y Hc Hne; [congruence|].
    destruct Hc as (Hb & Hc). destruct ls as [|l2 ls].
    - cbn. rewrite Hb. reflexivity.
    - specialize (IH (labels (A l)) Hc ltac:(discriminate)).
      cbn [map]. rewrite Hb. cbn [app]. f_equal.
      change (rev (l :: l2 :: ls)) with (rev (l2 :: ls) ++ [l]).
      destruct (rev (l2 :: ls)) as [|z zs] eqn:Er.
      + exfalso. apply (f_equal (@length _)) in Er. rewrite rev_length in Er. discriminate.
      + cbn [app]. cbn [map] in IH. exact IH.
  Qed.

  (* the tree property, adjacent levels *)
  Theorem deep_nested_adjacent y (ls : list sam) n j i i' c :
    Forall (fun l => layer_ok l n) ls -> chained y ls ->
    nth_error (map (fun l => labels (A l)) ls) j = Some (nth j (map (fun l => labels (A l)) ls) []) ->
    nth_error (nth j (map (fun l => labels (A l)) ls) []) i = Some c ->
    nth_error (nth j (map (fun l => labels (A l)) ls) []) i' = Some c ->
    exists b, nth_error (nth j (y :: map (fun l => labels (A l)) ls) []) i = Some b /\
              nth_error (nth j (y :: map (fun l => labels (A l)) ls) []) i' = Some b.
  Proof.
    revert y j. induction ls as [|l ls IH]; intros y j Hf Hc Hj H1 H2; [destruct j; discriminate|].
    inversion Hf as [|? ? Hl Hf']; subst. destruct Hc as (Hb & Hc).
    destruct j as [|j]; cbn in *.
    - rewrite <- Hb. eapply layer_nested; eauto.
    - eapply IH; eauto.
  Qed.

  (* category counts never decrease with depth *)
  Theorem deep_counts_monotone (l : sam) n :
    layer_ok l n -> ndistinct (bl l) <= ndistinct (labels (A l)).
  Proof.
    intros (HI & Hl & Hb).
    assert (HI' : MapInv l (length (bl l))) by (rewrite Hb; exact HI).
    pose proof (map_reproduces_targets l HI' ltac:(lia)) as Hm.
    unfold map_a2b in Hm. rewrite (omap_is_map _ 0 _ _ Hm). apply ndistinct_map.
  Qed.

  (* map_deep carries any level's stored A-side labels to the top-level labels *)
  Theorem map_deep_consistent y (ls : list sam) n : forall level l,
    Forall (fun l => layer_ok l n) ls -> chained y ls -> nth_error ls level = Some l ->
    map_deep ls level (labels (A l)) = Some y.
  Proof.
    unfold map_deep. revert y. induction ls as [|l0 ls IH]; intros y level l Hf Hc Hn; [destruct level; discriminate|].
    inversion Hf as [|? ? Hl0 Hf']; subst. destruct Hc as (Hb & Hc).
    assert (M0 : map_a2b (mp l0) (labels (A l0)) = Some y).
    { destruct Hl0 as (HI & Hl & Hbl). rewrite <- Hb. apply map_reproduces_targets; [rewrite Hbl; exact HI|lia]. }
    destruct level as [|level]; cbn in Hn.
    - inversion Hn; subst l. cbn. rewrite M0. reflexivity.
    - specialize (IH (labels (A l0)) level l Hf' Hc Hn).
      change (firstn (S (S level)) (l0 :: ls)) with (l0 :: firstn (S level) ls).
      cbn [rev].
      assert (G : forall (rs : list sam) ya yb, map_up rs ya = Some yb -> forall (z : sam) yc, map_a2b (mp z) yb = Some yc ->
                                   map_up (rs ++ [z]) ya = Some yc).
      { clear. induction rs as [|r rs IHr]; intros ya yb H z yc Hz; cbn in *.
        - inversion H; subst. rewrite Hz. reflexivity.
        - destruct (map_a2b (mp r) ya); cbn [obind] in *; [|discriminate]. eapply IHr; eauto. }
      eapply G; eauto.
  Qed.

  (* predictions: two query rows sharing a finer label share the coarser one *)
  Theorem preds_up_nested (rs : list sam) : forall cur up,
    preds_up rs cur = Some up ->
    forall i i' c, nth_error cur i = Some c -> nth_error cur i' = Some c ->
    Forall (fun col => exists b, nth_error col i = Some b /\ nth_error col i' = Some b) up.
  Proof.
    induction rs as [|r rs IH]; intros cur up H i i' c H1 H2; cbn [preds_up] in H.
    - inversion H; subst. constructor.
    - destruct (map_a2b (mp r) cur) as [yb|] eqn:E; cbn [obind] in H; [|discriminate].
      destruct (preds_up rs yb) as [r'|] eqn:E2; cbn [obind] in H; [|discriminate]. inversion H; subst.
      destruct (omap_pointwise _ _ _ _ _ _ E H1 H2) as (b & Hb1 & Hb2).
      constructor; [eauto|]. eapply IH; eauto.
  Qed.
End P.

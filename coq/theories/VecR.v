(* Coordinate-wise reasoning about list vectors at the real-number instance:
   finite sums over coordinates, nth of the vector operations, the dot product
   as a coordinate sum, exchange of a sum over a list of vectors with the sum
   over coordinates.  Used by ICVI_full.v (C15). *)
From Coq Require Import List Bool Arith Reals Lra Lia Permutation.
From ART Require Import Num NumR Vec.
Import ListNotations.
Open Scope R_scope.

Notation vaddR := (@vadd RN).
Notation vsubR := (@vsub RN).
Notation vscaleR := (@vscale RN).
Notation dotR := (@dot RN).
Notation vsumR := (@vsum RN).

(* ---- list sums ---- *)
Definition lsum (l : list R) : R := fold_right Rplus 0 l.

Lemma vsum_lsum (l : list R) : vsumR l = lsum l.
Proof. induction l as [|a l IH]; cbn; [reflexivity|]. rewrite IH. reflexivity. Qed.

Lemma lsum_app l1 l2 : lsum (l1 ++ l2) = lsum l1 + lsum l2.
Proof. unfold lsum. induction l1 as [|a l1 IH]; cbn; [lra|]. rewrite IH. lra. Qed.

Lemma lsum_perm l1 l2 : Permutation l1 l2 -> lsum l1 = lsum l2.
Proof. unfold lsum. induction 1; cbn; lra. Qed.

Lemma lsum_map_ext {A} (f g : A -> R) (l : list A) : (forall a, In a l -> f a = g a) -> lsum (map f l) = lsum (map g l).
Proof. unfold lsum. induction l as [|a l IH]; cbn; intros H; [reflexivity|]. rewrite (H a) by auto. rewrite IH; auto. Qed.

Lemma lsum_map_plus {A} (f g : A -> R) (l : list A) : lsum (map (fun a => f a + g a) l) = lsum (map f l) + lsum (map g l).
Proof. unfold lsum. induction l as [|a l IH]; cbn; [lra|]. rewrite IH. lra. Qed.

Lemma lsum_map_scal {A} (c : R) (f : A -> R) (l : list A) : lsum (map (fun a => c * f a) l) = c * lsum (map f l).
Proof. unfold lsum. induction l as [|a l IH]; cbn; [lra|]. rewrite IH. lra. Qed.

Lemma lsum_map_const {A} (c : R) (l : list A) : lsum (map (fun _ => c) l) = INR (length l) * c.
Proof. unfold lsum. induction l as [|a l IH]; [cbn; lra|]. cbn [map fold_right length]. rewrite IH, S_INR. lra. Qed.

(* ---- sums over coordinates 0 .. d-1 ---- *)
Definition bigsum (d : nat) (f : nat -> R) : R := lsum (map f (seq 0 d)).

Lemma bigsum_ext d f g : (forall i, (i < d)%nat -> f i = g i) -> bigsum d f = bigsum d g.
Proof. intros H. apply lsum_map_ext. intros i Hi. apply in_seq in Hi. apply H. lia. Qed.

Lemma bigsum_plus d f g : bigsum d (fun i => f i + g i) = bigsum d f + bigsum d g.
Proof. apply lsum_map_plus. Qed.

Lemma bigsum_scal d c f : bigsum d (fun i => c * f i) = c * bigsum d f.
Proof. apply lsum_map_scal. Qed.

Lemma bigsum_0 d : bigsum d (fun _ => 0) = 0.
Proof. unfold bigsum. rewrite lsum_map_const. lra. Qed.

Lemma bigsum_minus d f g : bigsum d (fun i => f i - g i) = bigsum d f - bigsum d g.
Proof.
  replace (bigsum d f - bigsum d g) with (bigsum d f + (-1) * bigsum d g) by lra.
  rewrite <- bigsum_scal, <- bigsum_plus. apply bigsum_ext. intros; lra.
Qed.

(* exchange: sum over a list of a coordinate sum *)
Lemma lsum_bigsum {A} (l : list A) d (F : A -> nat -> R) :
  lsum (map (fun a => bigsum d (F a)) l) = bigsum d (fun i => lsum (map (fun a => F a i) l)).
Proof.
  induction l as [|a l IH].
  - cbn. symmetry. apply bigsum_0.
  - change (lsum (map (fun a0 => bigsum d (F a0)) (a :: l))) with (bigsum d (F a) + lsum (map (fun a0 => bigsum d (F a0)) l)).
    rewrite IH, <- bigsum_plus. apply bigsum_ext. intros; reflexivity.
Qed.

(* ---- coordinates of the vector operations ---- *)
Definition co (i : nat) (v : list R) : R := nth i v 0.

Lemma vzip_length (f : R -> R -> R) : forall a b : list R, @length R (@vzip RN f a b) = Nat.min (length a) (length b).
Proof. induction a as [|x a IH]; intros [|y b]; cbn; auto. Qed.

Lemma co_vzip (f : R -> R -> R) : forall (a b : list R) i, (i < length a)%nat -> (i < length b)%nat ->
  co i (@vzip RN f a b) = f (co i a) (co i b).
Proof.
  unfold co. induction a as [|x a IH]; intros [|y b] i Ha Hb; cbn in *; try lia.
  destruct i; [reflexivity|]. apply IH; lia.
Qed.

Lemma vadd_length (a b : list R) : length a = length b -> @length R (vaddR a b) = length a.
Proof. intros H. unfold vadd. rewrite vzip_length, H. apply Nat.min_id. Qed.
Lemma vsub_length (a b : list R) : length a = length b -> @length R (vsubR a b) = length a.
Proof. intros H. unfold vsub. rewrite vzip_length, H. apply Nat.min_id. Qed.
Lemma vscale_length (t : R) (a : list R) : @length R (vscaleR t a) = length a.
Proof. unfold vscale. apply map_length. Qed.

Lemma co_vadd (a b : list R) i : length a = length b -> (i < length a)%nat -> co i (vaddR a b) = co i a + co i b.
Proof. intros H Hi. unfold vadd. rewrite co_vzip by lia. reflexivity. Qed.
Lemma co_vsub (a b : list R) i : length a = length b -> (i < length a)%nat -> co i (vsubR a b) = co i a - co i b.
Proof. intros H Hi. unfold vsub. rewrite co_vzip by lia. reflexivity. Qed.
Lemma co_vscale (t : R) (a : list R) i : co i (vscaleR t a) = t * co i a.
Proof.
  unfold co, vscale. revert i. induction a as [|x a IH]; intros [|i]; cbn; try lra; auto.
Qed.
Lemma co_repeat (c : R) d i : (i < d)%nat -> co i (repeat c d) = c.
Proof. unfold co. revert i. induction d; intros [|i] H; cbn; try lia; auto. apply IHd; lia. Qed.

(* vector extensionality *)
Lemma vec_ext (a b : list R) : length a = length b -> (forall i, (i < length a)%nat -> co i a = co i b) -> a = b.
Proof. intros H1 H2. apply (nth_ext a b 0 0 H1). exact H2. Qed.

(* the dot product as a coordinate sum *)
Lemma dot_bigsum : forall (a b : list R) d, length a = d -> length b = d ->
  dotR a b = bigsum d (fun i => co i a * co i b).
Proof.
  intros a b d Ha Hb. unfold dot, vmul, bigsum. rewrite vsum_lsum. f_equal.
  revert b d Ha Hb. induction a as [|x a IH]; intros [|y b] d Ha Hb; cbn in Ha, Hb; subst; try discriminate.
  - reflexivity.
  - injection Hb as Hb. cbn [vzip length seq map]. f_equal.
    rewrite <- seq_shift, map_map. exact (IH b (length a) eq_refl Hb).
Qed.

(* the sum of a list of vectors, coordinate-wise *)
Lemma co_fold_vadd d : forall (C : list (list R)) (z : list R), length z = d -> Forall (fun y => length y = d) C ->
  @length R (fold_left vaddR C z) = d /\
  forall i, (i < d)%nat -> co i (fold_left vaddR C z) = co i z + lsum (map (co i) C).
Proof.
  induction C as [|y C IH]; intros z Hz HC; cbn [fold_left map].
  - split; [exact Hz|]. intros; unfold lsum; cbn; lra.
  - inversion HC as [|? ? Hy HC']; subst.
    assert (Hl : length (vaddR z y) = length z) by (apply vadd_length; lia).
    destruct (IH (vaddR z y) Hl HC') as [L E]. split; [exact L|].
    intros i Hi. rewrite E by exact Hi. rewrite co_vadd by lia.
    change (lsum (co i y :: map (co i) C)) with (co i y + lsum (map (co i) C)). lra.
Qed.

(* Fuzzy ART at the real-number instance: weights never increase, fast
   learning computes the exact bounding box of the members, enclosure is
   permanent, and the size bound |w| >= rho * d. *)
From Coq Require Import List Bool Arith Reals Lra Lia.
From ART Require Import Num NumR Vec Search Kernel BaseArt BaseArt_folds Fuzzy.
Import ListNotations.
Open Scope R_scope.

Definition vle (x y : list R) : Prop := Forall2 Rle x y.

Lemma nmin_l (a b : RN) : (nmin a b : R) <= a.
Proof. rewrite nmin_R. apply Rmin_l. Qed.
Lemma nmin_r (a b : RN) : (nmin a b : R) <= b.
Proof. rewrite nmin_R. apply Rmin_r. Qed.
Lemma nmin_glb (a b c : RN) : (c : R) <= a -> (c : R) <= b -> (c : R) <= nmin a b.
Proof. rewrite nmin_R. apply Rmin_glb. Qed.
Lemma nmin_absorb (a b : RN) : (b : R) <= a -> nmin a b = b.
Proof. intros H. rewrite nmin_R. unfold Rmin. destruct (Rle_dec a b); [apply Rle_antisym; assumption|reflexivity]. Qed.

Lemma vle_refl x : vle x x.
Proof. induction x; constructor; [lra|assumption]. Qed.
Lemma vle_trans x y z : vle x y -> vle y z -> vle x z.
Proof.
  intros H. revert z. induction H as [|a b x y Hab _ IH]; intros z Hz; inversion Hz; subst; constructor;
    [lra|apply IH; assumption].
Qed.
Lemma vle_length x y : vle x y -> length x = length y.
Proof. induction 1; cbn; congruence. Qed.

Section FuzzyR.
  Variables alpha beta : R.
  Hypothesis Hb : 0 <= beta <= 1.

  Notation upd := (@fuzzy_update RN beta).

  Lemma vmin_le_r (x w : list RN) : length x = length w -> vle (vmin x w) w.
  Proof.
    revert w. induction x as [|a x IH]; intros [|b w] H; cbn in *; try discriminate; constructor.
    - apply nmin_r. - apply IH. lia.
  Qed.
  Lemma vmin_le_l (x w : list RN) : length x = length w -> vle (vmin x w) x.
  Proof.
    revert w. induction x as [|a x IH]; intros [|b w] H; cbn in *; try discriminate; constructor.
    - apply nmin_l. - apply IH. lia.
  Qed.
  Lemma vmin_absorb (x w : list RN) : vle w x -> vmin x w = w.
  Proof.
    intros H. induction H as [|b a w x Hab _ IH]; cbn; [reflexivity|].
    f_equal; [apply nmin_absorb; exact Hab|exact IH].
  Qed.

  (* weights never increase *)
  Theorem fuzzy_update_le (x w : list RN) : length x = length w -> vle (upd x w) w.
  Proof.
    unfold fuzzy_update, vadd, vscale. revert w.
    induction x as [|a x IH]; intros [|b w] H; cbn in *; try discriminate; constructor.
    - pose proof (nmin_r a b) as Hm. cbn in *. nra.
    - apply IH. lia.
  Qed.

  (* fast learning: w' = x ^ w *)
  Theorem fuzzy_update_fast (x w : list RN) : length x = length w ->
    @fuzzy_update RN 1 x w = vmin x w.
  Proof.
    unfold fuzzy_update, vadd, vscale. revert w.
    induction x as [|a x IH]; intros [|b w] H; cbn in *; try discriminate; [reflexivity|].
    f_equal; [ring|apply IH; lia].
  Qed.

  (* a sample once enclosed (x ^ w = w, i.e. w <= x) stays enclosed under any later learning *)
  Theorem fuzzy_enclosed_forever (x y w : list RN) :
    length y = length w -> vle w x -> vmin x (upd y w) = upd y w.
  Proof.
    intros Hl Hwx. apply vmin_absorb. eapply vle_trans; [apply fuzzy_update_le; exact Hl|exact Hwx].
  Qed.

  (* the update never leaves the unit cube *)
  Lemma fuzzy_update_ge0 (x w : list RN) : length x = length w ->
    Forall (fun a => 0 <= a) x -> Forall (fun a => 0 <= a) w -> Forall (fun a => 0 <= a) (upd x w).
  Proof.
    unfold fuzzy_update, vadd, vscale. revert w.
    induction x as [|a x IH]; intros [|b w] H Hx Hw; cbn in *; try discriminate; [constructor|].
    inversion Hx; inversion Hw; subst. constructor; [|apply IH; auto; lia].
    assert (0 <= (@nmin RN a b : R)) by (apply nmin_glb; assumption). cbn in *. nra.
  Qed.

  (* |.| of a non-negative vector is its sum; the update is linear in it *)
  Lemma l1_nonneg (x : list RN) : Forall (fun a => 0 <= a) x -> l1norm x = vsum x.
  Proof.
    unfold l1norm. induction 1 as [|a x Ha _ IH]; [reflexivity|].
    cbn [map vsum]. rewrite IH. f_equal.
    unfold nabs. cbn. unfold Rleb. destruct (Rle_dec 0 a); [reflexivity|contradiction].
  Qed.
  Lemma vsum_update (x w : list RN) : length x = length w ->
    vsum (upd x w) = beta * vsum (vmin x w) + (1 - beta) * vsum w.
  Proof.
    unfold fuzzy_update, vadd, vscale. revert w.
    induction x as [|a x IH]; intros [|b w] H; cbn in *; try discriminate; [ring|].
    rewrite IH by lia. ring.
  Qed.

  (* no category exceeds what the vigilance permits: if the match value
     |x ^ w| / d passed a vigilance v and the old weight satisfied the bound,
     so does the new one *)
  Theorem fuzzy_size_bound (x w : list RN) (v d : R) :
    length x = length w -> Forall (fun a => 0 <= a) x -> Forall (fun a => 0 <= a) w ->
    0 < d -> v * d <= vsum (vmin x w) -> v * d <= vsum w -> v * d <= l1norm (upd x w).
  Proof.
    intros Hl Hx Hw Hd HM Hold.
    rewrite l1_nonneg by (apply fuzzy_update_ge0; assumption).
    rewrite vsum_update by exact Hl. nra.
  Qed.
End FuzzyR.

(* ---- fast learning: the category is exactly the bounding box of its members ---- *)
Definition meet (ms : list (list RN)) : option (list RN) :=
  match ms with
  | [] => None
  | m :: rest => Some (fold_left (fun w x => vmin x w) rest m)
  end.

Lemma fold_vmin_lower (rest : list (list RN)) : forall (w0 : list RN),
  Forall (fun m => length m = length w0) rest ->
  let w := fold_left (fun w x => vmin x w) rest w0 in
  vle w w0 /\ Forall (fun m => vle w m) rest /\ length w = length w0.
Proof.
  induction rest as [|m rest IH]; intros w0 Hl; cbn.
  - repeat split; [apply vle_refl|constructor].
  - inversion Hl as [|? ? Hm Hl']; subst.
    assert (L1 : length (vmin m w0) = length w0).
    { pose proof (vle_length _ _ (vmin_le_r m w0 Hm)). exact H. }
    destruct (IH (vmin m w0)) as (H1 & H2 & H3).
    { eapply Forall_impl; [|exact Hl']. intros a Ha. cbv beta in *. rewrite L1. exact Ha. }
    cbv zeta in *. repeat split.
    + eapply vle_trans; [exact H1|apply vmin_le_r; exact Hm].
    + constructor; [eapply vle_trans; [exact H1|apply vmin_le_l; exact Hm]|exact H2].
    + etransitivity; [exact H3|exact L1].
Qed.

(* every member is enclosed: the stored weight is a lower bound of all members
   (lower corner <= a, and 1 - upper corner >= ... in complement coding) *)
Theorem fuzzy_box_contains_members (ms : list (list RN)) w :
  (forall m m', In m ms -> In m' ms -> length m = length m') ->
  meet ms = Some w -> Forall (fun m => vle w m) ms.
Proof.
  destruct ms as [|m0 rest]; [discriminate|]. intros Hl H. cbn in H. inversion H; subst.
  destruct (fold_vmin_lower rest m0) as (H1 & H2 & _).
  { apply Forall_forall. intros m Hm. apply Hl; [right; exact Hm|left; reflexivity]. }
  constructor; assumption.
Qed.

(* ... and it is tight: every component is attained by some member *)
Theorem fuzzy_box_tight (ms : list (list RN)) w :
  (forall m m', In m ms -> In m' ms -> length m = length m') ->
  meet ms = Some w -> forall j, (j < length w)%nat -> exists m, In m ms /\ nth j w 0 = nth j m 0.
Proof.
  destruct ms as [|m0 rest]; [discriminate|]. intros Hl H. cbn in H. inversion H; subst. clear H.
  assert (G : forall rest (w0 : list RN), Forall (fun m => length m = length w0) rest ->
    forall j, (j < length w0)%nat ->
    let w := fold_left (fun w x => vmin x w) rest w0 in
    nth j w 0 = nth j w0 0 \/ exists m, In m rest /\ nth j w 0 = nth j m 0).
  { clear. induction rest as [|m rest IH]; intros w0 Hl j Hj; cbn; [left; reflexivity|].
    inversion Hl as [|? ? Hm Hl']; subst.
    assert (L1 : length (vmin m w0) = length w0) by (apply (vle_length _ _ (vmin_le_r m w0 Hm))).
    destruct (IH (vmin m w0)) with (j := j) as [E|(m' & Hin & E)].
    { eapply Forall_impl; [|exact Hl']. intros a Ha. cbv beta in *. rewrite L1. exact Ha. }
    { lia. }
    - cbn in E. rewrite E.
      assert (Hn : nth j (vmin m w0) 0 = nth j w0 0 \/ nth j (vmin m w0) 0 = nth j m 0).
      { clear - Hm Hj. revert w0 j Hm Hj. induction m as [|a m IHm]; intros [|b w0] j Hm Hj; cbn in *; try discriminate; try lia.
        destruct j; [|apply IHm; lia].
        unfold nmin. cbn. destruct (Rleb a b); auto. }
      destruct Hn as [Hn|Hn]; [left; exact Hn|right; exists m; split; [left; reflexivity|exact Hn]].
    - right. exists m'. split; [right; exact Hin|exact E]. }
  intros j Hj.
  assert (Hl0 : Forall (fun m => length m = length m0) rest).
  { apply Forall_forall. intros m Hm. apply Hl; [right; exact Hm|left; reflexivity]. }
  destruct (fold_vmin_lower rest m0 Hl0) as (_ & _ & L).
  destruct (G rest m0 Hl0 j ltac:(cbn in *; lia)) as [E|(m & Hin & E)].
  - exists m0. split; [left; reflexivity|exact E].
  - exists m. split; [right; exact Hin|exact E].
Qed.

(* the fold of the Fuzzy update with beta = 1 over the members is their meet *)
Theorem fuzzy_fold_is_meet alpha (ms : list (list RN)) :
  (forall m m', In m ms -> In m' ms -> length m = length m') ->
  fold_members (@fuzzyK RN alpha 1) ms = meet ms.
Proof.
  destruct ms as [|m0 rest]; [reflexivity|]. intros Hl. cbn [fold_members meet k_new k_update fuzzyK].
  unfold fuzzy_new.
  assert (G : forall rest (w0 : list RN), Forall (fun m => length m = length w0) rest ->
     fold_left (fun ow x => obind ow (fun w => Some (@fuzzy_update RN 1 x w))) rest (Some w0)
     = Some (fold_left (fun w x => vmin x w) rest w0)).
  { clear. induction rest as [|m rest IH]; intros w0 Hl0; cbn; [reflexivity|].
    inversion Hl0 as [|? ? Hm Hl']; subst. rewrite fuzzy_update_fast by exact Hm. apply IH.
    eapply Forall_impl; [|exact Hl']. cbn. intros a Ha. rewrite Ha.
    symmetry. apply (vle_length _ _ (vmin_le_r m w0 Hm)). }
  apply G. apply Forall_forall. intros m Hm. apply Hl; [right; exact Hm|left; reflexivity].
Qed.

(* C04: a training step is defined whenever the kernel functions are defined
   on the stored weights (no division by zero, no missing value, every index
   the search produces is in range). *)
From Coq Require Import List Bool Arith Lia.
From ART Require Import Num Vec Search Search_proofs Kernel BaseArt BaseArt_proofs SimpleARTMAP_proofs.
Import ListNotations.

Lemma omapi_defined {A B} (f : nat -> A -> option B) l : forall i,
  (forall k a, nth_error l k = Some a -> f (i + k) a <> None) -> omapi i f l <> None.
Proof.
  induction l as [|a l IH]; intros i H; cbn [omapi]; [discriminate|].
  destruct (f i a) as [b|] eqn:E; cbn [obind].
  - destruct (omapi (S i) f l) as [r|] eqn:E2; cbn [obind]; [discriminate|].
    exfalso. apply (IH (S i)); [|exact E2]. intros k a' Hk. replace (S i + k) with (i + S k) by lia. apply H. exact Hk.
  - exfalso. apply (H 0 a eq_refl). rewrite Nat.add_0_r. exact E.
Qed.

Lemma omapi_length {A B} (f : nat -> A -> option B) l : forall i r, omapi i f l = Some r -> length r = length l.
Proof.
  induction l as [|a l IH]; intros i r H; cbn [omapi] in H; [inversion H; reflexivity|].
  destruct (f i a); cbn [obind] in H; [|discriminate]. destruct (omapi (S i) f l) eqn:E; cbn [obind] in H; [|discriminate].
  inversion H; subst. cbn. f_equal. eapply IH; eauto.
Qed.

(* every logged (visited) category is an element of the scanned list *)
Lemma scan_log_in {V} mbin veto_ok track l : forall (v : V) e,
  In e (snd (scan mbin veto_ok track l v)) -> In (fst e) l.
Proof.
  induction l as [|a l IH]; intros v e H; cbn [scan] in H; [contradiction|].
  destruct (mbin v a), (veto_ok v a); cbn [andb] in H.
  - cbn in H. destruct H as [<-|[]]. left; reflexivity.
  - destruct (track v a) as [v' keep]. destruct keep.
    + destruct (scan mbin veto_ok track l v') as [[w vf] lg] eqn:E. cbn in H.
      destruct H as [<-|H]; [left; reflexivity|right]. apply (IH v'). rewrite E. exact H.
    + cbn in H. destruct H as [<-|[]]. left; reflexivity.
  - destruct (scan mbin veto_ok track l v) as [[w vf] lg] eqn:E. cbn in H.
    destruct H as [<-|H]; [left; reflexivity|right]. apply (IH v). rewrite E. exact H.
  - destruct (scan mbin veto_ok track l v) as [[w vf] lg] eqn:E. cbn in H.
    destruct H as [<-|H]; [left; reflexivity|right]. apply (IH v). rewrite E. exact H.
Qed.

Section Total.
  Context {N : Num}.
  Variable K : Kernel N.
  Hypothesis nleb_total : forall a b : N, nleb a b = true \/ nleb b a = true.
  Hypothesis nleb_trans : forall a b c : N, nleb a b = true -> nleb b c = true -> nleb a c = true.

  Definition all_some (l : list (option N)) : bool :=
    forallb (fun o => match o with Some _ => true | None => false end) l.

  Theorem step_fit_defined (s : st (N:=N)) x veto m eps :
    (forall w, In w (W s) -> k_choice K (W s) x w <> None) ->
    (forall w, In w (W s) -> all_some (k_match K x w) = true) ->
    (forall w, In w (W s) -> k_update K x w <> None) ->
    k_new K x <> None ->
    step_fit K s x veto m eps <> None.
  Proof.
    intros Hc Hm Hu Hn. unfold step_fit. cbn [bump W rho].
    destruct (W s) as [|w0 Ws] eqn:EW.
    - destruct (k_new K x); cbn; [discriminate|congruence].
    - set (Wl := w0 :: Ws) in *.
      destruct (activations K Wl x _) as [Ts|] eqn:EA; cbn [obind].
      2:{ exfalso. unfold activations in EA. revert EA. apply omapi_defined.
          intros k a Hk. match goal with |- context[if ?b then _ else _] => destruct b end; [|discriminate].
          destruct (k_choice K Wl x a) eqn:E; cbn; [discriminate|]. exfalso. eapply Hc; [eapply nth_error_In; eauto|exact E]. }
      assert (LT : length Ts = length Wl) by (eapply omapi_length; exact EA).
      rewrite search_eq_scan.
      match goal with |- context[scan ?a ?b ?c ?d ?e] => destruct (scan a b c d e) as [[win v'] log] eqn:ES end.
      assert (Hrange : forall c, In c (order nleb (length Wl) Ts) -> c < length Wl).
      { intros c Hin. destruct (order_sound N nleb nleb_total nleb_trans _ _ _ Hin) as [t Ht].
        unfold live in Ht. rewrite <- LT. apply nth_error_Some. congruence. }
      assert (HL : log_undef (map (k_match K x) Wl) log = false).
      { unfold log_undef. apply not_true_is_false. intros Hex. apply existsb_exists in Hex as (e & Hin & He).
        assert (Hlt : fst e < length Wl).
        { apply Hrange. eapply scan_log_in. rewrite ES. exact Hin. }
        destruct (nth_error Wl (fst e)) as [w|] eqn:Ew; [|apply nth_error_None in Ew; lia].
        rewrite nth_error_map in He. unfold wt in He. rewrite Ew in He. cbn [option_map] in He.
        apply existsb_exists in He as (o & Ho & Hn'). specialize (Hm w (nth_error_In _ _ Ew)).
        unfold all_some in Hm. rewrite forallb_forall in Hm. specialize (Hm o Ho). destruct o; discriminate. }
      rewrite HL.
      destruct win as [cw|].
      + cbn [set_rho bump W]. rewrite EW. fold Wl.
        assert (Hlt : cw < length Wl).
        { apply Hrange. assert (Hw : fst (fst (scan _ _ _ (order nleb (length Wl) Ts) (rho s))) = Some cw) by (rewrite ES; reflexivity).
          apply scan_win_props in Hw. apply Hw. }
        destruct (nth_error Wl cw) as [w|] eqn:Ew; [|apply nth_error_None in Ew; lia]. cbn [obind].
        destruct (k_update K x w) eqn:Eu; cbn [obind]; [discriminate|].
        exfalso. eapply Hu; [eapply nth_error_In; eauto|exact Eu].
      + destruct (k_new K x); cbn [obind]; [discriminate|congruence].
  Qed.
End Total.

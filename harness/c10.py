"""C10 - FusionART is the channel-wise conjunction of its modules.
Proof: props/C10.v.  Correspondence: FusionART histories (1-4 channels,
Fuzzy / ART2-A modules, dyadic gammas, reset functions, all modes) vs the
fused Gallina kernel.  Failing-input search on the implementation: public
category_choice / match_criterion_bin vs the modules', every channel stores
what its module alone computes on the slices of its members, equal category
counts, fused weight = concatenation, one channel with gamma=1 = bare module,
channel permutation invariance; also modules whose weight is longer than the
channel."""
import copy
import sys
import operator

import numpy as np

import common as C
import basefam as B
import fusfam as F
import kernfam as K
import flow


def oracle(f, ops):
    fails = []
    est = F.make_fusion(f)
    n = len(f["ks"])

    def rep(sig, what, i=None):
        return {"signature": f"FusionART/{sig}", "text": what, "replay": dict(F.summary_f(f, ops), failing_op=i)}
    presented = []
    for i, o in enumerate(ops):
        X = np.array(o["X"], dtype=float)
        if o["op"] not in ("fit", "partial_fit"):
            continue
        veto = None
        if o.get("veto"):
            keys, _ = B.row_keys(X)
            veto = B.Veto(est, o["veto"]["tbl"], o["veto"]["a"], o["veto"]["b"], keys)
        try:
            getattr(est, o["op"])(X, match_reset_func=veto, match_tracking=o["mode"], epsilon=float(o["eps"]))
        except Exception as e:
            return fails
        presented = list(X) if o["op"] == "fit" else presented + list(X)
        # structure
        counts = [len(m.W) for m in est.modules]
        if len(set(counts)) != 1:
            fails.append(rep("same-count", f"channels hold different numbers of categories {counts}", i)); return fails
        for c, w in enumerate(est.W):
            if not np.array_equal(w, np.concatenate([m.W[c] for m in est.modules])):
                fails.append(rep("concat", "fused weight is not the concatenation of the channel weights", i)); return fails
        # every channel stores what its module alone computes on the slices of the members
        labels = [int(v) for v in est.labels_]
        for k, m in enumerate(est.modules):
            lo, hi = est._channel_indices[k]
            for c in range(counts[0]):
                ms = [presented[j][lo:hi] for j in range(len(labels)) if labels[j] == c]
                w = m.new_weight(ms[0], m.params)
                for x in ms[1:]:
                    T, cache = m.category_choice(x, w, params=m.params)
                    M, cache = m.match_criterion(x, w, params=m.params, cache=cache)
                    w = m.update(x, w, m.params, cache=cache)
                if not np.allclose(np.asarray(w, dtype=float), np.asarray(m.W[c], dtype=float), atol=1e-12):
                    fails.append(rep("channel-refines", f"channel {k} category {c} is not the fold of the module's own rule over its members", i)); return fails
        # public category_choice / match_criterion_bin vs the modules
        for x in X[:3]:
            for w in est.W[:3]:
                T, cache = est.category_choice(x, w, params=est.params)
                parts = []
                bins = []
                for k, m in enumerate(est.modules):
                    lo, hi = est._channel_indices[k]
                    t, ck = m.category_choice(x[lo:hi], w[lo:hi], params=m.params)
                    parts.append(float(t) * float(est.params["gamma_values"][k]))
                    mb, _ = m.match_criterion_bin(x[lo:hi], w[lo:hi], params=m.params, cache=ck, op=operator.ge)
                    bins.append(bool(mb))
                if abs(float(T) - sum(parts)) > 1e-12:
                    fails.append(rep("choice-sum", f"activation {T} != gamma-weighted sum {sum(parts)}", i)); return fails
                mb, _ = est.match_criterion_bin(x, w, params=est.params, cache=cache, op=operator.ge)
                if bool(mb) != all(bins):
                    fails.append(rep("match-all", "fused match test is not the conjunction of the channel tests", i)); return fails
    return fails


def bare_vs_one_channel(rng):
    kind = rng.choice(["Fuzzy", "ART2A"])
    k, rows = B.gen_kernel_and_rows(rng, kind, nmax=12)
    X = np.array(rows, dtype=float)
    import artlib
    bare = B.make_est(k)
    # "any gamma vector": a list, an integer, an array of any float width
    gform = rng.choice(["list", "list", "int", "f64", "f32", "f16"])
    gam = {"list": [1.0], "int": [1], "f64": np.array([1.0]), "f32": np.array([1.0], dtype=np.float32), "f16": np.array([1.0], dtype=np.float16)}[gform]
    if gform in ("f32", "f16") and kind == "Fuzzy":
        # near-tie activations (tiny choice parameter, continuous data) are where a narrower product shows
        k = dict(k); k["alpha"] = 1e-7
        bare = B.make_est(k)
        X = np.array([[rng.random() for _ in range(X.shape[1] // 2)] for _ in range(20)])
        X = np.hstack([X, 1.0 - X])
    fus = artlib.FusionART([B.make_est(k)], gam, [X.shape[1]])
    mode, eps = B.gen_mode(rng)
    bare.fit(X, match_tracking=mode, epsilon=float(eps))
    fus.fit(X, match_tracking=mode, epsilon=float(eps))
    ok = list(bare.labels_) == list(fus.labels_) and len(bare.W) == len(fus.W) and all(np.array_equal(a, b) for a, b in zip(bare.W, fus.W))
    if not ok:
        return {"signature": "FusionART/one-channel-bare", "text": "one-channel FusionART with gamma=1 differs from the bare module",
                "replay": {"kernel": {kk: str(vv) for kk, vv in k.items()}, "X": X.tolist(), "mode": mode, "eps": str(eps), "gamma_given_as": gform}}
    return None


def fused_weight_assigned_back(rng):
    """'the fused weight is the concatenation of the channel weights' through the public W attribute in both directions:
    assigning a trained model's own fused weights back (what prune / shrink-style callers do) leaves every channel's
    weights, the category counts and the predictions as they were"""
    import artlib
    kinds = [rng.choice(["Fuzzy", "Hyper", "ART1", "Gauss"]) for _ in range(rng.choice([2, 3]))]
    d = 2
    mods, cols = [], []
    n = rng.randrange(6, 14)
    for kd in kinds:
        p = K.gen_params(rng, kd, d)
        if kd == "ART1" and p["L"] == 1.0:
            p["L"] = 2.0
        if kd in ("Fuzzy", "Hyper") and p["alpha"] == 0.0:
            p["alpha"] = 1e-3
        mods.append(K.make(kd, p)); cols.append(K.gen_data(rng, kd, n, d))
    g = {2: [0.5, 0.5], 3: [0.5, 0.25, 0.25]}[len(kinds)]
    X = np.hstack(cols)
    rep = {"modules": kinds, "X": X.tolist(), "gammas": g, "channel_dims": [c.shape[1] for c in cols], "how": "fit(X); est.W = est.W"}
    try:
        est = artlib.FusionART(mods, g, [c.shape[1] for c in cols])
        with np.errstate(all="ignore"), C.time_limit(10):
            est.fit(X)
            before = [[np.array(w, dtype=float).copy() for w in m.W] for m in est.modules]
            pred = [int(v) for v in est.predict(X)]
            est.W = est.W
            after = [[np.array(w, dtype=float) for w in m.W] for m in est.modules]
            same = all(len(a) == len(b) and all(x.shape == y.shape and np.array_equal(x, y) for x, y in zip(a, b)) for a, b in zip(before, after))
            if not same:
                return {"signature": "FusionART/fused-weight-assignment", "text": "after est.W = est.W the channel modules hold "
                        f"{[len(a) for a in after]} weights of lengths {[len(a[0]) if a else 0 for a in after]} (before: {[len(b) for b in before]} of lengths {[len(b[0]) for b in before]})", "replay": rep}
            if [int(v) for v in est.predict(X)] != pred:
                return {"signature": "FusionART/fused-weight-assignment", "text": "predictions changed after est.W = est.W", "replay": rep}
    except Exception as e:
        return {"signature": "FusionART/fused-weight-assignment", "text": f"{type(e).__name__}: {str(e)[:80]}", "replay": rep}
    return None


def supervised_one_channel(rng):
    """with a reset function (SimpleARTMAP's class veto) and every match-tracking mode: a one-channel FusionART with
    gamma = 1 as the A side behaves exactly like the bare module as the A side, and after the call every channel module
    has its configured hyper-parameters again"""
    import artlib, copy
    kind = rng.choice(["Fuzzy", "Fuzzy", "ART2A"])
    k, rows = B.gen_kernel_and_rows(rng, kind, nmax=12)
    X = np.array(rows, dtype=float)
    y = np.array([rng.randrange(2) for _ in rows])
    mode, eps = B.gen_mode(rng)
    fus = artlib.FusionART([B.make_est(k)], [1.0], [X.shape[1]])
    p0 = copy.deepcopy(fus.modules[0].params)
    a, b = artlib.SimpleARTMAP(B.make_est(k)), artlib.SimpleARTMAP(fus)
    rep = {"kernel": {kk: str(vv) for kk, vv in k.items()}, "X": X.tolist(), "y": y.tolist(), "mode": mode, "eps": str(eps)}
    try:
        ra = rb = None
        try:
            a.fit(X, y, match_tracking=mode, epsilon=float(eps)); ra = "ok"
        except Exception as e:
            ra = type(e).__name__
        try:
            b.fit(X, y, match_tracking=mode, epsilon=float(eps)); rb = "ok"
        except Exception as e:
            rb = type(e).__name__
        if ra != rb:
            return {"signature": "FusionART/one-channel-bare-supervised", "text": f"SimpleARTMAP over the bare module: {ra}; over the one-channel FusionART: {rb}", "replay": rep}
        if repr(sorted(fus.modules[0].params.items())) != repr(sorted(p0.items())):
            return {"signature": "FusionART/channel-params-restored", "text": f"after SimpleARTMAP.fit the channel module's hyper-parameters are {fus.modules[0].params}, configured {p0}", "replay": rep}
        if ra == "ok" and (list(a.module_a.labels_) != list(fus.labels_) or len(a.module_a.W) != len(fus.W)
                           or not all(np.array_equal(u, v) for u, v in zip(a.module_a.W, fus.W))):
            return {"signature": "FusionART/one-channel-bare-supervised", "text": "as the A side of SimpleARTMAP a one-channel FusionART with gamma=1 differs from the bare module", "replay": rep}
    except Exception as e:
        return {"signature": "FusionART/one-channel-bare-supervised", "text": f"{type(e).__name__}: {str(e)[:80]}", "replay": rep}
    return None


def permutation(rng):
    f = F.gen_fusion(rng, nch=rng.choice([2, 3]))
    n = len(f["ks"])
    perm = list(range(n)); rng.shuffle(perm)
    X = np.array(f["X"], dtype=float)
    est = F.make_fusion(f)
    pos = []
    s = 0
    for d in f["dims"]:
        pos.append((s, s + d)); s += d
    f2 = {"ks": [f["ks"][p] for p in perm], "gammas": [f["gammas"][p] for p in perm], "dims": [f["dims"][p] for p in perm]}
    X2 = np.hstack([X[:, pos[p][0]:pos[p][1]] for p in perm])
    est2 = F.make_fusion(f2)
    est.fit(X); est2.fit(X2)
    if list(est.labels_) != list(est2.labels_):
        return {"signature": "FusionART/permutation", "text": "permuting channels with their gammas and widths changed the clustering",
                "replay": dict(F.summary_f(f, [{"op": "fit", "X": f["X"]}]), perm=perm)}
    return None


def dtype_variants(rng):
    """the same binary (0/1, complement-coded) rows handed over as int64, bool-like uint8, float32 and float64 arrays:
    every channel stores what its Fuzzy ART module alone computes on the float values (slow learning makes the stored
    weights fractional)"""
    import artlib
    nch = rng.choice([1, 2])
    ds = [rng.choice([1, 2, 3]) for _ in range(nch)]
    n = rng.randrange(4, 12)
    raw = [np.array([[rng.randrange(2) for _ in range(d)] for _ in range(n)]) for d in ds]
    Xi = np.hstack([np.hstack([r, 1 - r]) for r in raw])
    rhos = [rng.choice([0.0, 0.25, 0.5]) for _ in ds]
    beta = rng.choice([0.5, 0.25, 0.75])
    g = [1.0] if nch == 1 else [0.5, 0.5]

    def run(X):
        est = artlib.FusionART([artlib.FuzzyART(r, 1e-3, beta) for r in rhos], g, [2 * d for d in ds])
        est.fit(X)
        return [int(v) for v in est.labels_], [np.asarray(w, dtype=float) for w in est.W]
    try:
        ref = run(Xi.astype(float))
        for dt in (np.int64, np.uint8, np.float32):
            got = run(Xi.astype(dt))
            if got[0] != ref[0] or len(got[1]) != len(ref[1]) or any(not np.allclose(a, b, atol=1e-6) for a, b in zip(got[1], ref[1])):
                return {"signature": "FusionART/input-dtype", "text": f"rows given as {np.dtype(dt).name} are not learned as the same values given as float64 (each channel stores what its module's rule computes)",
                        "replay": {"X": Xi.tolist(), "dtype": np.dtype(dt).name, "rhos": rhos, "beta": beta, "gammas": g, "channel_dims": [2 * d for d in ds]}}
    except Exception as e:
        return {"signature": "FusionART/input-dtype", "text": f"{type(e).__name__}: {str(e)[:80]}", "replay": {"X": Xi.tolist(), "rhos": rhos, "beta": beta}}
    return None


def dtype_variants_any(rng):
    """binary rows handed to a FusionART whose channels include a module whose NEW weight is not a copy of the sample
    (ART1's bottom-up part, Gaussian ART's sigma / inverse, QuadraticNeuron's identity matrix and s_init): as int64, uint8
    and bool arrays they are learned exactly as the same values given as float64 - a new category is initialised from
    its sample by the modules' own rules, whatever container the sample arrives in"""
    import artlib
    d = rng.choice([2, 3])
    n = rng.randrange(4, 10)
    kind = rng.choice(["ART1", "ART1", "Gauss", "Quad"])
    raw = np.array([[rng.randrange(2) for _ in range(d)] for _ in range(n)])
    for r in raw:
        if not r.any():
            r[rng.randrange(d)] = 1
    rho_f = rng.choice([0.0, 0.25, 0.5])
    with_fuzzy = rng.random() < 0.5
    p = {"ART1": dict(rho=rng.choice([0.0, 0.3, 0.5]), L=rng.choice([1.5, 2.0, 3.0])),
         "Gauss": dict(rho=rng.choice([0.0, 0.1]), sigma_init=np.array([0.5] * d), alpha=1e-3),
         "Quad": dict(rho=rng.choice([0.0, 0.3]), s_init=0.5, lr_b=0.5, lr_w=0.1, lr_s=0.05)}[kind]
    Xi = np.hstack([raw, raw, 1 - raw]) if with_fuzzy else raw

    def run(X):
        mods = [K.make(kind, p)] + ([artlib.FuzzyART(rho_f, 1e-3, 1.0)] if with_fuzzy else [])
        est = artlib.FusionART(mods, [0.5, 0.5] if with_fuzzy else [1.0], [d, 2 * d] if with_fuzzy else [d])
        with np.errstate(all="ignore"):
            est.fit(X)
        return [int(v) for v in est.labels_], [np.asarray(w, dtype=float) for w in est.W]
    rep = {"module": kind, "params": {k_: (np.asarray(v_).tolist() if isinstance(v_, np.ndarray) else v_) for k_, v_ in p.items()}, "with_fuzzy_channel": with_fuzzy, "X": Xi.tolist()}
    try:
        ref = run(Xi.astype(float))
        for dt in (np.int64, np.uint8, bool, np.float32, np.float16):
            got = run(Xi.astype(dt))
            tol = 1e-9 if dt not in (np.float32, np.float16) else 1e-2
            if got[0] != ref[0] or len(got[1]) != len(ref[1]) or any(a.shape != b.shape or not np.allclose(a, b, atol=tol, equal_nan=True) for a, b in zip(got[1], ref[1])):
                return {"signature": "FusionART/input-dtype", "text": f"rows given as {np.dtype(dt).name}: labels {got[0]}, as float64: {ref[0]}"
                        + ("" if got[0] != ref[0] else "; the stored weights differ (a new category is not initialised from its sample by the module's rule)"),
                        "replay": dict(rep, dtype=np.dtype(dt).name)}
    except Exception as e:
        return {"signature": "FusionART/input-dtype", "text": f"{type(e).__name__}: {str(e)[:80]}", "replay": rep}
    return None


def long_weight(rng):
    """modules whose weight vector is longer than the channel width"""
    import artlib
    kind = rng.choice(["Hyper", "Gauss", "ART1", "Ellip", "Bayes", "Quad"])
    d = 2
    p = K.gen_params(rng, kind, d)
    if kind == "ART1" and p["rho"] == 0.0 and p["L"] == 1.0:
        p["L"] = 2.0
    if kind in ("Hyper", "Ellip") and p["rho"] == 0.0 and p["alpha"] == 0.0:
        p["alpha"] = 1e-3
    X1 = K.gen_data(rng, kind, 8, d)
    Xf = K.gen_data(rng, "Fuzzy", 8, 1)
    try:
        est = artlib.FusionART([K.make(kind, p), artlib.FuzzyART(0.5, 1e-3, 1.0)], [0.5, 0.5], [d, 2])
        X = np.hstack([X1, Xf])
        with np.errstate(all="ignore"), C.time_limit(10):
            est.fit(X)
        # every channel stores what its module alone computes on the slices of the members
        labels = [int(v) for v in est.labels_]
        m = est.modules[0]
        for c in range(len(m.W)):
            ms = [X1[j] for j in range(len(labels)) if labels[j] == c]
            alone = K.make(kind, p)
            alone.dim_ = d
            alone.W = [np.array(a, dtype=float) for a in m.W]      # priors (Gaussian/Bayesian) read the stored counts
            w = alone.new_weight(ms[0], alone.params)
            for x in ms[1:]:
                T, cache = alone.category_choice(x, w, params=alone.params)
                M, cache = alone.match_criterion(x, w, params=alone.params, cache=cache)
                w = alone.update(x, w, alone.params, cache=cache)
            if len(w) != len(m.W[c]) or not np.allclose(np.asarray(w, dtype=float), np.asarray(m.W[c], dtype=float), atol=1e-9, equal_nan=False):
                return {"signature": "FusionART/weight-longer-than-channel",
                        "text": f"{kind} channel category {c} is not what the module alone computes on its members",
                        "replay": {"kind": kind, "X": X.tolist()}}
    except Exception as e:
        return {"signature": "FusionART/weight-longer-than-channel", "text": f"{kind} channel: {type(e).__name__}: {str(e)[:80]}",
                "replay": {"kind": kind}}
    return None


def fresh_module_replay(rng):
    """a fused model with a channel of ANY module class is the conjunction of what the modules compute - where "the module"
    is a freshly constructed instance that is only given the channel's current weights, so nothing a channel module keeps
    between calls (a cached normaliser, a counter that only its own training loop advances) can enter the reference.  The
    whole training call is replayed sample by sample: activation = gamma-weighted sum, candidates by falling activation,
    first one every channel accepts learns channel-wise, else a new category; labels and weights must agree."""
    import operator
    import artlib
    kind = rng.choice(["Gauss", "Gauss", "Bayes", "Hyper", "Ellip", "ART2A", "Quad", "ART1"])
    d = 2
    p = K.gen_params(rng, kind, d)
    if kind == "ART1" and p["L"] == 1.0:
        p["L"] = 2.0
    if kind in ("Hyper", "Ellip") and p["rho"] == 0.0 and p["alpha"] == 0.0:
        p["alpha"] = 1e-3
    n = rng.randrange(6, 30)
    X1 = K.gen_data(rng, kind, n, d)
    Xf = K.gen_data(rng, "Fuzzy", n, 1)
    gam = rng.choice([[0.5, 0.5], [0.25, 0.75], [0.875, 0.125]])
    fz = dict(rho=rng.choice([0.0, 0.5, 0.75]), alpha=1e-3, beta=1.0)
    X = np.hstack([X1, Xf])
    rep = {"kind": kind, "params": {k: (np.asarray(v).tolist() if isinstance(v, np.ndarray) else v) for k, v in p.items()}, "fuzzy": fz, "gamma": gam, "X": X.tolist()}
    how = rng.choice(["fit", "partial_fit x2"])
    rep["how"] = how

    def fresh(ws):
        a = K.make(kind, p)
        a.dim_ = d
        a.W = [np.array(w, dtype=float) for w in ws]
        b = artlib.FuzzyART(fz["rho"], fz["alpha"], fz["beta"])
        b.dim_, b.dim_original = 2, 1.0
        return a, b
    try:
        est = artlib.FusionART([K.make(kind, p), artlib.FuzzyART(fz["rho"], fz["alpha"], fz["beta"])], gam, [d, 2])
        with np.errstate(all="ignore"), C.time_limit(20):
            if how == "fit":
                est.fit(X)
            else:
                h = n // 2
                est.partial_fit(X[:h])
                est.partial_fit(X[h:])
            # the reference
            Wa, Wb, labels = [], [], []
            for x in X:
                xa, xb = x[:d], x[d:]
                a, b = fresh(Wa)
                cand = []
                for c in range(len(Wa)):
                    ta, ca = a.category_choice(xa, a.W[c], params=a.params)
                    tb, cb = b.category_choice(xb, Wb[c], params=b.params)
                    cand.append((gam[0] * float(ta) + gam[1] * float(tb), c, ca, cb))
                win = None
                for T, c, ca, cb in sorted((q for q in cand if not np.isnan(q[0])), key=lambda q: (-q[0], q[1])):
                    oka, ca = a.match_criterion_bin(xa, a.W[c], params=a.params, cache=ca, op=operator.ge)
                    okb, cb = b.match_criterion_bin(xb, Wb[c], params=b.params, cache=cb, op=operator.ge)
                    if oka and okb:
                        win = (c, ca, cb)
                        break
                if win is None:
                    Wa.append(np.asarray(a.new_weight(xa, a.params), dtype=float))
                    Wb.append(np.asarray(b.new_weight(xb, b.params), dtype=float))
                    labels.append(len(Wa) - 1)
                else:
                    c, ca, cb = win
                    Wa[c] = np.asarray(a.update(xa, a.W[c], a.params, cache=ca), dtype=float)
                    Wb[c] = np.asarray(b.update(xb, Wb[c], b.params, cache=cb), dtype=float)
                    labels.append(c)
            got = [int(v) for v in est.labels_]
            if not all(np.all(np.isfinite(w)) for w in Wa):
                return None
            if got != labels:
                k0 = next(i for i in range(min(len(got), len(labels))) if got[i] != labels[i]) if len(got) == len(labels) else -1
                return {"signature": "FusionART/fresh-module-replay", "text": f"FusionART([{kind}, FuzzyART]).{how}: labels {got} differ from the channel-wise replay with freshly constructed modules {labels} (first at sample {k0})", "replay": rep}
            for c, w in enumerate(est.W):
                ref = np.concatenate([Wa[c], Wb[c]])
                if len(w) != len(ref) or not np.allclose(np.asarray(w, dtype=float), ref, rtol=1e-9, atol=1e-12):
                    return {"signature": "FusionART/fresh-module-replay", "text": f"FusionART([{kind}, FuzzyART]).{how}: weight of category {c} differs from the channel-wise replay with freshly constructed modules", "replay": rep}
            # and the public activation of the fitted model, against fresh modules
            a, b = fresh(Wa)
            for x in X[:3]:
                for c, w in enumerate(est.W[:4]):
                    T, _ = est.category_choice(x, w, params=est.params)
                    ta, _ = a.category_choice(x[:d], a.W[c], params=a.params)
                    tb, _ = b.category_choice(x[d:], Wb[c], params=b.params)
                    want = gam[0] * float(ta) + gam[1] * float(tb)
                    if np.isfinite(want) and not np.isclose(float(T), want, rtol=1e-9, atol=1e-12):
                        return {"signature": "FusionART/fresh-module-replay", "text": f"FusionART([{kind}, FuzzyART]): activation {float(T)!r} of category {c} is not the gamma-weighted sum {want!r} of what freshly constructed modules compute on the channel weights", "replay": rep}
    except (AssertionError, TimeoutError):
        return None
    except Exception as e:
        return {"signature": "FusionART/fresh-module-replay-raises", "text": f"{kind} channel: {type(e).__name__}: {str(e)[:80]}", "replay": rep}
    return None


def main():
    tier = sys.argv[1] if len(sys.argv) > 1 else "quick"
    seed = C.seed_from_env()
    v = C.Verdict("C10", tier, seed)
    gate_ok, ob = C.proof_gate(v, "C10.v")
    rng = C.make_rng(seed, "C10")
    n = 350 if tier == "quick" else 3500
    strs, summ, fails, nontriv, hashes = [], [], [], 0, set()
    stats = {"channels": {}, "with_veto": 0}
    for _ in range(n):
        f, ops = F.gen_fhistory(rng)
        est, obs = F.run_fcase(f, ops)
        strs.append(F.fcase_coq(f, ops[:len(obs)], obs))
        s = F.summary_f(f, ops)
        summ.append(s)
        h = C.case_hash(s)
        if obs[-1].get("snap") and len(obs[-1]["snap"]["W"]) >= 2 and h not in hashes:
            nontriv += 1
        hashes.add(h)
        stats["channels"][len(f["ks"])] = stats["channels"].get(len(f["ks"]), 0) + 1
        stats["with_veto"] += 1 if ops[0].get("veto") else 0
        fails.extend(oracle(f, ops))
    for _ in range(60 if tier == "quick" else 600):
        for g in (bare_vs_one_channel, supervised_one_channel, permutation, long_weight, dtype_variants, dtype_variants_any, fused_weight_assigned_back, fresh_module_replay, fresh_module_replay):
            r = g(rng)
            if r:
                fails.append(r)
    codes, bad = flow.coq_corr("C10", "RunFusion", strs, shard=60, check_fn="fcheck", extra_imports="From ARTcorr Require Import RunBase.\n")
    for b in bad:
        v.notes.append("coq shard failed: " + b[-600:])

    def extended():
        out = []
        r2 = C.make_rng(seed, "C10-ext")
        for _ in range(1500):
            f, ops = F.gen_fhistory(r2)
            out.extend(oracle(f, ops))
            if len(out) >= 3:
                break
        return out
    flow.decide(v, "C10", gate_ok, ob, list(zip(codes, summ)), fails, extended)
    v.cov.update({
        "evaluations": n, "distinct_nontrivial": nontriv,
        "rule": "FusionART with 1-4 channels of Fuzzy / ART2-A modules on grid data, dyadic gamma vectors summing to 1, fit / partial_fit batchings, 5 modes, table reset functions; "
                "plus one-channel-vs-bare, channel permutations and long-weight modules on the implementation; non-trivial = distinct history reaching >= 2 categories",
        "traces_validated_against_impl": sum(1 for x in codes if x == 0),
        "distribution": stats, "samples": summ[:1]})
    v.assumptions = ["theorems assume each module's weight is as long as its channel (Fuzzy, ART2-A); other modules: known finding",
                     "channel-permutation invariance is checked on the implementation only (exact on dyadic data)"]
    v.cov["added_after_wave_7"] = 'fresh_module_replay: whole fused fit / two partial fits replayed with freshly constructed modules given only the channel weights (Gaussian, Bayesian, Hypersphere, Ellipsoid, ART2-A, QuadraticNeuron, ART1 channel + Fuzzy channel): labels, weights, public activation'
    sys.exit(v.finish())


if __name__ == "__main__":
    main()

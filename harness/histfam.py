"""Histories (sequences of fit / partial_fit / predict calls) on BaseART-derived
elementary estimators; shared by C05, C06, C07, C08."""
from fractions import Fraction

import numpy as np

import common as C
import basefam as B
import flow


def gen_history(rng, kinds=("Fuzzy", "Fuzzy", "ART2A"), allow_predict=True, nmax=14):
    kind = rng.choice(kinds)
    k, rows = B.gen_kernel_and_rows(rng, kind, nmax=nmax)
    mode, eps = B.gen_mode(rng)
    veto = B.gen_veto(rng) if rng.random() < 0.5 else None
    shape = rng.choice(["fit", "pf", "pf1", "fit+pf", "pf+fit", "fit+fit", "mixed"])
    ops = []

    def tr(op, X):
        return {"op": op, "X": X, "mode": mode, "eps": eps, "veto": veto}

    if shape == "fit":
        ops = [tr("fit", rows)]
    elif shape == "pf":
        ops = [tr("partial_fit", b) for b in B.split_batches(rng, rows, rng.randrange(1, 5))]
    elif shape == "pf1":
        ops = [tr("partial_fit", [r]) for r in rows[:8]]
    elif shape == "fit+pf":
        h = max(1, len(rows) // 2)
        ops = [tr("fit", rows[:h])] + [tr("partial_fit", b) for b in B.split_batches(rng, rows[h:] or rows[:1], 2)]
    elif shape == "pf+fit":
        h = max(1, len(rows) // 2)
        ops = [tr("partial_fit", rows[:h]), tr("fit", rows[h:] or rows[:1])]
    elif shape == "fit+fit":
        h = max(1, len(rows) // 2)
        ops = [tr("fit", rows[:h]), tr("fit", list(reversed(rows)))]
    else:
        parts = B.split_batches(rng, rows, rng.randrange(2, 5))
        ops = [tr(rng.choice(["fit", "partial_fit", "partial_fit"]), p) for p in parts]
    if allow_predict:
        out = []
        for o in ops:
            out.append(o)
            if rng.random() < 0.4:
                q = [list(rng.choice(rows)) for _ in range(rng.randrange(1, 5))]
                out.append({"op": "predict", "X": q})
        ops = out
    return k, ops


def nontrivial(obs):
    return any(r.get("snap") and len(r["snap"]["W"]) >= 2 for r in obs)


def run_family(prop, tier, seed, n_quick, n_thorough, gen, oracle, rule, assumptions, propfile=None,
               ext_gen=None, site_known=None, any_kernel_oracle=True):
    """generic flow for the base-family properties"""
    v = C.Verdict(prop, tier, seed)
    gate_ok, ob = C.proof_gate(v, propfile or f"{prop}.v")
    rng = C.make_rng(seed, prop)
    n_cases = n_quick if tier == "quick" else n_thorough
    strs, summaries, hashes = [], [], set()
    nontriv = 0
    fails = []
    stats = {"ops": {}, "kinds": {}, "undef_cases": 0, "n_ops": 0}
    for _ in range(n_cases):
        k, ops = gen(rng)
        est, obs = B.run_ops(k, ops)
        strs.append(B.case_coq(k, ops[:len(obs)], obs))
        summ = B.summary(k, ops)
        summaries.append(summ)
        h = C.case_hash(summ)
        if nontrivial(obs) and h not in hashes:
            nontriv += 1
        hashes.add(h)
        for o in ops:
            stats["ops"][o["op"]] = stats["ops"].get(o["op"], 0) + 1
        stats["n_ops"] += len(ops)
        stats["kinds"][k["kind"]] = stats["kinds"].get(k["kind"], 0) + 1
        stats["undef_cases"] += 0 if obs[-1]["ok"] else 1
        fails.extend(oracle(k, ops))
    # the same oracle on all eight modules with float data (no exact model run for these: implementation-side only)
    n_any = 0
    if any_kernel_oracle:
        rng_any = C.make_rng(seed, prop + "-any")
        for _ in range(max(50, n_cases // 3)):
            k, ops = B.gen_any_history(rng_any)
            try:
                fails.extend(oracle(k, ops))
                n_any += 1
            except Exception as e:
                v.notes.append(f"oracle raised on an any-kernel history: {type(e).__name__}: {str(e)[:80]}")
    codes, bad = flow.coq_corr(prop, "RunBase", strs)
    for b in bad:
        v.notes.append("coq shard failed: " + b[-600:])

    def extended():
        out = []
        rng2 = C.make_rng(seed, prop + "-ext")
        g = ext_gen or gen
        for _ in range(4 * n_cases):
            k, ops = g(rng2)
            out.extend(oracle(k, ops))
            if len(out) >= 3:
                break
        return out

    flow.decide(v, prop, gate_ok, ob, list(zip(codes, summaries)), fails, extended, site_known)
    v.cov.update({
        "evaluations": n_cases,
        "distinct_nontrivial": nontriv,
        "rule": rule,
        "traces_validated_against_impl": sum(1 for c in codes if c == 0),
        "distribution": stats,
        "all_module_oracle_histories": n_any,
        "samples": summaries[:2],
    })
    v.assumptions = assumptions
    return v

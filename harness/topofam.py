"""DualVigilanceART / TopoART cases: generation, driving, emission for corr/RunTopo.v (C13, C14)."""
import contextlib
import io
from fractions import Fraction

import numpy as np

import common as C
import basefam as B
import samfam as S
from common import q, qlist, qmat, natlist, zlist, boollist, coq_list


# ------------------------------------------------------------------ DualVigilanceART
def gen_vcase(rng):
    kind = rng.choice(["Fuzzy", "Fuzzy", "ART2A"])
    k, rows = B.gen_kernel_and_rows(rng, kind, nmax=13)
    if k["rho"] == 0:
        k["rho"] = Fraction(rng.randrange(1, 9), 8)
    lb = Fraction(rng.randrange(0, int(k["rho"] * 8)), 8)
    mode, eps = B.gen_mode(rng)
    veto = B.gen_veto(rng) if rng.random() < 0.4 else None
    shape = rng.choice(["fit", "pf", "fit+pf", "fit+fit"])
    t = lambda op, X: {"op": op, "X": X, "mode": mode, "eps": eps, "veto": veto}
    if shape == "fit":
        ops = [t("fit", rows)]
    elif shape == "pf":
        ops = [t("partial_fit", b) for b in B.split_batches(rng, rows, rng.randrange(1, 4))]
    elif shape == "fit+pf":
        h = max(1, len(rows) // 2)
        ops = [t("fit", rows[:h]), t("partial_fit", rows[h:] or rows[:1])]
    else:
        h = max(1, len(rows) // 2)
        ops = [t("fit", rows[:h]), t("fit", list(reversed(rows)))]
    ops.append({"op": "predict", "X": [list(rng.choice(rows)) for _ in range(rng.randrange(1, 5))]})
    return {"k": k, "lb": lb, "ops": ops}


def make_dv(c):
    import artlib
    return artlib.DualVigilanceART(B.make_est(c["k"]), rho_lower_bound=float(c["lb"]))


def run_vcase(c):
    est = make_dv(c)
    obs = []
    for o in c["ops"]:
        X = np.array(o["X"], dtype=float)
        rec = {"ok": True, "logs": [], "ret": []}
        veto = None
        if o.get("veto") is not None:
            keys, _ = B.row_keys(X)
            veto = B.Veto(est, o["veto"]["tbl"], o["veto"]["a"], o["veto"]["b"], keys)
        try:
            with np.errstate(all="ignore"):
                if o["op"] == "predict":
                    rec["ret"] = [int(v) for v in est.predict(X)]
                else:
                    getattr(est, o["op"])(X, match_reset_func=veto, match_tracking=o["mode"], epsilon=float(o["eps"]))
        except Exception as e:
            rec["ok"] = False
            rec["err"] = type(e).__name__ + ": " + str(e)[:80]
        if veto is not None:
            rec["logs"] = veto.log
        if rec["ok"]:
            rec["b"] = B.snapshot(est.base_module)
            rec["map"] = sorted((int(a), int(b)) for a, b in est.map.items())
            rec["sc"] = int(est.sample_counter_)
            rec["ncl"] = int(est.n_clusters)
        obs.append(rec)
        if not rec["ok"]:
            break
    return est, obs


def vcase_coq(c, obs):
    items = []
    for o, r in zip(c["ops"], obs):
        X = [[Fraction(float(v)) for v in row] for row in o["X"]]
        if o["op"] == "predict":
            op = f"VPredict {qmat(X)}"
        else:
            _, keys = B.row_keys(np.array(o["X"], dtype=float))
            ctor = "VFit" if o["op"] == "fit" else "VPFit"
            op = f"{ctor} {qmat(X)} {natlist(keys)} {B.vspec_coq(o.get('veto'))} {B.MODE_COQ[o['mode']]} {q(o['eps'])}"
        if not r["ok"]:
            ob = "VUndef"
        else:
            ob = (f"(VOk {S.snap_coq(r['b'])} {S.pairs(r['map'])} {r['sc']}%nat {r['ncl']}%nat {B.log_coq(r['logs'])} {natlist(r['ret'])})")
        items.append(f"({op}, {ob})")
    return f"(mkVCase {B.kspec_coq(c['k'])} [{q(c['k']['rho'])}] {q(c['lb'])} {coq_list(items)})"


def summary_v(c):
    return {"estimator": "DualVigilanceART", "base": {k: str(v) for k, v in c["k"].items()}, "rho_lower_bound": str(c["lb"]),
            "ops": [{"op": o["op"], "mode": o.get("mode"), "eps": str(o.get("eps")), "veto": o.get("veto"),
                     "X": [[str(v) for v in r] for r in o["X"]]} for o in c["ops"]]}


# ------------------------------------------------------------------ TopoART
def gen_tcase(rng):
    k, rows = B.gen_kernel_and_rows(rng, "Fuzzy", nmax=rng.choice([10, 16, 24]))
    k["beta"] = rng.choice([Fraction(1), Fraction(1), Fraction(1, 2)])
    blow = rng.choice([b for b in [Fraction(1), Fraction(1, 2), Fraction(1, 4), Fraction(0)] if b <= k["beta"]])
    tau = rng.choice([2, 3, 4, 5, 8])
    phi = rng.choice([p for p in [1, 2, 3, 4] if p <= tau])
    mode, eps = B.gen_mode(rng)
    veto = B.gen_veto(rng) if rng.random() < 0.3 else None
    ops = [{"op": "fit", "X": rows, "mode": mode, "eps": eps, "veto": veto}]
    if rng.random() < 0.3:
        ops.append({"op": "fit", "X": list(reversed(rows))[: max(2, len(rows) // 2)], "mode": mode, "eps": eps, "veto": veto})
    ops.append({"op": "predict", "X": [list(rng.choice(rows)) for _ in range(rng.randrange(1, 5))]})
    return {"k": k, "beta_lower": blow, "tau": tau, "phi": phi, "ops": ops}


def gen_tcase_empty_then_survive(rng):
    """a first pruning round that removes every category (tau isolated samples, phi >= 2), then duplicated samples so
    that later rounds have survivors: orphaned samples (-1) must be re-predicted, not re-indexed"""
    tau = rng.choice([2, 3, 4])
    phi = 2
    d = rng.choice([1, 2])
    den = 8
    pts = []
    while len(pts) < tau + 3:
        r = [Fraction(rng.randrange(0, den + 1), den) for _ in range(d)]
        if r not in pts:
            pts.append(r)
    cc = lambda r: r + [1 - v for v in r]
    rows = [cc(r) for r in pts[:tau]]
    for r in pts[tau:]:
        rows += [cc(r)] * rng.choice([2, 2, 3])
    rows = rows[: tau * rng.choice([2, 3, 4])] if len(rows) > tau * 2 else rows
    k = {"kind": "Fuzzy", "rho": Fraction(7, 8), "alpha": Fraction(1, 1024), "beta": Fraction(1)}
    mode, eps = B.gen_mode(rng)
    ops = [{"op": "fit", "X": rows, "mode": mode, "eps": eps, "veto": None},
           {"op": "predict", "X": [list(rng.choice(rows)) for _ in range(rng.randrange(1, 4))]}]
    return {"k": k, "beta_lower": Fraction(1, 2), "tau": tau, "phi": phi, "ops": ops}


def make_topo(c):
    import artlib
    with contextlib.redirect_stdout(io.StringIO()):
        return artlib.TopoART(B.make_est(c["k"]), beta_lower=float(c["beta_lower"]), tau=int(c["tau"]), phi=int(c["phi"]))


def run_tcase(c):
    est = make_topo(c)
    obs = []
    for o in c["ops"]:
        X = np.array(o["X"], dtype=float)
        rec = {"ok": True, "logs": [], "ret": []}
        veto = None
        if o.get("veto") is not None:
            keys, _ = B.row_keys(X)
            veto = B.Veto(est, o["veto"]["tbl"], o["veto"]["a"], o["veto"]["b"], keys)
        try:
            with np.errstate(all="ignore"), contextlib.redirect_stdout(io.StringIO()):
                if o["op"] == "predict":
                    rec["ret"] = [int(v) for v in est.predict(X)]
                else:
                    est.fit(X, match_reset_func=veto, match_tracking=o["mode"], epsilon=float(o["eps"]))
        except Exception as e:
            rec["ok"] = False
            rec["err"] = type(e).__name__ + ": " + str(e)[:80]
        if veto is not None:
            rec["logs"] = veto.log
        if rec["ok"]:
            rec["b"] = {"W": [[B.fr(v) for v in np.asarray(w, dtype=float).ravel()] for w in est.W], "labels": [],
                        "wsc": [int(v) for v in est.weight_sample_counter_], "sc": int(est.sample_counter_), "rho": B.rho_of(est)}
            rec["labels"] = [int(v) for v in est.labels_]
            A = np.asarray(est.adjacency)
            rec["adj"] = [[int(v) for v in row] for row in A] if A.ndim == 2 else []
            pm = np.asarray(est._permanent_mask)
            rec["perm"] = [bool(v) for v in pm] if pm.ndim == 1 else []
        obs.append(rec)
        if not rec["ok"]:
            break
    return est, obs


def tcase_coq(c, obs):
    items = []
    for o, r in zip(c["ops"], obs):
        X = [[Fraction(float(v)) for v in row] for row in o["X"]]
        if o["op"] == "predict":
            op = f"TPredict {qmat(X)}"
        else:
            _, keys = B.row_keys(np.array(o["X"], dtype=float))
            op = f"TFit {qmat(X)} {natlist(keys)} {B.vspec_coq(o.get('veto'))} {B.MODE_COQ[o['mode']]} {q(o['eps'])}"
        if not r["ok"]:
            ob = "TUndef"
        else:
            ob = (f"(TOk {S.snap_coq(r['b'])} {zlist(r['labels'])} {coq_list([natlist(row) for row in r['adj']])} {boollist(r['perm'])} "
                  f"{B.log_coq(r['logs'])} {zlist(r['ret'])})")
        items.append(f"({op}, {ob})")
    klow = dict(c["k"], beta=c["beta_lower"])
    return (f"(mkTCase {B.kspec_coq(c['k'])} {B.kspec_coq(klow)} [{q(c['k']['rho'])}] {c['tau']}%nat {c['phi']}%nat {coq_list(items)})")


def gen_tcase_epochs(rng):
    """one fit call with max_iter in {2, 3}: later epochs re-present every row; pruning rounds then meet categories
    that survive without owning a sample at the moment (slow learning makes rows change category between epochs)"""
    c = gen_tcase(rng)
    c["k"]["beta"] = rng.choice([Fraction(1, 2), Fraction(1, 2), Fraction(1)])
    c["beta_lower"] = rng.choice([b for b in [Fraction(1, 2), Fraction(1, 4), Fraction(0)] if b <= c["k"]["beta"]])
    o = c["ops"][0]
    c["ops"] = [dict(o, iters=rng.choice([2, 2, 3]))]
    return c


def run_tcase_epochs(c):
    est = make_topo(c)
    o = c["ops"][0]
    X = np.array(o["X"], dtype=float)
    rec = {"ok": True, "logs": [], "ret": []}
    veto = None
    if o.get("veto") is not None:
        keys, _ = B.row_keys(X)
        veto = B.Veto(est, o["veto"]["tbl"], o["veto"]["a"], o["veto"]["b"], keys)
    try:
        with np.errstate(all="ignore"), contextlib.redirect_stdout(io.StringIO()):
            est.fit(X, match_reset_func=veto, match_tracking=o["mode"], epsilon=float(o["eps"]), max_iter=int(o["iters"]))
    except Exception as e:
        rec["ok"] = False
        rec["err"] = type(e).__name__ + ": " + str(e)[:80]
    if veto is not None:
        rec["logs"] = veto.log
    if rec["ok"]:
        rec["b"] = {"W": [[B.fr(v) for v in np.asarray(w, dtype=float).ravel()] for w in est.W], "labels": [],
                    "wsc": [int(v) for v in est.weight_sample_counter_], "sc": int(est.sample_counter_), "rho": B.rho_of(est)}
        rec["labels"] = [int(v) for v in est.labels_]
        A = np.asarray(est.adjacency)
        rec["adj"] = [[int(v) for v in row] for row in A] if A.ndim == 2 else []
        pm = np.asarray(est._permanent_mask)
        rec["perm"] = [bool(v) for v in pm] if pm.ndim == 1 else []
    return est, rec


def tncase_coq(c, r):
    o = c["ops"][0]
    X = [[Fraction(float(v)) for v in row] for row in o["X"]]
    _, keys = B.row_keys(np.array(o["X"], dtype=float))
    if not r["ok"]:
        ob = "TUndef"
    else:
        ob = (f"(TOk {S.snap_coq(r['b'])} {zlist(r['labels'])} {coq_list([natlist(row) for row in r['adj']])} {boollist(r['perm'])} "
              f"{B.log_coq(r['logs'])} [])")
    klow = dict(c["k"], beta=c["beta_lower"])
    return (f"(mkTNCase {B.kspec_coq(c['k'])} {B.kspec_coq(klow)} [{q(c['k']['rho'])}] {c['tau']}%nat {c['phi']}%nat {qmat(X)} {natlist(keys)} "
            f"{B.vspec_coq(o.get('veto'))} {B.MODE_COQ[o['mode']]} {q(o['eps'])} {int(o['iters'])}%nat {ob})")


def summary_t(c):
    return {"estimator": "TopoART", "base": {k: str(v) for k, v in c["k"].items()}, "beta_lower": str(c["beta_lower"]),
            "tau": c["tau"], "phi": c["phi"],
            "ops": [{"op": o["op"], "mode": o.get("mode"), "eps": str(o.get("eps")), "veto": o.get("veto"),
                     "X": [[str(v) for v in r] for r in o["X"]]} for o in c["ops"]]}

"""C20 - VAT returns a Prim-ordered permutation of the dissimilarity matrix.
Proof: props/C20.v (generic in the distance type, axiom-free).
Correspondence: VAT on precomputed dissimilarity matrices (integer and dyadic
distances of point sets with duplicates and equidistant points, also
asymmetric / non-metric matrices) vs the Gallina model at exact rationals.
Failing-input search on the implementation: permutation, start row, Prim
step (an unvisited sample closest to the visited set), matrix = input
re-ordered; also the default Euclidean metric and a custom callable."""
import sys
from fractions import Fraction

import numpy as np

import common as C
import flow
from common import qmat, natlist


def prim_oracle(D, M, perm, what):
    fails = []
    n = len(D)

    def f(sig, text):
        fails.append({"signature": f"VAT/{sig}", "text": text, "replay": {"D": np.asarray(D).tolist(), "perm": [int(p) for p in perm], "input": what}})
    perm = [int(p) for p in perm]
    if sorted(perm) != list(range(n)):
        f("permutation", "index vector is not a permutation of all samples"); return fails
    mx = np.max(D)
    rows = [i for i in range(n) if np.any(D[i] == mx)]
    if perm[0] != rows[0]:
        f("start", f"starts at {perm[0]}, the first row holding a largest dissimilarity is {rows[0]}"); return fails
    for t in range(1, n):
        vis, rem = perm[:t], [j for j in range(n) if j not in perm[:t]]
        best = min(D[i][j] for i in vis for j in rem)
        if min(D[i][perm[t]] for i in vis) != best:
            f("prim-step", f"position {t}: sample {perm[t]} is not closest to the visited set"); return fails
    if not np.array_equal(np.asarray(M), np.asarray(D)[np.ix_(perm, perm)]):
        f("matrix", "returned matrix is not the input re-ordered by the permutation")
    return fails


def gen_matrix(rng):
    n = rng.randrange(2, 9)
    kind = rng.choice(["line", "grid", "sym", "asym", "near", "big"])
    if kind in ("near", "big"):
        # dissimilarities that differ by far less than their size: only exact comparison orders them correctly
        base, step = (1.0, 2.0 ** -30) if kind == "near" else (100000.0, 1.0)
        D = [[0.0] * n for _ in range(n)]
        for i in range(n):
            for j in range(i + 1, n):
                D[i][j] = D[j][i] = base + step * rng.randrange(0, 4)
    elif kind == "line":
        pts = [rng.randrange(0, 8) for _ in range(n)]
        D = [[abs(a - b) for b in pts] for a in pts]
    elif kind == "grid":
        pts = [(rng.randrange(0, 4), rng.randrange(0, 4)) for _ in range(n)]
        D = [[(a[0] - b[0]) ** 2 + (a[1] - b[1]) ** 2 for b in pts] for a in pts]      # squared distances: exact, same order
    elif kind == "sym":
        D = [[0] * n for _ in range(n)]
        for i in range(n):
            for j in range(i + 1, n):
                D[i][j] = D[j][i] = rng.randrange(1, 6) / 4
    else:
        D = [[rng.randrange(0, 6) / 2 if i != j else 0 for j in range(n)] for i in range(n)]
    return np.array(D, dtype=float), kind


def main():
    from artlib.common.VAT import VAT
    tier = sys.argv[1] if len(sys.argv) > 1 else "quick"
    seed = C.seed_from_env()
    v = C.Verdict("C20", tier, seed)
    gate_ok, ob = C.proof_gate(v, "C20.v")
    rng = C.make_rng(seed, "C20")
    n = 500 if tier == "quick" else 5000
    strs, summ, fails = [], [], []
    stats = {}
    for _ in range(n):
        D, kind = gen_matrix(rng)
        stats[kind] = stats.get(kind, 0) + 1
        M, perm = VAT(D, distance_metric=None)
        fails.extend(prim_oracle(D, M, perm, "precomputed " + kind))
        strs.append(f"(mkVat {qmat(D.tolist())} {natlist(perm)} {qmat(np.asarray(M).tolist())})")
        summ.append({"D": D.tolist(), "kind": kind})
    # point sets through the default Euclidean metric and a custom callable (implementation-side only)
    from scipy.spatial.distance import pdist, squareform
    for _ in range(100 if tier == "quick" else 1000):
        m = rng.randrange(2, 9)
        P = np.array([[rng.randrange(0, 4), rng.randrange(0, 4)] for _ in range(m)], dtype=float) * rng.choice([1.0, 1.0, 2.0 ** -30, 2.0 ** 20])
        M, perm = VAT(P)
        fails.extend(prim_oracle(squareform(pdist(P, "euclidean")), M, perm, "points, default metric"))
        M, perm = VAT(P, distance_metric=lambda X: pdist(X, "cityblock"))
        fails.extend(prim_oracle(squareform(pdist(P, "cityblock")), M, perm, "points, custom metric"))
    codes, bad = flow.coq_corr("C20", "RunVAT", strs, shard=120, check_fn="vatcheck")
    for b in bad:
        v.notes.append("coq shard failed: " + b[-600:])
    flow.decide(v, "C20", gate_ok, ob, list(zip(codes, summ)), fails, None)
    v.cov.update({
        "evaluations": n, "distinct_nontrivial": len(set(C.case_hash(s) for s in summ if len(s["D"]) >= 3)),
        "rule": "dissimilarity matrices of 2-8 samples: points on a line / on a 4x4 grid (duplicates and equidistant points frequent), random symmetric and asymmetric matrices; "
                "plus point sets through pdist (Euclidean and a custom callable); non-trivial = distinct matrix with >= 3 samples",
        "traces_validated_against_impl": sum(1 for x in codes if x == 0), "distribution": stats, "samples": summ[:1]})
    v.assumptions = ["scipy's pdist / squareform are used as given", "square input (the permutation theorem states it)"]
    sys.exit(v.finish())


if __name__ == "__main__":
    main()

"""C03 - kernel functions compute the published rules.
Proof: props/C03.v (operator table, Fuzzy geometry accessors, rule shapes).
Correspondence: direct calls of category_choice / match_criterion / update /
new_weight of all eight elementary modules vs the Gallina kernels at the
fixed-point instance (2^-30 relative), get_bounding_box / shrink_clusters at
exact rationals.  Failing-input search on the implementation: purity of the
calls, match_criterion_bin = op(M, rho) per mode, accessors agree with the
stored weight."""
import copy
import operator
import sys
from fractions import Fraction

import numpy as np

import common as C
import basefam as B
import kernfam as K
import flow
from common import q, qlist


def bin_oracle(k, out):
    """binary match = op(M, rho) (reversed for BayesianART)"""
    fails = []
    if out["M"] is None or not out["bins"]:
        return fails
    rho, M = float(k["p"]["rho"]), out["M"]
    inv = k["kind"] == "Bayes"
    want = {"ge": (rho >= M) if inv else (M >= rho), "gt": (rho > M) if inv else (M > rho)}
    for mode in ("ge", "gt"):
        if out["bins"][mode] != want[mode]:
            fails.append({"signature": f"{k['kind']}.match_criterion_bin/{mode}", "text": f"match_criterion_bin({mode}) = {out['bins'][mode]} but M={M}, rho={rho}",
                          "replay": K.summary(k, out)})
    return fails


def operator_table_oracle():
    """the mode -> vigilance-test table of C03_operator_table against the implementation: MT+, MT- and MT1 test M >= rho,
    MT0 and MT~ test M > rho (what the tie M == rho decides); for every estimator class that carries the table"""
    import contextlib, io
    import artlib
    from artlib.cvi.iCVIFuzzyArt import iCVIFuzzyART
    fails = []
    fz = lambda: artlib.FuzzyART(0.5, 1e-3, 1.0)
    with contextlib.redirect_stdout(io.StringIO()):
        ests = [fz(), artlib.ART1(0.5, 2.0), artlib.ART2A(0.5, 0.1, 1.0), artlib.HypersphereART(0.5, 1e-3, 1.0, 1.0), artlib.EllipsoidART(0.5, 1e-3, 1.0, 0.8, 1.0),
                artlib.GaussianART(0.5, np.ones(2)), artlib.BayesianART(0.5, np.eye(2)), artlib.QuadraticNeuronART(0.5, 1.0, 0.1, 0.1, 0.1),
                artlib.FusionART([fz(), fz()], [0.5, 0.5], [2, 2]), artlib.DualVigilanceART(fz(), 0.25), artlib.TopoART(fz(), 0.5, 5, 2), artlib.CVIART(fz(), 1),
                iCVIFuzzyART(0.5, 1e-3, 1.0, 1)]
    strict = {"MT+": False, "MT-": False, "MT1": False, "MT0": True, "MT~": True}
    for est in ests:
        f = getattr(est, "_match_tracking_operator", None)
        if f is None:
            continue
        for mode, st in strict.items():
            try:
                op = f(mode)
                got = (bool(op(1.0, 1.0)), bool(op(2.0, 1.0)), bool(op(1.0, 2.0)))
            except Exception as e:
                got = f"{type(e).__name__}"
            if got != (not st, True, False):
                fails.append({"signature": "BaseART/_match_tracking_operator", "text": f"{type(est).__name__}: mode {mode} tests (M==rho, M>rho, M<rho) -> {got}, the table prescribes {(not st, True, False)}",
                              "replay": {"estimator": type(est).__name__, "mode": mode, "how": "est._match_tracking_operator(mode)(M, rho) at M == rho, M > rho, M < rho"}})
        try:
            f("MT?")
            fails.append({"signature": "BaseART/_match_tracking_operator", "text": f"{type(est).__name__}: an unknown mode is accepted", "replay": {"estimator": type(est).__name__, "mode": "MT?"}})
        except ValueError:
            pass
        except Exception:
            pass
    return fails


def stale_width_check_oracle():
    """hyper-parameters whose validity depends on the data width (GaussianART.sigma_init, BayesianART.cov_init, ART2-A's
    alpha <= 1/sqrt(dim)): a value a freshly constructed model rejects for the data is rejected as well when it arrives
    through set_params after a first fit - the kernels must never run on a misaligned weight layout"""
    import artlib
    fails = []
    X2 = np.array([[0.1, 0.2], [0.8, 0.7], [0.15, 0.25], [0.5, 0.5]])
    cases = [("GaussianART", lambda: artlib.GaussianART(0.1, np.ones(2) * 0.5), {"sigma_init": np.ones(3) * 0.5}, lambda: artlib.GaussianART(0.1, np.ones(3) * 0.5)),
             ("BayesianART", lambda: artlib.BayesianART(1.0, np.eye(2) * 0.1), {"cov_init": np.eye(3) * 0.1}, lambda: artlib.BayesianART(1.0, np.eye(3) * 0.1)),
             ("ART2A", lambda: artlib.ART2A(0.5, 0.1, 1.0), {"alpha": 1.0}, lambda: artlib.ART2A(0.5, 1.0, 1.0))]
    for name, mk, kw, mk_fresh in cases:
        try:
            mk_fresh().fit(X2)
            continue                   # a fresh model accepts the combination: nothing to compare
        except Exception:
            pass
        for call in ("fit", "partial_fit"):
            est = mk()
            est.fit(X2)
            try:
                est.set_params(**kw)
            except Exception:
                continue               # rejected by set_params already
            try:
                with np.errstate(all="ignore"):
                    getattr(est, call)(X2)
                fails.append({"signature": f"{name}/stale-width-check", "text": f"{name}: {list(kw)[0]} of a width a fresh model rejects for 2-column data is accepted by {call} after set_params on a fitted model "
                              f"(weights of lengths {sorted(set(len(w) for w in est.W))})", "replay": {"estimator": name, "set_params": {k_: np.asarray(v_).tolist() for k_, v_ in kw.items()}, "then": call, "X": X2.tolist()}})
            except Exception:
                pass
    return fails


def bookkeeping_oracle(k, o):
    """the published rules are functions of the sample, the weight(s) and the hyper-parameters: the same well-formed
    weights in a model whose training book-keeping (counters, labels) was cleared give the same values"""
    import copy
    k2 = dict(k)
    est2 = copy.deepcopy(k["est"])
    est2.weight_sample_counter_ = []
    est2.sample_counter_ = 0
    est2.labels_ = np.zeros((0,), dtype=int)
    k2["est"] = est2
    o2 = K.run_call(k2)
    for f in ("T", "M", "U", "N"):
        if o.get(f) != o2.get(f):
            return [{"signature": f"{k['kind']}/depends-on-bookkeeping",
                     "text": f"{f} = {o.get(f)} on the trained model but {o2.get(f)} for the same weights in a model with cleared counters/labels",
                     "replay": K.summary(k, o)}]
    return []


def published_form_oracle(k):
    """relations the published equations impose on every weight that training can produce (evaluated on the trained
    model of the call): ART1 bottom-up = L/(L-1+|t|) t; a category is unchanged when its founding pattern is presented
    again (ART1, Fuzzy, Hypersphere, Ellipsoid: new_weight(x) is a fixed point of update(x, .)); Ellipsoid ART: the
    major axis is zero exactly for one-point categories, a unit vector otherwise, and a pattern presented to a category
    that already has an axis leaves the axis alone"""
    est, kind, fails = k["est"], k["kind"], []

    def f(sig, what):
        fails.append({"signature": f"{kind}/{sig}", "text": what, "replay": {"kind": kind, "params": {a: (np.asarray(b).tolist() if isinstance(b, np.ndarray) else b) for a, b in k["p"].items()},
                                                                          "X": np.asarray(k["X"]).tolist(), "x": np.asarray(k["x"]).tolist(), "category": k["c"]}})
    d = len(k["x"])
    with np.errstate(all="ignore"):
        if kind == "ART1":
            L = float(k["p"]["L"])
            for j, w in enumerate(k["Ws"]):
                t, bu = w[d:], w[:d]
                if t.sum() > 0 and not np.allclose(bu, L / (L - 1 + t.sum()) * t, atol=1e-12):
                    f("bottom-up-rule", f"category {j}: bottom-up weights {bu.tolist()} are not L/(L-1+|t|) t for the template {t.tolist()}")
                    break
        if kind in ("ART1", "Fuzzy", "Hyper", "Ellip"):
            x = np.asarray(k["x"], dtype=float)
            try:
                w0 = np.asarray(est.new_weight(x, est.params), dtype=float)
                _, cache = est.category_choice(x, w0, params=est.params)
                _, cache = est.match_criterion(x, w0, params=est.params, cache=cache)
                w1 = np.asarray(est.update(x, w0, est.params, cache=cache), dtype=float)
                if w0.shape != w1.shape or not np.allclose(w0, w1, atol=1e-12):
                    f("founding-pattern-fixed-point", f"new_weight(x) = {w0.tolist()} but presenting x again gives {w1.tolist()}")
            except (ZeroDivisionError, FloatingPointError):
                pass
        if kind == "Ellip":
            for j, w in enumerate(k["Ws"]):
                axis, r = w[d:-1], w[-1]
                nrm = float(np.sqrt(np.sum(axis ** 2)))
                if r > 1e-12 and abs(nrm - 1.0) > 1e-9:
                    f("major-axis-rule", f"category {j} has radius {r} but its major axis {axis.tolist()} is not a unit vector")
                    break
                if r == 0.0 and nrm != 0.0:
                    f("major-axis-rule", f"one-point category {j} has a major axis {axis.tolist()}")
                    break
            # the drawing accessor agrees with the stored weight: the end points of both half-axes it returns lie at
            # distance `radius` (the published ellipsoid distance) from the centroid
            if d == 2:
                try:
                    est2 = copy.deepcopy(est)
                    est2.W = [np.asarray(w_, dtype=float) for w_ in k["Ws"]]
                    est2.dim_ = 2
                    for j, (cen, width, height, angle) in enumerate(est2.get_2d_ellipsoids()):
                        w_ = est2.W[j]
                        r_ = float(w_[-1])
                        if r_ <= 1e-9 or not np.any(w_[d:-1] != 0):
                            continue
                        a_ = np.deg2rad(angle)
                        ends = [np.asarray(cen) + (width / 2) * np.array([np.cos(a_), np.sin(a_)]),
                                np.asarray(cen) + (height / 2) * np.array([-np.sin(a_), np.cos(a_)])]
                        ds = [float(est2.category_distance(e_, w_[:d], w_[d:-1], est2.params)) for e_ in ends]
                        if any(abs(dd - r_) > 1e-6 * (1 + r_) for dd in ds):
                            f("ellipse-accessor", f"get_2d_ellipsoids: the ends of the returned half-axes of category {j} lie at distances {ds} from the centroid, the radius is {r_} "
                              f"(mu = {est2.params['mu']})")
                            break
                except (ZeroDivisionError, FloatingPointError, AttributeError):
                    pass
            w = k["Ws"][k["c"]]
            if np.any(w[d:-1] != 0):
                try:
                    x = np.asarray(k["x"], dtype=float)
                    _, cache = est.category_choice(x, w, params=est.params)
                    _, cache = est.match_criterion(x, w, params=est.params, cache=cache)
                    w1 = np.asarray(est.update(x, w, est.params, cache=cache), dtype=float)
                    if not np.array_equal(w1[d:-1], w[d:-1]):
                        f("major-axis-rule", f"update changed the major axis of a category that already had one: {w[d:-1].tolist()} -> {w1[d:-1].tolist()}")
                except (ZeroDivisionError, FloatingPointError):
                    pass
    return fails


def gen_bbox(rng):
    d = rng.randrange(1, 5)
    lo = [Fraction(rng.randrange(0, 9), 16) for _ in range(d)]
    hi = [l + Fraction(rng.randrange(0, 8), 16) for l in lo]
    w = lo + [1 - h for h in hi]
    n = rng.randrange(0, d + 1)
    ratio = rng.choice([Fraction(0), Fraction(1, 8), Fraction(1, 4), Fraction(1, 2), Fraction(1, 16)])
    return w, n, ratio


def run_bbox(w, n, ratio):
    import artlib
    from artlib.elementary.FuzzyART import get_bounding_box
    wf = np.array([float(v) for v in w])
    ref, wid = get_bounding_box(wf, n)
    est = artlib.FuzzyART(0.5, 1e-3, 1.0)
    est.W = [wf.copy()]
    est.shrink_clusters(float(ratio))
    shr = [float(v) for v in est.W[0]]
    fails = []
    d = len(w) // 2
    # accessors agree with the stored weight
    boxes = artlib.FuzzyART(0.5, 1e-3, 1.0)
    boxes.W = [wf.copy()]
    if boxes.get_bounding_boxes(n)[0] != (ref, wid):
        fails.append("get_bounding_boxes != get_bounding_box")
    lo0, hi0 = wf[:d], 1 - wf[d:]
    if not (len(ref) == n and len(wid) == n and np.allclose(np.asarray(ref, dtype=float), lo0[:n], atol=1e-12)
            and np.allclose(np.asarray(wid, dtype=float), (hi0 - lo0)[:n], atol=1e-12)):
        fails.append(f"get_bounding_box for the {n} leading dimensions disagrees with the stored weight (lower corner / extent)")
    lo1, hi1 = np.array(shr[:d]), 1 - np.array(shr[d:])
    if not np.allclose((lo0 + hi0) / 2, (lo1 + hi1) / 2, atol=1e-12):
        fails.append("shrink_clusters moved the centre")
    if ratio <= Fraction(1, 2) and not (np.all(lo1 >= lo0 - 1e-12) and np.all(hi1 <= hi0 + 1e-12)):
        fails.append("shrunken box not contained in the old one")
    return [float(v) for v in ref], [float(v) for v in wid], shr, fails


def main():
    tier = sys.argv[1] if len(sys.argv) > 1 else "quick"
    seed = C.seed_from_env()
    v = C.Verdict("C03", tier, seed)
    gate_ok, ob = C.proof_gate(v, "C03.v")
    rng = C.make_rng(seed, "C03")
    n = 800 if tier == "quick" else 8000
    calls, outs, strs, summ, fails = [], [], [], [], []
    fails.extend(operator_table_oracle())
    fails.extend(stale_width_check_oracle())
    stats = {"kinds": {}, "undefined_outputs": 0, "impure": 0}
    tries = 0
    while len(calls) < n and tries < 5 * n:
        tries += 1
        k = K.gen_call(rng)
        if k is None:
            continue
        o = K.run_call(k)
        calls.append(k); outs.append(o)
        strs.append(K.call_coq(k, o)); summ.append(K.summary(k, o))
        stats["kinds"][k["kind"]] = stats["kinds"].get(k["kind"], 0) + 1
        stats["undefined_outputs"] += sum(1 for f in ("T", "M", "U", "N") if o[f] is None)
        if not o["pure"]:
            stats["impure"] += 1
            fails.append({"signature": f"{k['kind']}/purity", "text": "a public kernel call modified the model or its arguments", "replay": K.summary(k, o)})
        fails.extend(bin_oracle(k, o))
        fails.extend(bookkeeping_oracle(k, o))
        fails.extend(published_form_oracle(k))
    codes, bad = flow.coq_corr("C03", "RunKern", strs, shard=100, check_fn="kcheck")
    # bounding boxes / shrink at exact rationals
    nb = 300 if tier == "quick" else 3000
    bstrs, bsumm = [], []
    for _ in range(nb):
        w, nn, ratio = gen_bbox(rng)
        ref, wid, shr, bf = run_bbox(w, nn, ratio)
        for t in bf:
            fails.append({"signature": "FuzzyART/accessors", "text": t, "replay": {"w": [str(x) for x in w], "n": nn, "ratio": str(ratio)}})
        bstrs.append(f"(mkBcall {qlist(w)} {nn}%nat {qlist(ref)} {qlist(wid)} {q(ratio)} {qlist(shr)})")
        bsumm.append({"bbox_w": [str(x) for x in w], "n": nn, "ratio": str(ratio)})
    bcodes, bbad = flow.coq_corr("C03b", "RunKern", bstrs, shard=150, check_fn="bcheck")
    for b in bad + bbad:
        v.notes.append("coq shard failed: " + b[-600:])

    def extended():
        out = []
        r2 = C.make_rng(seed, "C03-ext")
        for _ in range(4000):
            k = K.gen_call(r2)
            if k is None:
                continue
            o = K.run_call(k)
            out.extend(bin_oracle(k, o))
            if not o["pure"]:
                out.append({"signature": f"{k['kind']}/purity", "text": "impure kernel call", "replay": K.summary(k, o)})
            if len(out) >= 3:
                break
        return out
    flow.decide(v, "C03", gate_ok, ob, list(zip(codes, summ)) + list(zip(bcodes, bsumm)), fails, extended)
    v.cov.update({
        "evaluations": len(calls) + nb,
        "distinct_nontrivial": len(set(C.case_hash(s) for s in summ)),
        "rule": "random hyper-parameters incl. boundary values (beta=1/0, alpha=0, rho in {0,1}), weights reached by training random data (duplicates, on-centre samples) "
                "for all eight modules, dimensions 1-9; non-trivial = distinct (kernel, params, weight, sample) call",
        "traces_validated_against_impl": sum(1 for x in codes + bcodes if x == 0),
        "distribution": stats, "samples": summ[:2]})
    v.assumptions = ["tolerance 2^-30 relative between fixed-point model (2^-80) and binary64", "np.linalg.det/inv modelled by cofactor expansion"]
    sys.exit(v.finish())


if __name__ == "__main__":
    main()

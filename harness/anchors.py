"""Which of the source functions a property is anchored in have changed since the hand-written model was last
reconciled with them?  For every `where` range of the property's anchors (properties.jsonl) the enclosing function /
class definitions are located in the current source and the SHA-1 of their `ast.dump` (comments and layout do not
count) is compared with anchors_baseline.json (committed; regenerate with `python harness/anchors.py --rebase` after a
reviewed change of /repo).  A difference is NOT a violation - a rewrite may be harmless - it is recorded in the
evidence (`anchored_source_changed`) and makes the check run its extended failing-input search, because the model
may no longer describe the code and only the correspondence and the oracles can tell."""
import ast
import hashlib
import json
import os
import re
import sys

ROOT = os.path.dirname(os.path.dirname(os.path.abspath(__file__)))


def _ranges(prop):
    out = {}
    anc = prop.get("anchors", {})
    for k in ("state", "mechanism"):
        for it in anc.get(k, []) or []:
            for f, spec in re.findall(r"(artlib/[\w/\.]+\.py):([\d,\-\s]+)", it.get("where") or ""):
                for tok in spec.replace(" ", "").split(","):
                    if not tok:
                        continue
                    a, _, b = tok.partition("-")
                    out.setdefault(f, []).append((int(a), int(b or a)))
    for f in anc.get("files", []) or []:
        out.setdefault(f, [])
    return out


PINNED = "0c6e549"          # the commit the properties' line numbers refer to


def _pinned_names(repo, f, rs):
    """names (with occurrence number) of the functions the anchor ranges touch in the pinned commit"""
    import subprocess
    try:
        src = subprocess.run(["git", "-C", repo, "show", f"{PINNED}:{f}"], capture_output=True, text=True).stdout
        tree = ast.parse(src)
    except Exception:
        return None
    names, seen = set(), {}
    for node in ast.walk(tree):
        if isinstance(node, (ast.FunctionDef, ast.AsyncFunctionDef)):
            seen[node.name] = seen.get(node.name, 0) + 1
            lo, hi = node.lineno, getattr(node, "end_lineno", node.lineno)
            if not rs or any(not (b < lo or a > hi) for a, b in rs):
                names.add(f"{node.name}@{seen[node.name]}")
    return names


def fingerprints(repo, pid):
    prop = [json.loads(l) for l in open(os.path.join(ROOT, "properties.jsonl")) if json.loads(l)["id"] == pid][0]
    res = {}
    for f, rs in _ranges(prop).items():
        path = os.path.join(repo, f)
        try:
            tree = ast.parse(open(path).read())
        except Exception as e:
            res[f] = {"<file>": "unreadable: " + type(e).__name__}
            continue
        want = _pinned_names(repo, f, rs)
        if want is not None:
            cur, seen = {}, {}
            for node in ast.walk(tree):
                if isinstance(node, (ast.FunctionDef, ast.AsyncFunctionDef)):
                    seen[node.name] = seen.get(node.name, 0) + 1
                    k = f"{node.name}@{seen[node.name]}"
                    if k in want:
                        cur[k] = hashlib.sha1(ast.dump(node, annotate_fields=False, include_attributes=False).encode()).hexdigest()[:16]
            res[f] = cur
            continue
        defs = []
        for node in ast.walk(tree):
            if isinstance(node, (ast.FunctionDef, ast.AsyncFunctionDef)):
                defs.append(node)
        chosen = {}
        for d in defs:
            lo, hi = d.lineno, getattr(d, "end_lineno", d.lineno)
            # a file anchored without ranges: every function of the file; with ranges: the functions they touch
            if not rs or any(not (b < lo or a > hi) for a, b in rs):
                chosen[d.name + "@" + str(sum(1 for e in defs if e.name == d.name and e.lineno <= d.lineno))] = \
                    hashlib.sha1(ast.dump(d, annotate_fields=False, include_attributes=False).encode()).hexdigest()[:16]
        res[f] = chosen
    return res


def changed(repo, pid):
    """names of anchored functions whose definition differs from the baseline (the anchors' line numbers are those of
    the pinned commit; functions are matched by name, so moved code is found)"""
    try:
        base = json.load(open(os.path.join(ROOT, "anchors_baseline.json"))).get(pid, {})
    except Exception:
        return ["<no baseline>"]
    # match by function name within the file, against every function of the file in the current source
    out = []
    for f, fns in base.items():
        path = os.path.join(repo, f)
        try:
            tree = ast.parse(open(path).read())
        except Exception:
            out.append(f + ":<unreadable>")
            continue
        cur, seen = {}, {}
        for node in ast.walk(tree):
            if isinstance(node, (ast.FunctionDef, ast.AsyncFunctionDef)):
                seen[node.name] = seen.get(node.name, 0) + 1
                k = f"{node.name}@{seen[node.name]}"
                cur[k] = hashlib.sha1(ast.dump(node, annotate_fields=False, include_attributes=False).encode()).hexdigest()[:16]
        for name, h in fns.items():
            if cur.get(name) != h:
                out.append(f"{f}:{name.split('@')[0]}")
    return sorted(set(out))


if __name__ == "__main__":
    if "--rebase" in sys.argv:
        repo = os.environ.get("VERIF_REPO", "/repo")
        base = {}
        for i in range(1, 21):
            pid = f"C{i:02d}"
            # the baseline stores, per anchored file, EVERY function the anchors touch at the time of rebasing; because
            # the anchors' line numbers refer to the pinned commit, the functions are located in that commit
            base[pid] = fingerprints(repo, pid)
        json.dump(base, open(os.path.join(ROOT, "anchors_baseline.json"), "w"), indent=1, sort_keys=True)
        print("baseline written for", len(base), "properties")
    else:
        pid = sys.argv[1]
        print(changed(os.environ.get("VERIF_REPO", "/repo"), pid))

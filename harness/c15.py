"""C15 - incremental validity index equals the batch index and gates assignments.
Proof: props/C15.v (invariant of the incremental state over any permitted
add_sample / switch_label sequence => tracked value = batch index; gate).
Correspondence: (i) iCVI_CH add_sample / switch_label / update sequences vs
the Gallina model, which is itself compared with the batch index of the
current labelled data with exact rational equality after every operation;
(ii) iCVIFuzzyART.fit (offline and online) vs the model: weights, labels,
final criterion = batch index.  Failing-input search on the implementation:
tracked value vs an independent batch computation, and the gate re-derived
from recorded reset-function calls for iCVIFuzzyART and CVIART (all three
indices)."""
import contextlib
import io
import sys
from fractions import Fraction

import numpy as np

import common as C
import basefam as B
import flow
from common import q, qlist, qmat, natlist, coq_bool


def batch_ch(X, labels):
    X = np.asarray(X, dtype=float)
    labs = sorted(set(labels))
    k, n = len(labs), len(X)
    if k < 2:
        return 0.0
    mu = X.mean(axis=0)
    B_, W_ = 0.0, 0.0
    for l in labs:
        P = X[[i for i in range(n) if labels[i] == l]]
        v = P.mean(axis=0)
        B_ += len(P) * float(np.sum((v - mu) ** 2))
        W_ += float(np.sum((P - v) ** 2))
    if W_ == 0:
        return 0.0
    return (B_ / W_) * (n - k) / (k - 1)


def gen_seq(rng):
    from artlib.cvi.iCVIs.CalinkskiHarabasz import iCVI_CH
    d = rng.choice([1, 2, 3])
    n = rng.randrange(2, 12)
    pts = [np.array([rng.randrange(0, 9) / 8 for _ in range(d)]) for _ in range(n)]
    ic = iCVI_CH(pts[0])
    labels, ops, k = [], [], 0
    fails = []
    for x in pts:
        l = rng.randrange(0, k + 1) if rng.random() < 0.7 else k
        if l == k:
            k += 1
        ic.update(ic.add_sample(x, l))
        labels.append(l)
        ops.append(("add", x.tolist(), l, None, float(ic.criterion_value)))
        if rng.random() < 0.4 and len(labels) > 1:
            j = rng.randrange(len(labels))
            lo = labels[j]
            if labels.count(lo) > 1:
                ln = rng.randrange(0, k + 1)
                if ln == k:
                    k += 1
                ic.update(ic.switch_label(pts[j], lo, ln))
                labels[j] = ln
                ops.append(("switch", pts[j].tolist(), lo, ln, float(ic.criterion_value)))
        want = batch_ch(pts[:len(labels)], labels)
        got = float(ic.criterion_value)
        if not np.isfinite(got):
            fails.append({"signature": "iCVI_CH/nonfinite", "text": f"incremental CH is {got} (batch index {want})",
                          "replay": {"points": [p.tolist() for p in pts[:len(labels)]], "ops": [list(o[:4]) for o in ops]}})
            break
        if abs(got - want) > 1e-6 * (1 + abs(want)):
            resid = abs(ic.WGSS) < 1e-12
            fails.append({"signature": "iCVI_CH/wgss-rounding-residue" if resid else "iCVI_CH/value",
                          "text": f"incremental CH {got} != batch CH {want}" + (" (WGSS is a rounding residue)" if resid else ""),
                          "replay": {"points": [p.tolist() for p in pts[:len(labels)]], "ops": ops}})
            break
    items = []
    for o in ops:
        if o[0] == "add":
            items.append(f"IAdd {qlist(o[1])} {o[2]}%nat {q(o[4])}")
        else:
            items.append(f"ISwitch {qlist(o[1])} {o[2]}%nat {o[3]}%nat {q(o[4])}")
    return f"(mkICase {d}%nat [" + "; ".join(items) + "])", {"points": [p.tolist() for p in pts], "ops": ops}, fails


def gen_fit(rng):
    from artlib.cvi.iCVIFuzzyArt import iCVIFuzzyART
    d = rng.choice([1, 2])
    n = rng.randrange(3, 11)
    rows = B.grid_rows(rng, n, d)
    rho = Fraction(rng.randrange(0, 8), 8)
    alpha, beta = Fraction(1, 1024), Fraction(1)
    offline = rng.random() < 0.5
    mode, eps = B.gen_mode(rng)
    est = iCVIFuzzyART(rho=float(rho), alpha=float(alpha), beta=float(beta), validity=1, offline=offline)
    X = np.array(rows, dtype=float)
    calls = []
    orig = est.iCVI_match

    def wrapped(x, w, c_, params, cache):
        old = float(est.iCVI.criterion_value)
        r = orig(x, w, c_, params, cache)
        new = (est.iCVI.switch_label(x, est.labels_[est.index], c_) if est.offline else est.iCVI.add_sample(x, c_))["criterion_value"]
        same = bool(est.offline and int(est.labels_[est.index]) == int(c_))
        calls.append((int(est.index), int(c_), bool(r), float(new), old, same))
        return r
    est.iCVI_match = wrapped
    ok, err = True, None
    # a caller-supplied reset function that never objects: the gate still decides (and the search is the same)
    user = (lambda *a, **kw: True) if rng.random() < 0.4 else None
    try:
        with np.errstate(all="ignore"):
            if user is not None:
                est.fit(X, match_reset_func=user, match_tracking=mode, epsilon=float(eps))
            else:
                est.fit(X, match_tracking=mode, epsilon=float(eps))
    except Exception as e:
        ok, err = False, type(e).__name__ + ": " + str(e)[:80]
    summ = {"estimator": "iCVIFuzzyART", "rho": str(rho), "offline": offline, "match_reset_func": "always True" if user else None, "mode": mode, "eps": str(eps), "X": [[str(v) for v in r] for r in rows]}
    fails = []
    # the same-label shortcut and the k < 2 convention (both 0) are exact in the model too; other near-ties are not judged
    robust = all(same or (new == 0.0 and old == 0.0) or abs(new - old) > 1e-9 * (1 + abs(old)) for _, _, _, new, old, same in calls)
    if ok:
        labels = [int(v) for v in est.labels_]
        want = batch_ch(X, labels)
        got = float(est.iCVI.criterion_value)
        if abs(got - want) > 1e-6 * (1 + abs(want)):
            resid = abs(est.iCVI.WGSS) < 1e-12
            fails.append({"signature": "iCVI_CH/wgss-rounding-residue" if resid else "iCVIFuzzyART/value",
                          "text": f"tracked CH {got} != index of (X, labels_) {want}", "replay": summ})
        # the gate: a sample that joined an existing category had the reset function say "strictly improves"
        seen = 0
        for i, l in enumerate(labels):
            created_before = len(set(labels[:i]))
            if l < created_before and created_before >= 1 and i > 0:
                if not any(ci == i and cc == l and r and new > old for ci, cc, r, new, old, _ in calls):
                    # category existed before sample i and absorbed it without a recorded strict improvement
                    first_of_l = labels.index(l)
                    if first_of_l < i:
                        fails.append({"signature": "iCVIFuzzyART/gate", "text": f"sample {i} joined category {l} without a strict improvement of the index", "replay": summ})
                        break
        for ci, cc, r, new, old, _ in calls:
            if r != (new > old):
                fails.append({"signature": "iCVIFuzzyART/gate", "text": "iCVI_match result is not (new criterion > old criterion)", "replay": summ})
                break
    # a validity value beyond any index attainable on this grid can only come from dividing by a rounding residue of WGSS
    if any(abs(c[3]) > 1e9 for c in calls) or (ok and abs(float(est.iCVI.criterion_value)) > 1e9):
        summ["wgss_residue"] = True
    W = [[B.fr(v) for v in np.asarray(w, dtype=float)] for w in est.W] if ok else []
    s = (f"(mkIFCase {q(alpha)} {q(beta)} {q(rho)} {coq_bool(offline)} {qmat(rows)} {B.MODE_COQ[mode]} {q(eps)} {coq_bool(ok)} "
         f"{qmat(W)} {natlist([int(v) for v in est.labels_] if ok else [])} {q(float(est.iCVI.criterion_value) if ok else 0)})")
    return s, summ, fails, robust, err


def cviart_gate(rng):
    """CVIART: the reset function is (new index better than old index) for every call; joins only after a True"""
    import artlib
    import sklearn.metrics as M
    d = 2
    n = rng.randrange(4, 12)
    rows = B.grid_rows(rng, n, d)
    X = np.array(rows, dtype=float)
    validity = rng.choice([1, 2, 3])
    rho = rng.choice([0.25, 0.5, 0.75])
    nest = rng.random() < 0.4
    with contextlib.redirect_stdout(io.StringIO()):
        base = artlib.FuzzyART(rho=rho, alpha=1 / 1024, beta=1.0)
        if nest:          # the gate must also guard DualVigilanceART's lower-vigilance path
            base = artlib.DualVigilanceART(base, rho_lower_bound=float(rng.choice([0.0, 0.125, 0.2])))
        est = artlib.CVIART(base, validity=validity)
    fn = {1: M.calinski_harabasz_score, 2: M.davies_bouldin_score, 3: M.silhouette_score}[validity]
    calls = []
    orig = est.CVI_match

    step_labs = {}
    touched = []

    def wrapped(x, w, c_, params, extra, cache):
        labs = np.array(est.labels_).copy()
        step_labs.setdefault(extra["index"], labs)        # the labelling before the step
        r = orig(x, w, c_, params, extra, cache)
        if not np.array_equal(np.asarray(est.labels_), labs):
            touched.append((extra["index"], int(c_)))
        calls.append((extra["index"], int(c_), bool(r), step_labs[extra["index"]], len(est.W)))
        return r
    summ = {"estimator": "CVIART(DualVigilanceART(FuzzyART))" if nest else "CVIART(FuzzyART)", "validity": validity, "rho": rho,
            "rho_lower_bound": float(base.rho_lower_bound) if nest else None, "X": X.tolist()}
    if rng.random() < 0.4:
        # the gate of a fit on a USED estimator (fitted before on other rows) is judged like any other
        X0 = np.array(B.grid_rows(rng, rng.randrange(3, 8), d), dtype=float)
        summ["fitted_before_on"] = X0.tolist()
        try:
            with np.errstate(all="ignore"):
                est.fit(X0)
        except Exception:
            return None
    est.CVI_match = wrapped
    try:
        with np.errstate(all="ignore"):
            est.fit(X)
    except Exception as e:
        return None       # sklearn rejects degenerate labelings (a single label): outside the API's domain
    if touched:
        return {"signature": "CVIART/gate", "text": f"evaluating candidate cluster {touched[0][1]} for sample {touched[0][0]} changed the live labelling "
                "(later candidates are not compared with the labelling before the step)", "replay": summ}
    for idx, c_, r, labs, nW in calls:
        if nW < 2:
            continue
        try:
            old = fn(X, labs)
            new_l = labs.copy(); new_l[idx] = c_
            new = fn(X, new_l)
        except Exception:
            continue
        want = (new < old) if validity == 2 else (new > old)
        if r != want:
            return {"signature": "CVIART/gate", "text": f"CVI_match returned {r} but index old={old} new={new} (validity {validity})", "replay": summ}
    labels = [int(v) for v in est.labels_]
    for i, l in enumerate(labels):
        if i > 0 and l in labels[:i]:
            mine = [c for c in calls if c[0] == i and c[1] == l]
            if not any(c[2] for c in mine):
                return {"signature": "CVIART/gate", "text": f"sample {i} joined the existing cluster {l} although the validity test "
                        + ("never passed" if mine else "was never consulted for that assignment"), "replay": summ}
    return None


def main():
    tier = sys.argv[1] if len(sys.argv) > 1 else "quick"
    seed = C.seed_from_env()
    v = C.Verdict("C15", tier, seed)
    gate_ok, ob = C.proof_gate(v, "C15.v")
    rng = C.make_rng(seed, "C15")
    ns = 300 if tier == "quick" else 3000
    nf = 200 if tier == "quick" else 2000
    sstrs, ssumm, fstrs, fsumm, fails = [], [], [], [], []
    nonrobust = 0
    for _ in range(ns):
        s, summ, f = gen_seq(rng)
        sstrs.append(s); ssumm.append(summ); fails.extend(f)
    for _ in range(nf):
        s, summ, f, robust, err = gen_fit(rng)
        fails.extend(f)
        if robust:
            fstrs.append(s); fsumm.append(summ)
        else:
            nonrobust += 1
    for _ in range(300 if tier == "quick" else 3000):
        r = cviart_gate(rng)
        if r:
            fails.append(r)
    scodes, sbad = flow.coq_corr("C15", "RunICVI", sstrs, shard=100, check_fn="icheck")
    fcodes, fbad = flow.coq_corr("C15f", "RunICVI", fstrs, shard=60, check_fn="ifcheck")
    for b in sbad + fbad:
        v.notes.append("coq shard failed: " + b[-600:])

    def site(summ, code):
        # the implementation's value differs exactly where the exact within-group dispersion is 0
        if code is not None and code % 10 == 4:
            return "iCVI_CH/wgss-rounding-residue"
        if isinstance(summ, dict) and summ.get("wgss_residue"):
            return "iCVI_CH/wgss-rounding-residue"
        return None
    flow.decide(v, "C15", gate_ok, ob, list(zip(scodes, ssumm)) + list(zip(fcodes, fsumm)), fails, None, site)
    v.cov.update({
        "evaluations": ns + nf, "distinct_nontrivial": len(set(C.case_hash(s) for s in ssumm)) + len(set(C.case_hash(s) for s in fsumm)),
        "rule": "random add_sample / switch_label sequences (API-permitted: no switch out of a singleton) on 1-3 dimensional k/8 grid points, 2-11 points, labels chosen so that clusters appear late and merge; "
                "iCVIFuzzyART fits offline and online on complement-coded grid data, 5 modes; CVIART with all three indices; non-trivial = distinct sequence / fit",
        "traces_validated_against_impl": sum(1 for x in scodes + fcodes if x == 0),
        "non_robust_fits_not_judged": nonrobust, "samples": ssumm[:1]})
    v.assumptions = ["exact-real reading: where the exact within-group dispersion is 0 the index is 0 by convention; binary64 rounding residues are a recorded finding",
                     "fits in which a validity comparison was closer than 1e-9 are not judged against the model (counted as non-robust)",
                     "sklearn's davies_bouldin / silhouette are used as given (an arbitrary index in the gate theorem)"]
    sys.exit(v.finish())


if __name__ == "__main__":
    main()

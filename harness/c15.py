"""C15 - incremental validity index equals the batch index and gates assignments.
Proof: props/C15.v (invariant of the incremental state over any permitted
add_sample / switch_label sequence => tracked value = batch index; gate).
Correspondence: (i) iCVI_CH add_sample / switch_label / update sequences vs
the Gallina model, which is itself compared with the batch index of the
current labelled data with exact rational equality after every operation;
(ii) iCVIFuzzyART.fit (offline and online) vs the model: weights, labels,
final criterion = batch index.  Failing-input search on the implementation:
tracked value vs an independent batch computation, and the gate re-derived
from recorded reset-function calls for iCVIFuzzyART and CVIART (all three
indices)."""
import contextlib
import io
import sys
from fractions import Fraction

import numpy as np

import common as C
import basefam as B
import flow
from common import q, qlist, qmat, natlist, coq_bool


def batch_ch(X, labels):
    X = np.asarray(X, dtype=float)
    labs = sorted(set(labels))
    k, n = len(labs), len(X)
    if k < 2:
        return 0.0
    mu = X.mean(axis=0)
    B_, W_ = 0.0, 0.0
    for l in labs:
        P = X[[i for i in range(n) if labels[i] == l]]
        v = P.mean(axis=0)
        B_ += len(P) * float(np.sum((v - mu) ** 2))
        W_ += float(np.sum((P - v) ** 2))
    if W_ == 0:
        return 0.0
    return (B_ / W_) * (n - k) / (k - 1)


def gen_seq(rng):
    from artlib.cvi.iCVIs.CalinkskiHarabasz import iCVI_CH
    d = rng.choice([1, 2, 3])
    n = rng.randrange(2, 12)
    # how the samples reach the index: float rows; rows of a narrower / unsigned / boolean dtype (whole numbers, as
    # binary or count data are); one buffer that the caller refills for every sample (a streaming caller)
    how = rng.choice(["float", "float", "dtype", "buffer"])
    if how == "dtype":
        dt = rng.choice([np.uint8, np.uint16, np.int8, np.int64, np.float32, bool])
        hi = 2 if dt is bool else 5
        pts = [np.array([rng.randrange(0, hi) for _ in range(d)], dtype=float) for _ in range(n)]
    else:
        dt = float
        pts = [np.array([rng.randrange(0, 9) / 8 for _ in range(d)]) for _ in range(n)]
    buf = np.zeros(d, dtype=dt)

    def give(x):
        if how == "buffer":
            buf[:] = x
            return buf
        return x.astype(dt) if how == "dtype" else x
    ic = iCVI_CH(give(pts[0]))
    labels, ops, k = [], [], 0
    fails = []
    for x in pts:
        l = rng.randrange(0, k + 1) if rng.random() < 0.7 else k
        if l == k:
            k += 1
        try:
            ic.update(ic.add_sample(give(x), l))
        except Exception as e:
            fails.append({"signature": "iCVI_CH/raises", "text": f"add_sample raised {type(e).__name__}: {str(e)[:80]} (samples given as {how}, dtype {np.dtype(dt).name})",
                          "replay": {"points": [p.tolist() for p in pts[:len(labels) + 1]], "ops": [list(o[:4]) for o in ops], "given_as": how, "dtype": np.dtype(dt).name}})
            break
        labels.append(l)
        ops.append(("add", x.tolist(), l, None, float(ic.criterion_value)))
        if rng.random() < 0.4 and len(labels) > 1:
            j = rng.randrange(len(labels))
            lo = labels[j]
            if labels.count(lo) > 1:
                ln = rng.randrange(0, k + 1)
                if ln == k:
                    k += 1
                ic.update(ic.switch_label(give(pts[j]), lo, ln))
                labels[j] = ln
                ops.append(("switch", pts[j].tolist(), lo, ln, float(ic.criterion_value)))
        want = batch_ch(pts[:len(labels)], labels)
        got = float(ic.criterion_value)
        if not np.isfinite(got):
            fails.append({"signature": "iCVI_CH/nonfinite", "text": f"incremental CH is {got} (batch index {want})",
                          "replay": {"points": [p.tolist() for p in pts[:len(labels)]], "ops": [list(o[:4]) for o in ops]}})
            break
        if abs(got - want) > 1e-6 * (1 + abs(want)):
            resid = abs(ic.WGSS) < 1e-12
            fails.append({"signature": "iCVI_CH/wgss-rounding-residue" if resid else "iCVI_CH/value",
                          "text": f"incremental CH {got} != batch CH {want}" + (" (WGSS is a rounding residue)" if resid else ""),
                          "replay": {"points": [p.tolist() for p in pts[:len(labels)]], "ops": ops, "given_as": how, "dtype": np.dtype(dt).name}})
            break
    items = []
    for o in ops:
        if o[0] == "add":
            items.append(f"IAdd {qlist(o[1])} {o[2]}%nat {q(o[4])}")
        else:
            items.append(f"ISwitch {qlist(o[1])} {o[2]}%nat {o[3]}%nat {q(o[4])}")
    return f"(mkICase {d}%nat [" + "; ".join(items) + "])", {"points": [p.tolist() for p in pts], "ops": ops, "given_as": how, "dtype": np.dtype(dt).name}, fails


def gen_seq_remove(rng):
    """add / remove sequences (remove_sample is a public operation of iCVI_CH; its mean update was a defect): the tracked
    value against the batch index of the data that remain, and for corr/RunICVIrm.v"""
    from artlib.cvi.iCVIs.CalinkskiHarabasz import iCVI_CH
    d = rng.choice([1, 2, 3])
    n = rng.randrange(3, 12)
    pts = [np.array([rng.randrange(0, 9) / 8 for _ in range(d)]) for _ in range(n)]
    ic = iCVI_CH(pts[0])
    data, items, ops, fails, k = [], [], [], [], 0
    for x in pts:
        l = rng.randrange(0, k + 1) if rng.random() < 0.7 else k
        if l == k:
            k += 1
        ic.update(ic.add_sample(x, l)); data.append((x, l))
        items.append(f"IAdd2 {qlist(x.tolist())} {l}%nat {q(float(ic.criterion_value))}")
        ops.append(("add", x.tolist(), l))
        if rng.random() < 0.4 and len(data) > 2:
            j = rng.randrange(len(data))
            xj, lj = data[j]
            if sum(1 for _, l2 in data if l2 == lj) > 1:
                ic.update(ic.remove_sample(xj, lj)); data.pop(j)
                items.append(f"IRemove2 {qlist(xj.tolist())} {lj}%nat {q(float(ic.criterion_value))}")
                ops.append(("remove", xj.tolist(), lj))
        want = batch_ch([p_ for p_, _ in data], [l2 for _, l2 in data])
        got = float(ic.criterion_value)
        if not np.isfinite(got) or abs(got - want) > 1e-6 * (1 + abs(want)):
            resid = abs(ic.WGSS) < 1e-12
            fails.append({"signature": "iCVI_CH/wgss-rounding-residue" if resid else "iCVI_CH/value",
                          "text": f"after {ops[-1][0]}: incremental CH {got} != batch CH {want} of the data that remain" + (" (WGSS is a rounding residue)" if resid else ""),
                          "replay": {"ops": ops}})
            break
    return f"(mkICase2 {d}%nat [" + "; ".join(items) + "])", {"ops": ops, "with_remove": True}, fails


def gen_fit(rng):
    from artlib.cvi.iCVIFuzzyArt import iCVIFuzzyART
    d = rng.choice([1, 2])
    n = rng.randrange(3, 11)
    rows = B.grid_rows(rng, n, d)
    rho = Fraction(rng.randrange(0, 8), 8)
    alpha, beta = Fraction(1, 1024), Fraction(1)
    offline = rng.random() < 0.5
    mode, eps = B.gen_mode(rng)
    est = iCVIFuzzyART(rho=float(rho), alpha=float(alpha), beta=float(beta), validity=1, offline=offline)
    X = np.array(rows, dtype=float)
    calls = []
    orig = est.iCVI_match

    def wrapped(x, w, c_, params, cache):
        old = float(est.iCVI.criterion_value)
        r = orig(x, w, c_, params, cache)
        new = (est.iCVI.switch_label(x, est.labels_[est.index], c_) if est.offline else est.iCVI.add_sample(x, c_))["criterion_value"]
        same = bool(est.offline and int(est.labels_[est.index]) == int(c_))
        calls.append((int(est.index), int(c_), bool(r), float(new), old, same))
        return r
    est.iCVI_match = wrapped
    ok, err = True, None
    # a caller-supplied reset function that never objects: the gate still decides (and the search is the same)
    user = (lambda *a, **kw: True) if rng.random() < 0.4 else None
    try:
        with np.errstate(all="ignore"):
            if user is not None:
                est.fit(X, match_reset_func=user, match_tracking=mode, epsilon=float(eps))
            else:
                est.fit(X, match_tracking=mode, epsilon=float(eps))
    except Exception as e:
        ok, err = False, type(e).__name__ + ": " + str(e)[:80]
    summ = {"estimator": "iCVIFuzzyART", "rho": str(rho), "offline": offline, "match_reset_func": "always True" if user else None, "mode": mode, "eps": str(eps), "X": [[str(v) for v in r] for r in rows]}
    fails = []
    # the same-label shortcut and the k < 2 convention (both 0) are exact in the model too; other near-ties are not judged
    robust = all(same or (new == 0.0 and old == 0.0) or abs(new - old) > 1e-9 * (1 + abs(old)) for _, _, _, new, old, same in calls)
    if ok:
        labels = [int(v) for v in est.labels_]
        want = batch_ch(X, labels)
        got = float(est.iCVI.criterion_value)
        if abs(got - want) > 1e-6 * (1 + abs(want)):
            resid = abs(est.iCVI.WGSS) < 1e-12
            fails.append({"signature": "iCVI_CH/wgss-rounding-residue" if resid else "iCVIFuzzyART/value",
                          "text": f"tracked CH {got} != index of (X, labels_) {want}", "replay": summ})
        # the gate: a sample that joined an existing category had the reset function say "strictly improves"
        seen = 0
        for i, l in enumerate(labels):
            created_before = len(set(labels[:i]))
            if l < created_before and created_before >= 1 and i > 0:
                if not any(ci == i and cc == l and r and new > old for ci, cc, r, new, old, _ in calls):
                    # category existed before sample i and absorbed it without a recorded strict improvement
                    first_of_l = labels.index(l)
                    if first_of_l < i:
                        fails.append({"signature": "iCVIFuzzyART/gate", "text": f"sample {i} joined category {l} without a strict improvement of the index", "replay": summ})
                        break
        for ci, cc, r, new, old, _ in calls:
            if r != (new > old):
                fails.append({"signature": "iCVIFuzzyART/gate", "text": "iCVI_match result is not (new criterion > old criterion)", "replay": summ})
                break
    # a validity value beyond any index attainable on this grid can only come from dividing by a rounding residue of WGSS
    if any(abs(c[3]) > 1e9 for c in calls) or (ok and abs(float(est.iCVI.criterion_value)) > 1e9):
        summ["wgss_residue"] = True
    W = [[B.fr(v) for v in np.asarray(w, dtype=float)] for w in est.W] if ok else []
    s = (f"(mkIFCase {q(alpha)} {q(beta)} {q(rho)} {coq_bool(offline)} {qmat(rows)} {B.MODE_COQ[mode]} {q(eps)} {coq_bool(ok)} "
         f"{qmat(W)} {natlist([int(v) for v in est.labels_] if ok else [])} {q(float(est.iCVI.criterion_value) if ok else 0)})")
    return s, summ, fails, robust, err


GATE_CASES = []


def cviart_gate(rng):
    """CVIART: whenever the index is defined for the labelling before the step and for the candidate labelling, the
    reset function is (candidate index strictly better); a sample ends a step in an existing cluster only after a
    True; fit completes for every number of epochs (an exception on valid data is a failure)"""
    import artlib
    import sklearn.metrics as M
    d = 2
    n = rng.randrange(3, 12)
    rows = B.grid_rows(rng, n, d)
    X = np.array(rows, dtype=float)
    validity = rng.choice([1, 2, 3])
    rho = rng.choice([0.0, 0.25, 0.5, 0.75, 0.9])
    max_iter = rng.choice([1, 1, 2, 3])
    nest = rng.random() < 0.4
    with contextlib.redirect_stdout(io.StringIO()):
        base = artlib.FuzzyART(rho=rho, alpha=1 / 1024, beta=1.0)
        if nest:          # the gate must also guard DualVigilanceART's lower-vigilance path
            if rho == 0.0:
                rho = 0.25
                base = artlib.FuzzyART(rho=rho, alpha=1 / 1024, beta=1.0)
            base = artlib.DualVigilanceART(base, rho_lower_bound=float(rng.choice([0.0, 0.125, 0.2])))
        est = artlib.CVIART(base, validity=validity)
    fn = {1: M.calinski_harabasz_score, 2: M.davies_bouldin_score, 3: M.silhouette_score}[validity]
    steps = []          # one record per step_fit call: index, labelling before, clusters before, calls, resulting label
    touched = []
    orig = est.CVI_match
    orig_step = est.base_module.step_fit

    def wrapped(x, w, c_, params, extra, cache):
        labs = np.array(est.labels_).copy()
        r = orig(x, w, c_, params, extra, cache)
        if not np.array_equal(np.asarray(est.labels_), labs):
            touched.append((extra["index"], int(c_)))
        steps[-1]["index"] = extra["index"]
        steps[-1]["calls"].append((int(c_), bool(r)))
        return r

    def step(x, **kw):
        labs = np.array(est.labels_).copy()
        if nest:
            existing = set(int(v) for v in est.base_module.map.values()) if len(est.base_module.base_module.W) > 0 and hasattr(est.base_module, "map") else set()
            ncat = len(est.base_module.base_module.W)
        else:
            existing = set(range(len(est.base_module.W)))
            ncat = len(est.base_module.W)
        steps.append({"index": None, "labs": labs, "existing": existing, "ncat": ncat, "calls": [], "label": None})
        c = orig_step(x, **kw)
        steps[-1]["label"] = int(c)
        return c
    summ = {"estimator": "CVIART(DualVigilanceART(FuzzyART))" if nest else "CVIART(FuzzyART)", "validity": validity, "rho": rho,
            "rho_lower_bound": float(base.rho_lower_bound) if nest else None, "X": X.tolist(), "max_iter": max_iter}
    if rng.random() < 0.4:
        # the gate of a fit on a USED estimator (fitted before on other rows) is judged like any other
        X0 = np.array(B.grid_rows(rng, rng.randrange(3, 8), d), dtype=float)
        summ["fitted_before_on"] = X0.tolist()
        try:
            with np.errstate(all="ignore"):
                est.fit(X0)
        except Exception as e:
            return {"signature": "CVIART/raises", "text": f"fit raised {type(e).__name__}: {str(e)[:90]}", "replay": summ}
    est.CVI_match = wrapped
    est.base_module.step_fit = step
    try:
        with np.errstate(all="ignore"):
            est.fit(X, max_iter=max_iter)
    except Exception as e:
        return {"signature": "CVIART/raises", "text": f"fit(max_iter={max_iter}) raised {type(e).__name__}: {str(e)[:90]}", "replay": summ}
    finally:
        del est.base_module.step_fit
    if touched:
        return {"signature": "CVIART/gate", "text": f"evaluating candidate cluster {touched[0][1]} for sample {touched[0][0]} changed the live labelling "
                "(later candidates are not compared with the labelling before the step)", "replay": summ}

    def defined(l):
        return 2 <= len(set(int(v) for v in l)) <= len(l) - 1
    for k, st in enumerate(steps):
        labs = st["labs"]
        for c_, r in st["calls"]:
            new_l = labs.copy(); new_l[st["index"]] = c_
            if st["ncat"] < 2 or not defined(labs):
                continue            # nothing to compare with: no index for the labelling before the step
            if not defined(new_l):
                if r:
                    return {"signature": "CVIART/gate", "text": f"step {k} (sample {st['index']}): CVI_match permitted cluster {c_} although the labelling before the step has an index "
                            f"({fn(X, labs)}) and the candidate labelling has none", "replay": summ}
                continue
            old, new = fn(X, labs), fn(X, new_l)
            want = (new < old) if validity == 2 else (new > old)
            if r != want:
                return {"signature": "CVIART/gate", "text": f"step {k} (sample {st['index']}): CVI_match returned {r} for cluster {c_} but index old={old} new={new} (validity {validity})", "replay": summ}
        if st["label"] in st["existing"] and st["ncat"] >= 1:
            mine = [c for c in st["calls"] if c[0] == st["label"]]
            if not any(c[1] for c in mine):
                i = st["index"] if st["index"] is not None else "?"
                return {"signature": "CVIART/gate", "text": f"step {k}: sample {i} joined the existing cluster {st['label']} although the validity test "
                        + ("never passed" if mine else "was never consulted for that assignment"), "replay": summ}
    if [int(v) for v in est.labels_] != [st["label"] for st in steps[-len(X):]]:
        return {"signature": "CVIART/gate", "text": "labels_ is not the outcome of the last epoch's steps", "replay": summ}
    # every recorded call for the model of the gate (corr/RunGate.v): labelling before, candidate, both index values
    for st in steps:
        if st["index"] is None or min(int(v) for v in st["labs"]) < 0:
            continue
        for c_, r in st["calls"][:3]:
            labs = st["labs"]
            new_l = labs.copy(); new_l[st["index"]] = c_
            old = new = 0.0
            if st["ncat"] >= 2 and defined(labs) and not defined(new_l):
                old = float(fn(X, labs))
            if st["ncat"] >= 2 and defined(labs) and defined(new_l):
                old, new = float(fn(X, labs)), float(fn(X, new_l))
                if not (np.isfinite(old) and np.isfinite(new)):
                    continue
            GATE_CASES.append((f"(mkGCase {st['ncat']}%nat {natlist([int(v) for v in labs])} {int(st['index'])}%nat {int(c_)}%nat {coq_bool(validity == 2)} "
                               f"{q(old)} {q(new)} {coq_bool(r)})",
                               {"kind": "CVIART.CVI_match call", "categories": st["ncat"], "labels_before": [int(v) for v in labs], "sample": int(st["index"]), "candidate": int(c_),
                                "validity": validity, "index_before": old, "index_candidate": new, "returned": bool(r), "fit": summ}))
    return None


def main():
    tier = sys.argv[1] if len(sys.argv) > 1 else "quick"
    seed = C.seed_from_env()
    v = C.Verdict("C15", tier, seed)
    gate_ok, ob = C.proof_gate(v, "C15.v")
    rng = C.make_rng(seed, "C15")
    ns = 300 if tier == "quick" else 3000
    nf = 200 if tier == "quick" else 2000
    sstrs, ssumm, fstrs, fsumm, fails = [], [], [], [], []
    nonrobust = 0
    for _ in range(ns):
        s, summ, f = gen_seq(rng)
        sstrs.append(s); ssumm.append(summ); fails.extend(f)
    for _ in range(nf):
        s, summ, f, robust, err = gen_fit(rng)
        fails.extend(f)
        if robust:
            fstrs.append(s); fsumm.append(summ)
        else:
            nonrobust += 1
    for _ in range(300 if tier == "quick" else 3000):
        r = cviart_gate(rng)
        if r:
            fails.append(r)
    rng_r = C.make_rng(seed, "C15-remove")
    rstrs, rsumm = [], []
    for _ in range(200 if tier == "quick" else 2000):
        s_, summ_, f_ = gen_seq_remove(rng_r)
        rstrs.append(s_); rsumm.append(summ_); fails.extend(f_)
    rcodes, rbad = flow.coq_corr("C15r", "RunICVIrm", rstrs, shard=100, check_fn="icheck2", extra_imports="From ARTcorr Require Import RunICVI.\n")
    gsel = GATE_CASES[:1500] if tier == "quick" else GATE_CASES[:15000]
    gcodes, gbad = flow.coq_corr("C15g", "RunGate", [g[0] for g in gsel], shard=300, check_fn="gcheck", extra_imports="From ARTcorr Require Import RunBase.\n")
    scodes, sbad = flow.coq_corr("C15", "RunICVI", sstrs, shard=100, check_fn="icheck")
    fcodes, fbad = flow.coq_corr("C15f", "RunICVI", fstrs, shard=60, check_fn="ifcheck")
    for b in sbad + fbad + gbad + rbad:
        v.notes.append("coq shard failed: " + b[-600:])

    def site(summ, code):
        # the implementation's value differs exactly where the exact within-group dispersion is 0
        if code is not None and code % 10 == 4:
            return "iCVI_CH/wgss-rounding-residue"
        if isinstance(summ, dict) and summ.get("wgss_residue"):
            return "iCVI_CH/wgss-rounding-residue"
        return None
    flow.decide(v, "C15", gate_ok, ob, list(zip(scodes, ssumm)) + list(zip(fcodes, fsumm)) + list(zip(gcodes, [g[1] for g in gsel])) + list(zip(rcodes, rsumm)), fails, None, site)
    v.cov.update({
        "evaluations": ns + nf, "distinct_nontrivial": len(set(C.case_hash(s) for s in ssumm)) + len(set(C.case_hash(s) for s in fsumm)),
        "rule": "random add_sample / switch_label sequences (API-permitted: no switch out of a singleton) on 1-3 dimensional k/8 grid points, 2-11 points, labels chosen so that clusters appear late and merge; "
                "iCVIFuzzyART fits offline and online on complement-coded grid data, 5 modes; CVIART with all three indices; non-trivial = distinct sequence / fit",
        "traces_validated_against_impl": sum(1 for x in scodes + fcodes + gcodes if x == 0), "cviart_gate_calls_against_model": len(gsel), "add_remove_sequences_against_model": len(rstrs),
        "cviart_gate_calls_with_an_index_to_compare": sum(1 for g in gsel if g[1]["index_before"] != 0.0 or g[1]["index_candidate"] != 0.0),
        "non_robust_fits_not_judged": nonrobust, "samples": ssumm[:1]})
    v.assumptions = ["exact-real reading: where the exact within-group dispersion is 0 the index is 0 by convention; binary64 rounding residues are a recorded finding",
                     "fits in which a validity comparison was closer than 1e-9 are not judged against the model (counted as non-robust)",
                     "sklearn's davies_bouldin / silhouette are used as given (an arbitrary index in the gate theorem)"]
    sys.exit(v.finish())


if __name__ == "__main__":
    main()

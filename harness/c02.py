"""C02 - categories summarise exactly their members and respect the vigilance bound.
Proof: props/C02.v (every category = fold of the module's update rule over its
members, for every kernel; Fuzzy bounding box / monotonicity / enclosure /
size bound; ART1 template facts; Hypersphere containment and radius bounds;
Ellipsoid radius bounds; running mean) at exact real arithmetic.
Correspondence: RunBase histories (Fuzzy / ART2-A, exact) + RunKern direct
calls (all kernels, C03).  Failing-input search on the implementation: the
summary / monotonicity / bound clauses evaluated after every presented sample
for all eight modules (bare, and as SimpleARTMAP A-side)."""
import sys

import numpy as np

import common as C
import basefam as B
import histfam as H
import kernfam as K
import flow

TOL = 1e-9


def centre_row(est, kind, j):
    """the reported centre of category j as a prepared sample, or None when it is not valid data for the module"""
    if kind == "ART1":
        return None
    try:
        if getattr(est, "d_max_", 0) is None:
            est.d_min_, est.d_max_ = np.zeros(1), np.ones(1)
        cen = np.asarray(est.get_cluster_centers()[j], dtype=float).ravel()
        row = np.concatenate([cen, 1.0 - cen]) if kind == "Fuzzy" else cen
        if not np.all(np.isfinite(row)):
            return None
        est.validate_data(row.reshape(1, -1))
        return row
    except (AssertionError, NotImplementedError, ValueError, TypeError, IndexError):
        return None


def check_stream(kind, p, X, mode="MT+", eps=0.0, veto=None, ylab=None, centre_at=(), presented=None, as_dtype=None):
    """present X one row at a time through the public API and check the clauses; returns list of (sig, text, i).
    At the positions in centre_at the row is replaced by the current centre of an existing category
    (samples that coincide with a category centre); the rows actually presented are appended to `presented`."""
    import artlib
    out = []
    est = K.make(kind, p)
    sam = artlib.SimpleARTMAP(est) if ylab is not None else None
    members = {}
    enclosed = []          # (sample, category) pairs once enclosed
    lowering = (mode == "MT-" and ylab is not None)
    rho = float(p["rho"])
    X = np.array(X, dtype=float).copy()
    for i in range(len(X)):
        if i in centre_at and hasattr(est, "W") and len(est.W) > 0:
            row = centre_row(est, kind, i % len(est.W))
            if row is not None and row.shape == X[i].shape:
                X[i] = row
        x = X[i]
        if presented is not None:
            presented.append(x.tolist())
        Wb = [np.array(w, dtype=float).copy() for w in est.W] if hasattr(est, "W") else []
        xin = x.reshape(1, -1)
        if as_dtype is not None:
            xin = xin.astype(as_dtype)      # the same values handed over as an integer array (binary data)
        try:
            with np.errstate(all="ignore"):
                if sam is not None:
                    sam.partial_fit(xin, np.array([ylab[i]]), match_tracking=mode, epsilon=eps)
                else:
                    est.partial_fit(xin, match_tracking=mode, epsilon=eps)
        except Exception:
            return out         # totality is C04's business
        c = int(est.labels_[-1])
        members.setdefault(c, []).append(x)
        Wa = [np.array(w, dtype=float) for w in est.W]
        if not all(np.all(np.isfinite(w)) for w in Wa):
            return out
        d = X.shape[1]
        for j, (wb, wa) in enumerate(zip(Wb, Wa)):
            if kind == "Fuzzy":
                if np.any(wa > wb + TOL):
                    out.append(("Fuzzy/monotone", f"weight of category {j} increased", i))
            elif kind == "ART1":
                if np.any(wa[d:] > wb[d:] + TOL):
                    out.append(("ART1/monotone", f"template of category {j} increased", i))
            elif kind == "Hyper":
                if wa[-1] < wb[-1] - TOL:
                    out.append(("Hyper/radius-mono", f"radius of category {j} decreased", i))
                if np.linalg.norm(wa[:-1] - wb[:-1]) > wa[-1] - wb[-1] + 1e-7:
                    out.append(("Hyper/contains-old", f"new sphere of category {j} does not contain the old one", i))
            elif kind == "Ellip":
                if wa[-1] < wb[-1] - TOL:
                    out.append(("Ellip/radius-mono", f"radius of category {j} decreased", i))
        w = Wa[c]
        ms = np.array(members[c])
        beta = float(p.get("beta", 1.0)) if kind in ("Fuzzy", "Hyper", "Ellip") else None
        if kind == "Fuzzy":
            if beta == 1.0 and not np.array_equal(w, ms.min(axis=0)):
                out.append(("Fuzzy/box-exact", f"category {c} is not the bounding box of its members", i))
            if not lowering and np.sum(np.abs(w)) < rho * (d // 2) - 1e-7:
                out.append(("Fuzzy/size-bound", f"|w|={np.sum(np.abs(w))} < rho*d={rho * (d // 2)}", i))
        elif kind == "ART1":
            t = w[d:]
            if not np.array_equal(t, np.logical_and.reduce(ms.astype(bool), axis=0).astype(float)):
                out.append(("ART1/template-and", f"template of {c} is not the AND of its members", i))
            L = float(p["L"])
            if not np.allclose(w[:d], (L / (L - 1 + t.sum())) * t if t.sum() + L - 1 != 0 else w[:d], atol=1e-9) and len(members[c]) > 1:
                out.append(("ART1/bottom-up", f"bottom-up weights of {c} are not L/(L-1+|t|) t", i))
            if len(members[c]) > 1 and not lowering and t.sum() < rho * x.sum() - 1e-9:
                out.append(("ART1/cover", f"template covers {t.sum()} < rho*|x|={rho * x.sum()}", i))
        elif kind == "Hyper":
            if beta == 1.0 and np.any(np.linalg.norm(ms - w[:-1], axis=1) > w[-1] + 1e-7):
                out.append(("Hyper/contains-members", f"sphere {c} does not contain all its members", i))
            if not lowering and w[-1] > float(p["r_hat"]) * (1 - rho) + 1e-7:
                out.append(("Hyper/radius-bound", f"radius {w[-1]} > r_hat(1-rho)", i))
        elif kind == "Ellip":
            if not lowering and w[-1] > float(p["r_hat"]) * (1 - rho) / 2 + 1e-7:
                out.append(("Ellip/radius-bound", f"radius {w[-1]} > r_hat(1-rho)/2", i))
        elif kind in ("Gauss", "Bayes"):
            if not np.allclose(w[:d], ms.mean(axis=0), atol=1e-9) or abs(w[-1] - len(ms)) > 1e-9:
                out.append((f"{kind}/mean-count", f"category {c} does not hold the mean/count of its members", i))
            if kind == "Bayes" and len(ms) >= 2 and ylab is None:
                cov = w[d:-1].reshape(d, d)
                if np.linalg.det(cov) > rho + 1e-9:
                    out.append(("Bayes/det-bound", f"det(cov)={np.linalg.det(cov)} > rho={rho}", i))
        # enclosure is permanent (fast-learning Fuzzy, ART1, Hypersphere)
        if kind == "Fuzzy" and beta == 1.0:
            enclosed.append((x, c))
            for (xs, cs) in enclosed:
                if np.any(np.minimum(xs, Wa[cs]) != Wa[cs]):
                    out.append(("Fuzzy/enclosed-forever", f"a sample once enclosed by {cs} was expelled", i))
                    break
        if out:
            return out
    return out


class BitVeto:
    """match_reset_func answering bits[k mod len] at its k-th call (False = veto the category)"""

    def __init__(self, bits):
        self.bits, self.n = list(bits), 0

    def __call__(self, *a, **kw):
        self.n += 1
        return bool(self.bits[self.n % len(self.bits)])


def check_wrapped_stream(kind, p, X, wrap, wp, sup=None):
    """monotonicity and size-bound clauses for the base module of DualVigilanceART / TopoART (the quantifier names
    them): present X one row at a time through the wrapper and look at the base module's weights"""
    import artlib
    import contextlib, io
    out = []
    late = sup.get("late_rho") if sup else None
    base = K.make(kind, dict(p, rho=late) if late is not None else p)
    try:
        with contextlib.redirect_stdout(io.StringIO()):
            top = (artlib.DualVigilanceART(base, rho_lower_bound=wp["lb"]) if wrap == "DV"
                   else artlib.TopoART(base, beta_lower=wp["beta_lower"], tau=wp["tau"], phi=wp["phi"]))
    except AssertionError:
        return out                     # hyper-parameters rejected by validation: not a legal configuration
    if late is not None:
        # the vigilance is configured on the base module after the wrapper was built: the bounds are about the value
        # in force during training, not about the value at wrapping time
        top.base_module.set_params(rho=float(p["rho"]))
    rho = float(p["rho"])
    d = X.shape[1]
    veto = BitVeto(sup["bits"]) if sup and sup.get("bits") else None
    for i, x in enumerate(X):
        Wb = [np.array(w, dtype=float).copy() for w in base.W] if hasattr(base, "W") else []
        try:
            with np.errstate(all="ignore"), contextlib.redirect_stdout(io.StringIO()):
                if veto is not None:
                    top.partial_fit(x.reshape(1, -1), match_reset_func=veto, match_tracking=sup["mode"], epsilon=sup["eps"])
                else:
                    top.partial_fit(x.reshape(1, -1))
        except Exception:
            return out
        Wa = [np.array(w, dtype=float) for w in base.W]
        if not all(np.all(np.isfinite(w)) for w in Wa):
            return out
        for j, (wb, wa) in enumerate(zip(Wb, Wa)):
            if kind == "Fuzzy" and np.any(wa > wb + TOL):
                out.append((f"{wrap}(Fuzzy)/monotone", f"weight of base category {j} increased", i))
            elif kind == "ART1" and np.any(wa[d:] > wb[d:] + TOL):
                out.append((f"{wrap}(ART1)/monotone", f"template of base category {j} increased", i))
            elif kind in ("Hyper", "Ellip") and wa[-1] < wb[-1] - TOL:
                out.append((f"{wrap}({kind})/radius-mono", f"radius of base category {j} decreased", i))
        for j, wa in enumerate(Wa):
            if kind == "Fuzzy" and np.sum(np.abs(wa)) < rho * (d // 2) - 1e-7:
                out.append((f"{wrap}(Fuzzy)/size-bound", f"base category {j}: |w|={np.sum(np.abs(wa))} < rho*d={rho * (d // 2)}", i))
            elif kind == "Hyper" and wa[-1] > float(p["r_hat"]) * (1 - rho) + 1e-7:
                out.append((f"{wrap}(Hyper)/radius-bound", f"base category {j}: radius {wa[-1]} > r_hat(1-rho)", i))
            elif kind == "Ellip" and wa[-1] > float(p["r_hat"]) * (1 - rho) / 2 + 1e-7:
                out.append((f"{wrap}(Ellip)/radius-bound", f"base category {j}: radius {wa[-1]} > r_hat(1-rho)/2", i))
            elif kind == "Bayes" and wa[-1] >= 2:
                db = d
                det = float(np.linalg.det(wa[db:-1].reshape(db, db)))
                if det > rho * (1 + 1e-9) + 1e-15:
                    out.append((f"{wrap}(Bayes)/det-bound", f"base category {j} ({int(wa[-1])} members): det(cov)={det} > rho={rho}", i))
        if out:
            return out
    return out


def wrapped_oracle(rng, n):
    fails, cnt = [], 0
    for _ in range(n):
        kind = rng.choice(["Fuzzy", "Fuzzy", "Hyper", "Ellip", "ART1"])
        d = rng.choice([1, 2, 3])
        p = K.gen_params(rng, kind, d)
        if kind in ("Fuzzy", "Hyper", "Ellip") and p["rho"] == 0.0:
            p["rho"] = rng.choice([0.3, 0.5, 0.6, 0.8])
            if "alpha" in p and p["alpha"] == 0.0:
                p["alpha"] = 1e-3
        if kind == "ART1" and p["rho"] == 0.0:
            p["rho"] = 0.5
        wrap = rng.choice(["DV", "Topo"])
        if wrap == "Topo" and kind == "ART1":
            wrap = "DV"                      # TopoART needs a base module with a beta parameter
        wp = {"lb": float(p["rho"]) * rng.choice([0.0, 0.25, 0.5, 0.75]), "beta_lower": float(p.get("beta", 1.0)) * rng.choice([0.5, 1.0]),
              "tau": rng.choice([3, 5, 50]), "phi": rng.choice([1, 2])}
        nrows = rng.randrange(3, 16)
        X = K.gen_data(rng, kind, nrows, d)
        if rng.random() < 0.45:
            # DualVigilanceART over Fuzzy ART on continuous data with many small categories and a lower threshold anywhere
            # below rho: searches in which one category fails both thresholds and a later one passes only the lower one
            kind, wrap = "Fuzzy", "DV"
            d = rng.choice([1, 2, 3])
            p = {"rho": rng.uniform(0.3, 0.95), "alpha": rng.choice([0.0, 1e-3, 0.5]), "beta": rng.choice([1.0, 1.0, 0.5])}
            wp["lb"] = rng.uniform(0.0, p["rho"] * 0.99)
            raw = np.array([[rng.random() for _ in range(d)] for _ in range(rng.randrange(5, 60))])
            X = np.hstack([raw, 1.0 - raw])
        if wrap == "Topo" and rng.random() < 0.15:
            wp["beta_lower"] = rng.choice([0.0, -0.5, -0.25])        # accepted by validation? then the categories must still only grow
        sup = None
        bayes = rng.random() < 0.1
        if bayes:
            # DualVigilanceART over Bayesian ART (inverted vigilance test: det(cov) <= rho), reset function, MT+ with a visible epsilon
            kind, wrap, d = "Bayes", "DV", 2
            p = {"rho": rng.choice([2e-4, 1e-3, 5e-3]), "cov_init": 0.01 * np.eye(2)}
            wp["lb"] = p["rho"] * rng.choice([0.05, 0.25])
            X = np.array([[rng.random() for _ in range(2)] for _ in range(rng.randrange(10, 40))])
            sup = {"bits": [rng.random() < 0.55 for _ in range(11)], "mode": "MT+", "eps": rng.choice([1e-4, 2e-4, 1e-3])}
        if sup is None and rng.random() < 0.4:
            # a reset function and every match-tracking mode: the bounds are on the configured vigilance whatever the
            # supervisor vetoes (a veto may only make the search stricter, MT-/MT0/MT~ leave it at most as strict)
            sup = {"bits": [rng.random() < 0.55 for _ in range(11)], "mode": rng.choice(["MT+", "MT+", "MT1", "MT~"]),
                   "eps": rng.choice([0.0, 1e-10, 1e-3, 0.05])}
        if not bayes and rng.random() < 0.12:
            # TopoART over Fuzzy ART on continuous data with a reset function and MT+: the search may raise the vigilance,
            # never lower it below the configured one
            kind, wrap = "Fuzzy", "Topo"
            d = rng.choice([1, 2, 3])
            p = {"rho": rng.uniform(0.3, 0.95), "alpha": rng.choice([0.0, 1e-3, 0.5]), "beta": rng.choice([1.0, 1.0, 0.5])}
            wp["beta_lower"] = p["beta"] * rng.choice([0.5, 1.0])
            raw = np.array([[rng.random() for _ in range(d)] for _ in range(rng.randrange(5, 40))])
            X = np.hstack([raw, 1.0 - raw])
            sup = {"bits": [rng.random() < 0.55 for _ in range(11)], "mode": "MT+", "eps": rng.choice([0.0, 1e-10, 1e-3, 0.05])}
        if not bayes and sup is None and kind in ("Fuzzy", "Hyper", "Ellip") and rng.random() < 0.3:
            sup = {"late_rho": (wp["lb"] + 0.01) if wrap == "DV" else rng.choice([0.0, 0.1, 0.2])}
        cnt += 1
        for sig, text, i in check_wrapped_stream(kind, p, X, wrap, wp, sup):
            fails.append({"signature": sig, "text": text,
                          "replay": {"kind": kind, "wrapper": wrap, "wrapper_params": wp, "supervisor": sup,
                                     "params": {k: (np.asarray(v).tolist() if isinstance(v, np.ndarray) else v) for k, v in p.items()},
                                     "X": X.tolist(), "failing_sample": i}})
    return fails, cnt


def gen_stream(rng):
    kind = rng.choice(K.KINDS)
    d = rng.choice([1, 2, 3]) if kind in ("Bayes", "Quad") else rng.choice([1, 2, 3, 4])
    p = K.gen_params(rng, kind, d)
    if kind in ("Fuzzy", "Hyper", "Ellip") and rng.random() < 0.6:
        p["beta"] = 1.0
    if kind == "Fuzzy" and p["rho"] == 0.0 and p["alpha"] == 0.0:
        p["alpha"] = 1e-3
    if kind in ("Hyper", "Ellip") and p["rho"] == 0.0 and p["alpha"] == 0.0:
        p["alpha"] = 1e-3
    if kind == "ART1" and p["rho"] == 0.0 and p["L"] == 1.0:
        p["L"] = 2.0
    X = K.gen_data(rng, kind, rng.randrange(3, 16), d)
    sup = rng.random() < 0.35
    mode = rng.choice(B.MODES) if sup else "MT+"
    eps = rng.choice([0.0, 1e-10, 1e-3, 0.05]) if sup else 0.0
    y = [rng.randrange(rng.choice([1, 2, 3])) for _ in X] if sup else None
    return kind, p, X, mode, eps, y


def stream_oracle(rng, n):
    fails, cnt, kinds = [], 0, {}
    for _ in range(n):
        kind, p, X, mode, eps, y = gen_stream(rng)
        cnt += 1
        kinds[kind] = kinds.get(kind, 0) + 1
        centre_at = set(i for i in range(2, len(X)) if rng.random() < 0.3) if rng.random() < 0.5 else set()
        as_dtype = None
        if kind in ("Fuzzy", "Hyper", "Ellip", "ART1", "Gauss") and rng.random() < 0.15:
            # binary data stored as (unsigned) integers: the same categories as with the float values
            d0 = X.shape[1] // 2 if kind == "Fuzzy" else X.shape[1]
            raw = np.array([[float(rng.randrange(2)) for _ in range(d0)] for _ in range(len(X))])
            if kind == "ART1":
                raw[raw.sum(axis=1) == 0, 0] = 1.0
            X = np.hstack([raw, 1.0 - raw]) if kind == "Fuzzy" else raw
            as_dtype, centre_at = rng.choice(["uint8", "uint16", "int64", "bool"]), set()
        presented = []
        for sig, text, i in check_stream(kind, p, X, mode, eps, None, y, centre_at, presented, as_dtype):
            fails.append({"signature": sig, "text": text,
                          "replay": {"kind": kind, "params": {k: (np.asarray(v).tolist() if isinstance(v, np.ndarray) else v) for k, v in p.items()},
                                     "X": presented, "presented_as_dtype": as_dtype, "y": y, "mode": mode, "eps": eps, "failing_sample": i,
                                     "rows_that_are_category_centres": sorted(centre_at)}})
    return fails, cnt, kinds


def gen_hist(rng):
    k, ops = H.gen_history(rng, kinds=("Fuzzy", "Fuzzy", "ART2A"), allow_predict=False)
    if k["kind"] == "Fuzzy" and rng.random() < 0.6:
        from fractions import Fraction
        k["beta"] = Fraction(1)
    return k, ops


def main():
    tier = sys.argv[1] if len(sys.argv) > 1 else "quick"
    seed = C.seed_from_env()
    v = H.run_family("C02", tier, seed, 300, 3000, gen_hist, lambda k, ops: [],
                     "exact-regime histories (Fuzzy, 60% fast learning; ART2-A) compared with the model after every call, plus streams for all eight modules "
                     "(bare and as SimpleARTMAP A-side, all modes) checked sample by sample on the implementation; non-trivial = distinct history reaching >= 2 categories",
                     ["exact-real semantics: a beta<1 update may exceed the old weight by one ulp in binary64 (tolerance 1e-9 in the implementation-side oracle)",
                      "size-bound clauses are stated for the vigilance in force; under MT- with a reset function the vigilance in force is lower than rho by design (C01)"])
    sf, sn, kinds = stream_oracle(C.make_rng(seed, "C02-streams"), 400 if tier == "quick" else 4000)
    for f in sf:
        kf = C.match_known("C02", f["signature"])
        if kf is not None:
            v.known(f["signature"], kf.get("text", f["signature"]))
        else:
            v.violation(dict(f["replay"], property="C02", signature=f["signature"], what=f["text"]))
    wf, wn = wrapped_oracle(C.make_rng(seed, "C02-wrapped"), 400 if tier == "quick" else 4000)
    for f in wf:
        kf = C.match_known("C02", f["signature"])
        if kf is not None:
            v.known(f["signature"], kf.get("text", f["signature"]))
        else:
            v.violation(dict(f["replay"], property="C02", signature=f["signature"], what=f["text"]))
    # "FusionART channels": channels whose module weight is longer than the sample slice (exact summary per channel)
    import c10
    rng_c = C.make_rng(seed, "C02-channels")
    n_ch = 80 if tier == "quick" else 800
    for _ in range(n_ch):
        f = c10.long_weight(rng_c)
        if f:
            kf = C.match_known("C02", f["signature"])
            if kf is not None:
                v.known(f["signature"], kf.get("text", f["signature"]))
            else:
                v.violation(dict(f["replay"], property="C02", signature=f["signature"], what=f["text"]))
    v.cov["fusion_long_weight_channel_fits"] = n_ch
    v.cov["implementation_streams"] = sn
    v.cov["stream_kinds"] = kinds
    v.cov["wrapped_base_module_streams"] = wn
    sys.exit(v.finish())


if __name__ == "__main__":
    main()

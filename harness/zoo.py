"""Compound estimators driven on the real implementation only (oracles on
implementation observations).  Used for the failing-input search of C05, C07,
C08 on estimators whose Gallina model is checked elsewhere or not yet."""
import copy
import io
import contextlib
from fractions import Fraction

import numpy as np

import basefam as B


def _fz(rng, rho=None, beta=None):
    import artlib
    rho = rho if rho is not None else rng.choice([0.0, 0.25, 0.5, 0.75, 0.875])
    beta = beta if beta is not None else rng.choice([1.0, 1.0, 0.5])
    return artlib.FuzzyART(rho=float(rho), alpha=rng.choice([1 / 1024, 0.125]), beta=float(beta))


def cc_rows(rng, n, d):
    return np.array([[float(v) for v in r] for r in B.grid_rows(rng, n, d)], dtype=float)


def make(name, rng):
    """returns dict(est, gen(n)->(X,y), pf(bool), supervised(bool))"""
    import artlib
    with contextlib.redirect_stdout(io.StringIO()):
        if name in ("DeepSup", "DeepUnsup", "SMART"):
            nl = rng.choice([2, 3])
            rhos = sorted(rng.sample([0.0, 0.25, 0.5, 0.625, 0.75, 0.875], nl))
            d = rng.choice([1, 2])
            if name == "SMART":
                est = artlib.SMART(artlib.FuzzyART, rhos, {"alpha": 1 / 1024, "beta": 1.0})
                return dict(est=est, gen=lambda n: (cc_rows(rng, n, d), None), pf=True, sup=False, kind="smart")
            mods = [_fz(rng, rho=r, beta=1.0) for r in rhos]
            est = artlib.DeepARTMAP(mods)
            dsl = [rng.choice([1, 2]) for _ in range(nl)]
            if name == "DeepSup":
                ncls = rng.choice([1, 2, 3])
                def gen(n):
                    return ([cc_rows(rng, n, di) for di in dsl], ydt(rng, [rng.randrange(ncls) for _ in range(n)]))
                return dict(est=est, gen=gen, pf=True, sup=True, kind="deep")
            def gen(n):
                return ([cc_rows(rng, n, di) for di in dsl], None)
            return dict(est=est, gen=gen, pf=True, sup=False, kind="deep")
        if name in ("FALCON", "TDFALCON"):
            ds = [rng.choice([1, 2]), 1, 1]
            mods = [_fz(rng, beta=1.0) for _ in range(3)]
            g = [0.5, 0.25, 0.25]
            if name == "FALCON":
                est = artlib.FALCON(mods[0], mods[1], mods[2], gamma_values=g, channel_dims=[2 * d for d in ds])
            else:
                est = artlib.TD_FALCON(mods[0], mods[1], mods[2], gamma_values=g, channel_dims=[2 * d for d in ds],
                                       td_alpha=rng.choice([1.0, 0.5]), td_lambda=rng.choice([1.0, 0.5, 0.0]))
            for mm, dd in zip(mods, ds):          # as if prepare_data had seen data spanning the unit cube
                mm.d_min_, mm.d_max_ = np.zeros(dd), np.ones(dd)
            def gen(n):
                return ([cc_rows(rng, n, ds[0]), cc_rows(rng, n, 1), cc_rows(rng, n, 1)], None)
            return dict(est=est, gen=gen, pf=True, sup=False, kind="falcon", fit_ok=(name == "FALCON"))
        if name == "Fusion":
            nch = rng.choice([1, 2, 3])
            ds = [rng.choice([1, 2]) for _ in range(nch)]
            mods = [_fz(rng) for _ in range(nch)]
            g = [1.0] if nch == 1 else ([0.5, 0.5] if nch == 2 else [0.5, 0.25, 0.25])
            est = artlib.FusionART(mods, g, [2 * d for d in ds])
            gen = lambda n: (np.hstack([cc_rows(rng, n, d) for d in ds]), None)
            return dict(est=est, gen=gen, pf=True, sup=False)
        if name == "DualVigilance":
            rho = rng.choice([0.5, 0.75, 0.875])
            # lower bounds from "everything is one cluster" up to just below the upper vigilance (several clusters of several categories)
            est = artlib.DualVigilanceART(_fz(rng, rho=rho), rho_lower_bound=float(rng.choice([0.0, 0.125, 0.25, rho / 2, rho - 0.125, rho - 0.0625])))
            d = rng.choice([1, 2])
            return dict(est=est, gen=lambda n: (cc_rows(rng, n, d), None), pf=True, sup=False)
        if name == "Topo":
            tau = rng.choice([2, 3, 5, 50])
            phi = rng.choice([p for p in [1, 2, 3] if p <= tau])
            est = artlib.TopoART(_fz(rng, beta=1.0), beta_lower=rng.choice([0.5, 1.0]), tau=tau, phi=phi)
            d = rng.choice([1, 2])
            return dict(est=est, gen=lambda n: (cc_rows(rng, n, d), None), pf=True, sup=False)
        if name == "CVIART":
            base = _fz(rng)
            if rng.random() < 0.3:      # a base module whose clusters are groups of categories
                r = rng.choice([0.75, 0.875])
                base = artlib.DualVigilanceART(_fz(rng, rho=r), rho_lower_bound=float(rng.choice([0.0, 0.125, 0.25])))
            est = artlib.CVIART(base, validity=rng.choice([1, 2, 3]))
            d = 2
            return dict(est=est, gen=lambda n: (cc_rows(rng, max(n, 3), d), None), pf=False, sup=False)
        if name == "iCVIFuzzy":
            from artlib.cvi.iCVIFuzzyArt import iCVIFuzzyART
            est = iCVIFuzzyART(rho=float(rng.choice([0.25, 0.5, 0.75])), alpha=1 / 1024, beta=1.0, validity=1,
                               offline=rng.choice([True, False]))
            d = 2
            return dict(est=est, gen=lambda n: (cc_rows(rng, n, d), None), pf=False, sup=False)
        if name == "SimpleARTMAP":
            est = artlib.SimpleARTMAP(_fz(rng))
            d = rng.choice([1, 2])
            ncls = rng.choice([1, 2, 3])
            names = rng.choice([[0, 1, 2], [0, 300, 1], [5, 70000, 2], [1, 256, 0]])      # class labels need not be small
            late = rng.random() < 0.6        # the last class only turns up in the second half of the stream

            def gen(n):
                ys = [names[rng.randrange(max(1, ncls - 1) if (late and i < (n + 1) // 2) else ncls)] for i in range(n)]
                return cc_rows(rng, n, d), ydt(rng, ys)
            return dict(est=est, gen=gen, pf=True, sup=True)
        if name in ("SAM_DV", "ARTMAP_DV"):
            rho = rng.choice([0.5, 0.75, 0.875])
            dv = artlib.DualVigilanceART(_fz(rng, rho=rho), rho_lower_bound=float(rng.choice([0.0, 0.125, 0.25, 0.375])))
            d = rng.choice([1, 2])
            if name == "SAM_DV":
                ncls = rng.choice([2, 3])
                return dict(est=artlib.SimpleARTMAP(dv), gen=lambda n: (cc_rows(rng, n, d), ydt(rng, [rng.randrange(ncls) for _ in range(n)])), pf=True, sup=True)
            return dict(est=artlib.ARTMAP(dv, _fz(rng)), gen=lambda n: (cc_rows(rng, n, d), cc_rows(rng, n, 1)), pf=True, sup=True)
        if name == "SAM_Fusion":
            ds = [rng.choice([1, 2]) for _ in range(2)]
            fus = artlib.FusionART([_fz(rng) for _ in range(2)], [0.5, 0.5], [2 * d for d in ds])
            ncls = rng.choice([2, 3])
            return dict(est=artlib.SimpleARTMAP(fus), gen=lambda n: (np.hstack([cc_rows(rng, n, d) for d in ds]), ydt(rng, [rng.randrange(ncls) for _ in range(n)])), pf=True, sup=True)
        if name == "SAM_K":
            import kernfam
            kind = rng.choice(kernfam.KINDS)
            d = rng.choice([1, 2, 3])
            pk = kernfam.gen_params(rng, kind, d)
            ncls = rng.choice([2, 3])
            return dict(est=artlib.SimpleARTMAP(kernfam.make(kind, pk)), gen=lambda n: (np.asarray(kernfam.gen_data(rng, kind, max(n, 3), d), dtype=float), ydt(rng, [rng.randrange(ncls) for _ in range(max(n, 3))])), pf=True, sup=True)
        if name == "ARTMAP":
            est = artlib.ARTMAP(_fz(rng), _fz(rng))
            d = rng.choice([1, 2])
            return dict(est=est, gen=lambda n: (cc_rows(rng, n, d), cc_rows(rng, n, 1)), pf=True, sup=True)
    raise ValueError(name)


def ydt(rng, y):
    """class targets as callers store them: booleans for two classes, a narrow unsigned dtype, or the platform integer"""
    y = np.asarray(y)
    r = rng.random()
    if y.size and y.min() >= 0 and y.max() <= 1 and r < 0.3:
        return y.astype(bool)
    if y.size and y.min() >= 0 and y.max() < 256 and r < 0.55:
        return y.astype(np.uint8)
    if r < 0.7:
        return y.astype(np.int32)
    return y


NAMES = ["Fusion", "DualVigilance", "Topo", "CVIART", "iCVIFuzzy", "SimpleARTMAP", "ARTMAP"]
# compound modules as the A-side of a supervised wrapper (C07, C09 quantify over these nestings)
NESTED_NAMES = ["SAM_DV", "ARTMAP_DV", "SAM_Fusion", "SAM_K"]


class TableVeto:
    """stateful reset function: the k-th call answers bits[k mod 13]"""

    def __init__(self, rng):
        self.bits = [rng.random() < 0.5 for _ in range(13)]
        self.n = 0

    def __call__(self, *a, **kw):
        self.n += 1
        return self.bits[self.n % 13]


def take(X, ix):
    """row subset of the (possibly multi-matrix) data"""
    if isinstance(X, list):
        return [x[ix] for x in X]
    return X[ix]


def nrows(X):
    return len(X[0]) if isinstance(X, list) else len(X)


def call(est, op, X, y, mode="MT+", eps=0.0, veto=None):
    with contextlib.redirect_stdout(io.StringIO()), np.errstate(all="ignore"):
        cn = type(est).__name__
        if veto is not None and y is None and cn in ("FusionART", "DualVigilanceART", "TopoART"):
            return getattr(est, op)(X, match_reset_func=veto, match_tracking=mode, epsilon=eps)
        if cn in ("FALCON", "TD_FALCON"):
            return getattr(est, op)(X[0], X[1], X[2])
        if cn == "SMART":
            return getattr(est, op)(X, match_tracking=mode, epsilon=eps)
        if cn == "DeepARTMAP":
            return getattr(est, op)(X, y, match_tracking=mode, epsilon=eps)
        if y is not None:
            return getattr(est, op)(X, y, match_tracking=mode, epsilon=eps)
        if type(est).__name__ in ("CVIART", "iCVIFuzzyART") and op == "fit":
            return est.fit(X, match_tracking=mode, epsilon=eps)
        return getattr(est, op)(X, match_tracking=mode, epsilon=eps)


def views(name, est):
    """(label, labels_, n_categories, counters, sample_counter, check_counters, allow_minus1, rgs)"""
    out = []
    if name == "Fusion":
        out.append(("FusionART", est.labels_, len(est.W), est.weight_sample_counter_, est.sample_counter_, True, False, est.n_clusters))
        for kx, m in enumerate(est.modules):
            out.append((f"FusionART.modules[{kx}]", est.labels_, len(m.W), m.weight_sample_counter_, None, True, False, m.n_clusters))
    elif name == "DualVigilance":
        out.append(("DualVigilanceART", est.labels_, est.n_clusters, None, est.sample_counter_, False, False, est.n_clusters))
    elif name == "Topo":
        out.append(("TopoART", est.labels_, len(est.W), None, est.sample_counter_, False, True, est.n_clusters))
    elif name == "CVIART":
        if type(est.base_module).__name__ == "DualVigilanceART":
            # labels_ are cluster labels: the clusters are the distinct values of the base module's map
            out.append(("CVIART(DualVigilanceART)", est.labels_, est.base_module.n_clusters, None, None, False, False, est.n_clusters))
        else:
            out.append(("CVIART", est.labels_, len(est.W), est.base_module.weight_sample_counter_, None, True, False, est.n_clusters))
    elif name == "iCVIFuzzy":
        out.append(("iCVIFuzzyART", est.labels_, len(est.W), est.weight_sample_counter_, est.sample_counter_, True, False, est.n_clusters))
    elif name == "SimpleARTMAP":
        m = est.module_a
        out.append(("SimpleARTMAP.module_a", m.labels_, len(m.W), m.weight_sample_counter_, m.sample_counter_, True, False, m.n_clusters))
    elif name == "ARTMAP":
        for side, m in (("a", est.module_a), ("b", est.module_b)):
            out.append((f"ARTMAP.module_{side}", m.labels_, len(m.W), m.weight_sample_counter_, m.sample_counter_, True, False, m.n_clusters))
    return out


def gen_zoo_history(rng, name, veto_ok=False, refusals=False):
    z = make(name, rng)
    if veto_ok and name in ("Fusion", "DualVigilance", "Topo") and rng.random() < 0.6:
        z["veto"] = TableVeto(rng)
    n = rng.randrange(3, 14)
    X, y = z["gen"](n)
    mode = rng.choice(B.MODES)
    eps = rng.choice([0.0, 1 / 1024, 0.0625])
    if z["pf"]:
        shape = rng.choice(["fit", "pf", "fit+fit", "fit+pf", "pf1"])
    else:
        # refusals: also try the incremental call these estimators do not offer (C05: a refusal changes nothing)
        shape = rng.choice(["fit", "fit+fit", "fit+pf"] if refusals else ["fit", "fit+fit"])
    idx = list(range(nrows(X)))
    ops = []
    if shape == "fit":
        ops = [("fit", idx)]
    elif shape == "pf":
        ops = [("partial_fit", b) for b in B.split_batches(rng, idx, rng.randrange(1, 4))]
    elif shape == "pf1":
        ops = [("partial_fit", [i]) for i in idx[:6]]
    elif shape == "fit+fit":
        h = max(2, len(idx) // 2)
        ops = [("fit", idx[:h]), ("fit", list(reversed(idx)))]
    else:
        h = max(2, len(idx) // 2)
        ops = [("fit", idx[:h]), ("partial_fit", idx[h:] or idx[:1])]
    return z, X, y, ops, mode, eps


def describe(name, z, X, y, ops, mode, eps, i):
    est = z["est"]
    try:
        ps = repr(est.get_params() if name not in ("Fusion",) else {"gamma": list(est.params["gamma_values"])})[:400]
    except Exception:
        ps = type(est).__name__
    return {"estimator": name, "params": ps,
            "X": [x.tolist() for x in X] if isinstance(X, list) else X.tolist(), "y": None if y is None else np.asarray(y).tolist(),
            "ops": [(o, list(ix)) for o, ix in ops], "mode": mode, "eps": eps, "failing_op": i,
            "reset_function_bits": (z["veto"].bits if z.get("veto") is not None else None)}


def gen_refit_history(rng, name):
    """a model that already holds several categories / clusters is fitted again (on a permuted part of the data, then on
    all of it): every fit starts from nothing, whatever the previous one left"""
    z = make(name, rng)
    n = rng.randrange(8, 16)
    X, y = z["gen"](n)
    idx = list(range(nrows(X)))
    second = rng.sample(idx, rng.randrange(2, len(idx)))
    third = list(reversed(idx))
    return z, X, y, [("fit", idx), ("fit", second), ("fit", third)], rng.choice(B.MODES), rng.choice([0.0, 1 / 1024])


def book_oracle_all(rng, n, gen=None):
    import c05
    fails, count = [], 0
    for _ in range(n):
        name = rng.choice(NAMES)
        z, X, y, ops, mode, eps = gen_zoo_history(rng, name, refusals=True) if gen is None else gen(rng, name)
        est = z["est"]
        presented = 0
        supplied = []
        count += 1
        for i, (op, ix) in enumerate(ops):
            Xi = take(X, ix)
            yi = None if y is None else np.array(np.asarray(y)[ix])
            if name == "SimpleARTMAP" and yi is not None:
                # targets arrive in the narrowest dtype that holds the batch (uint8 first, wider later is common)
                yi = yi.astype(np.min_scalar_type(int(yi.max())) if rng.random() < 0.6 else yi.dtype)
            try:
                call(est, op, Xi, yi, mode, eps)
            except NotImplementedError:
                # a refusal (CVIART / iCVIFuzzyART offer no incremental training): the book-keeping is as before the call
                for (lab, labels, nW, wsc, sc, chk, minus1, ncl) in views(name, est):
                    why = c05.book_ok(np.asarray(labels), nW, wsc if wsc is not None else [], sc if sc is not None else presented,
                                      presented, check_counters=chk and wsc is not None, allow_minus1=minus1)
                    if why:
                        fails.append({"signature": f"{lab}.{op}/book", "text": f"{lab}: {op} refused (NotImplementedError) but left {why}",
                                      "replay": describe(name, z, X, y, ops, mode, eps, i)})
                        break
                break
            except Exception as e:
                break          # totality is C04's / C06's business
            presented = len(ix) if op == "fit" else presented + len(ix)
            bad = None
            if name == "SimpleARTMAP" and yi is not None:
                # the stored targets: one per sample presented since the last fit, and they are the model's own record
                # (the caller re-uses its label buffer after the call)
                given = [int(v) for v in np.asarray(y)[ix]]
                supplied = given if op == "fit" else supplied + given
                yi[:] = yi.max() + 7
                if [int(v) for v in est.labels_] != supplied:
                    bad = ("SimpleARTMAP", f"labels_ (the stored targets) is {[int(v) for v in est.labels_]} after {presented} samples with targets {supplied}")
            for (lab, labels, nW, wsc, sc, chk, minus1, ncl) in ([] if bad else views(name, est)):
                why = c05.book_ok(np.asarray(labels), nW, wsc if wsc is not None else [], sc if sc is not None else presented,
                                  presented, check_counters=chk and wsc is not None, allow_minus1=minus1)
                if why is None and chk and wsc is not None and sc is None and sum(wsc) != presented:
                    why = f"sum(counters)={sum(wsc)} but {presented} presented"
                if why is None and ncl != nW:
                    why = "n_clusters != number of stored categories"
                if why:
                    bad = (lab, why)
                    break
            if not bad and name == "DualVigilance":
                # the cluster book-keeping of the wrapper: one map entry per stored base category, onto 0 .. n_clusters-1
                mp, nb = dict(est.map), len(est.base_module.W)
                if sorted(mp) != list(range(nb)):
                    bad = ("DualVigilanceART", f"map has entries for categories {sorted(mp)} but the base module stores {nb}")
                elif sorted(set(mp.values())) != list(range(est.n_clusters)):
                    bad = ("DualVigilanceART", f"map values {sorted(set(mp.values()))} are not 0 .. n_clusters-1 = {est.n_clusters - 1}")
            if bad:
                fails.append({"signature": f"{bad[0]}.{op}/book", "text": f"{bad[0]}: {bad[1]}",
                              "replay": describe(name, z, X, y, ops, mode, eps, i)})
                break
    return fails, count


ALL_NAMES = NAMES + ["DeepSup", "DeepUnsup", "SMART", "FALCON", "TDFALCON"]


def arr(a):
    return np.asarray(a, dtype=float).tolist()


def canon(est, depth=0):
    """canonical, comparable snapshot of any estimator (weights, labels, maps, counters, params, nested modules)"""
    if depth > 6:
        return "..."
    cn = type(est).__name__
    out = {"class": cn}
    d = dict(est.__dict__)
    for k in sorted(d):
        v = d[k]
        if k in ("data", "X", "iCVI", "index"):
            continue
        if k == "params":
            out[k] = {kk: (canon(vv, depth + 1) if hasattr(vv, "get_params") else (arr(vv) if isinstance(vv, (np.ndarray, list)) else vv))
                      for kk, vv in sorted(v.items(), key=lambda kv: str(kv[0]))}
        elif k == "W":
            out[k] = [arr(w) for w in v]
        elif hasattr(v, "get_params") or cn in ("FALCON", "TD_FALCON") and k == "fusion_art":
            out[k] = canon(v, depth + 1)
        elif isinstance(v, (list, tuple)) and v and hasattr(v[0], "get_params"):
            out[k] = [canon(m, depth + 1) for m in v]
        elif isinstance(v, np.ndarray):
            out[k] = v.tolist()
        elif isinstance(v, dict):
            out[k] = sorted((str(a), str(b)) for a, b in v.items())
        elif isinstance(v, (int, float, bool, str, type(None))):
            out[k] = v
        elif isinstance(v, list):
            out[k] = [x if isinstance(x, (int, float, bool, str)) else repr(x) for x in v]
        else:
            out[k] = repr(type(v))
    return out


def all_params(est, depth=0, path="est"):
    """every params dict reachable from the estimator: path -> deep copy (C07)"""
    out = {}
    if depth > 6:
        return out
    d = getattr(est, "__dict__", {})
    if "params" in d and isinstance(d["params"], dict):
        out[path] = {k: (arr(v) if isinstance(v, (np.ndarray, list)) else (v if not hasattr(v, "get_params") else "<module>"))
                     for k, v in d["params"].items()}
    for k, v in d.items():
        if hasattr(v, "get_params") or (type(est).__name__ in ("FALCON", "TD_FALCON") and k == "fusion_art"):
            out.update(all_params(v, depth + 1, f"{path}.{k}"))
        elif isinstance(v, (list, tuple)) and v and hasattr(v[0], "get_params"):
            for i, m in enumerate(v):
                out.update(all_params(m, depth + 1, f"{path}.{k}[{i}]"))
    return out

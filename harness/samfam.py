"""SimpleARTMAP / ARTMAP / DeepARTMAP cases: generation, driving the real
library, emission for corr/RunSam.v.  Used by C09 and C12."""
import io
import contextlib
from fractions import Fraction

import numpy as np

import common as C
import basefam as B
from common import q, qlist, qmat, natlist, coq_list


def pairs(ps):
    return "[" + "; ".join(f"({int(a)}, {int(b)})" for a, b in ps) + "]%nat"


def lobs_of(sam):
    m = sam.module_a
    s = B.snapshot(m)
    return {"snap": s, "map": sorted((int(a), int(b)) for a, b in sam.map.items()),
            "bl": [int(v) for v in getattr(sam, "labels_", [])]}


def snap_coq(s):
    return (f"(mkSnap {qmat(s['W'])} {natlist(s['labels'])} {natlist(s['wsc'])} {s['sc']}%nat {qlist(s['rho'])})")


def lobs_coq(l):
    return f"(mkLobs {snap_coq(l['snap'])} {pairs(l['map'])} {natlist(l['bl'])})"


def fr_rows(X):
    return [[Fraction(float(v)) for v in r] for r in X]


# ------------------------------------------------------------------ SimpleARTMAP
def gen_scase(rng):
    kind = rng.choice(["Fuzzy", "Fuzzy", "ART2A"])
    k, rows = B.gen_kernel_and_rows(rng, kind, nmax=13)
    ncls = rng.choice([1, 2, 2, 3])
    # contradictory / duplicated labels on identical samples are frequent (small row pools)
    y = [rng.randrange(ncls) for _ in rows]
    mode, eps = B.gen_mode(rng)
    if rng.random() < 0.5:
        eps = Fraction(1, 1024)
    shape = rng.choice(["fit", "fit2", "pf", "fit+pf", "fit+fit", "pf1"])
    idx = list(range(len(rows)))
    ops = []
    if shape == "fit":
        ops = [("fit", idx, 1)]
    elif shape == "fit2":
        ops = [("fit", idx, rng.choice([2, 3]))]
    elif shape == "pf":
        ops = [("partial_fit", b, 1) for b in B.split_batches(rng, idx, rng.randrange(1, 4))]
    elif shape == "pf1":
        ops = [("partial_fit", [i], 1) for i in idx[:7]]
    elif shape == "fit+pf":
        h = max(1, len(idx) // 2)
        ops = [("fit", idx[:h], 1), ("partial_fit", idx[h:] or idx[:1], 1)]
    else:
        h = max(1, len(idx) // 2)
        ops = [("fit", idx[:h], 1), ("fit", list(reversed(idx)), 1)]
    out = []
    for o in ops:
        out.append(o)
        if rng.random() < 0.5:
            out.append(("predict", [rng.randrange(len(rows)) for _ in range(rng.randrange(1, 5))], 0))
    return {"k": k, "rows": rows, "y": y, "mode": mode, "eps": eps, "ops": out}


def run_scase(c):
    import artlib
    est = artlib.SimpleARTMAP(B.make_est(c["k"]))
    X = np.array(c["rows"], dtype=float)
    y = np.array(c["y"], dtype=int)
    obs = []
    for op, ix, it in c["ops"]:
        rec = {"ok": True, "ret": []}
        try:
            with np.errstate(all="ignore"):
                if op == "fit":
                    est.fit(X[ix], y[ix], max_iter=it, match_tracking=c["mode"], epsilon=float(c["eps"]))
                elif op == "partial_fit":
                    est.partial_fit(X[ix], y[ix], match_tracking=c["mode"], epsilon=float(c["eps"]))
                else:
                    a, b = est.predict_ab(X[ix])
                    rec["ret"] = list(zip([int(v) for v in a], [int(v) for v in b]))
            if not B.finite_all(est.module_a):
                rec["ok"] = False
        except Exception as e:
            rec["ok"] = False
            rec["err"] = type(e).__name__ + ": " + str(e)[:80]
        rec["l"] = lobs_of(est) if rec["ok"] else None
        obs.append(rec)
        if not rec["ok"]:
            break
    return est, obs


def scase_coq(c, obs):
    X = fr_rows(c["rows"])
    items = []
    for (op, ix, it), r in zip(c["ops"], obs):
        Xi = [X[i] for i in ix]
        yi = [c["y"][i] for i in ix]
        if op == "fit":
            o = f"SFit {qmat(Xi)} {natlist(yi)} {it}%nat {B.MODE_COQ[c['mode']]} {q(c['eps'])}"
        elif op == "partial_fit":
            o = f"SPFit {qmat(Xi)} {natlist(yi)} {B.MODE_COQ[c['mode']]} {q(c['eps'])}"
        else:
            o = f"SPredict {qmat(Xi)}"
        ob = "SUndef" if not r["ok"] else f"(SOk {lobs_coq(r['l'])} {pairs(r['ret'])})"
        items.append(f"({o}, {ob})")
    return f"(mkSCase {B.kspec_coq(c['k'])} [{q(c['k']['rho'])}] {coq_list(items)})"


def summary_s(c):
    return {"estimator": "SimpleARTMAP(" + str({k: str(v) for k, v in c["k"].items()}) + ")",
            "rows": [[str(v) for v in r] for r in c["rows"]], "y": c["y"], "mode": c["mode"], "eps": str(c["eps"]),
            "ops": [(o, list(ix), it) for o, ix, it in c["ops"]]}


# ------------------------------------------------------------------ ARTMAP
def gen_acase(rng):
    ka, rows = B.gen_kernel_and_rows(rng, "Fuzzy", nmax=12)
    kb = B.gen_fuzzy_kernel(rng)
    kb["beta"] = Fraction(1)
    yrows = B.grid_rows(rng, len(rows), 1, pool=rng.choice([2, 3, 4]))
    mode, eps = B.gen_mode(rng)
    idx = list(range(len(rows)))
    shape = rng.choice(["fit", "pf", "fit+pf", "fit+fit"])
    if shape == "fit":
        ops = [("fit", idx)]
    elif shape == "pf":
        ops = [("partial_fit", b) for b in B.split_batches(rng, idx, rng.randrange(1, 4))]
    elif shape == "fit+pf":
        h = max(1, len(idx) // 2)
        ops = [("fit", idx[:h]), ("partial_fit", idx[h:] or idx[:1])]
    else:
        ops = [("fit", idx[: max(1, len(idx) // 2)]), ("fit", list(reversed(idx)))]
    out = []
    for o in ops:
        out.append(o)
        if rng.random() < 0.5:
            out.append(("predict", [rng.randrange(len(rows)) for _ in range(rng.randrange(1, 4))]))
    return {"ka": ka, "kb": kb, "rows": rows, "yrows": yrows, "mode": mode, "eps": eps, "ops": out}


def run_acase(c):
    import artlib
    est = artlib.ARTMAP(B.make_est(c["ka"]), B.make_est(c["kb"]))
    X = np.array(c["rows"], dtype=float)
    Y = np.array(c["yrows"], dtype=float)
    obs = []
    for op, ix in c["ops"]:
        rec = {"ok": True, "ret": []}
        try:
            with np.errstate(all="ignore"):
                if op == "fit":
                    est.fit(X[ix], Y[ix], match_tracking=c["mode"], epsilon=float(c["eps"]))
                elif op == "partial_fit":
                    est.partial_fit(X[ix], Y[ix], match_tracking=c["mode"], epsilon=float(c["eps"]))
                else:
                    a, b = est.predict_ab(X[ix])
                    rec["ret"] = list(zip([int(v) for v in a], [int(v) for v in b]))
        except Exception as e:
            rec["ok"] = False
            rec["err"] = type(e).__name__ + ": " + str(e)[:80]
        if rec["ok"]:
            rec["l"] = lobs_of(est)
            rec["b"] = B.snapshot(est.module_b)
        obs.append(rec)
        if not rec["ok"]:
            break
    return est, obs


def acase_coq(c, obs):
    X, Y = fr_rows(c["rows"]), fr_rows(c["yrows"])
    items = []
    for (op, ix), r in zip(c["ops"], obs):
        Xi, Yi = [X[i] for i in ix], [Y[i] for i in ix]
        if op == "fit":
            o = f"AFit {qmat(Xi)} {qmat(Yi)} {B.MODE_COQ[c['mode']]} {q(c['eps'])}"
        elif op == "partial_fit":
            o = f"APFit {qmat(Xi)} {qmat(Yi)} {B.MODE_COQ[c['mode']]} {q(c['eps'])}"
        else:
            o = f"APredict {qmat(Xi)}"
        ob = "AUndef" if not r["ok"] else f"(AOk {lobs_coq(r['l'])} {snap_coq(r['b'])} {pairs(r['ret'])})"
        items.append(f"({o}, {ob})")
    return (f"(mkACase {B.kspec_coq(c['ka'])} [{q(c['ka']['rho'])}] {B.kspec_coq(c['kb'])} [{q(c['kb']['rho'])}] "
            f"{coq_list(items)})")


def summary_a(c):
    return {"estimator": "ARTMAP", "ka": {k: str(v) for k, v in c["ka"].items()}, "kb": {k: str(v) for k, v in c["kb"].items()},
            "rows": [[str(v) for v in r] for r in c["rows"]], "yrows": [[str(v) for v in r] for r in c["yrows"]],
            "mode": c["mode"], "eps": str(c["eps"]), "ops": [(o, list(ix)) for o, ix in c["ops"]]}


# ------------------------------------------------------------------ DeepARTMAP (supervised chain)
def gen_dcase(rng):
    nl = rng.choice([2, 3, 4])
    rhos = sorted(rng.sample([Fraction(i, 8) for i in range(0, 8)], nl))
    ks = [{"kind": "Fuzzy", "rho": r, "alpha": Fraction(1, 1024), "beta": rng.choice([Fraction(1), Fraction(1), Fraction(1, 2)])} for r in rhos]
    n = rng.randrange(3, 12)
    same = rng.random() < 0.5
    if same:
        X0 = B.grid_rows(rng, n, rng.choice([1, 2]))
        Xs = [X0] * nl
    else:
        Xs = [B.grid_rows(rng, n, rng.choice([1, 2])) for _ in range(nl)]
    ncls = rng.choice([1, 2, 3])
    y = [rng.randrange(ncls) for _ in range(n)]
    mode, eps = B.gen_mode(rng)
    idx = list(range(n))
    shape = rng.choice(["fit", "pf", "fit+pf", "fit+fit"])
    if shape == "fit":
        ops = [("fit", idx)]
    elif shape == "pf":
        ops = [("partial_fit", b) for b in B.split_batches(rng, idx, rng.randrange(1, 4))]
    elif shape == "fit+pf":
        h = max(1, n // 2)
        ops = [("fit", idx[:h]), ("partial_fit", idx[h:] or idx[:1])]
    else:
        ops = [("fit", idx[: max(1, n // 2)]), ("fit", list(reversed(idx)))]
    ops = ops + [("predict", [rng.randrange(n) for _ in range(rng.randrange(1, 4))])]
    return {"ks": ks, "Xs": Xs, "y": y, "mode": mode, "eps": eps, "ops": ops}


def run_dcase(c):
    import artlib
    est = artlib.DeepARTMAP([B.make_est(k) for k in c["ks"]])
    Xs = [np.array(X, dtype=float) for X in c["Xs"]]
    y = np.array(c["y"], dtype=int)
    obs = []
    for op, ix in c["ops"]:
        rec = {"ok": True, "ret": []}
        try:
            with np.errstate(all="ignore"):
                if op == "fit":
                    est.fit([X[ix] for X in Xs], y[ix], match_tracking=c["mode"], epsilon=float(c["eps"]))
                elif op == "partial_fit":
                    est.partial_fit([X[ix] for X in Xs], y[ix], match_tracking=c["mode"], epsilon=float(c["eps"]))
                else:
                    p = est.predict([X[ix] for X in Xs])
                    rec["ret"] = [[int(v) for v in col] for col in p]
        except Exception as e:
            rec["ok"] = False
            rec["err"] = type(e).__name__ + ": " + str(e)[:80]
        if rec["ok"]:
            rec["ls"] = [lobs_of(l) for l in est.layers]
            rec["deep"] = [[int(v) for v in col] for col in est.labels_deep_.T]
        obs.append(rec)
        if not rec["ok"]:
            break
    return est, obs


def dcase_coq(c, obs):
    Xs = [fr_rows(X) for X in c["Xs"]]
    items = []
    for (op, ix), r in zip(c["ops"], obs):
        if op in ("fit", "partial_fit"):
            xs = coq_list([qmat([X[i] for i in ix]) for X in Xs])
            yi = [c["y"][i] for i in ix]
            ctor = "DFit" if op == "fit" else "DPFit"
            o = f"{ctor} {xs} {natlist(yi)} {B.MODE_COQ[c['mode']]} {q(c['eps'])}"
        else:
            o = f"DPredict {qmat([Xs[-1][i] for i in ix])}"
        if not r["ok"]:
            ob = "DUndef"
        else:
            ob = (f"(DOk {coq_list([lobs_coq(l) for l in r['ls']])} {coq_list([natlist(col) for col in r['deep']])} "
                  f"{coq_list([natlist(col) for col in r['ret']])})")
        items.append(f"({o}, {ob})")
    ks = coq_list([B.kspec_coq(k) for k in c["ks"]])
    rhos = coq_list([f"[{q(k['rho'])}]" for k in c["ks"]])
    return f"(mkDCase {ks} {rhos} {coq_list(items)})"


def summary_d(c):
    return {"estimator": "DeepARTMAP(supervised)", "ks": [{k: str(v) for k, v in kk.items()} for kk in c["ks"]],
            "Xs": [[[str(v) for v in r] for r in X] for X in c["Xs"]], "y": c["y"], "mode": c["mode"], "eps": str(c["eps"]),
            "ops": [(o, list(ix)) for o, ix in c["ops"]]}

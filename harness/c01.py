"""C01 - resonance search.  Proof obligations: props/C01.v.  Correspondence:
BaseART.step_fit/fit/partial_fit of the real library vs the Gallina model on
tie-/veto-heavy grid cases, all five match-tracking modes."""
import sys
from fractions import Fraction

import common as C
import basefam as B


def gen_cases(rng, n_cases):
    cases = []
    for _ in range(n_cases):
        k = B.gen_fuzzy_kernel(rng)
        d = rng.choice([1, 2, 2, 3])
        n = rng.randrange(2, 15 if k["beta"] != Fraction(3, 4) else 9)
        rows = B.grid_rows(rng, n, d)
        mode, eps = B.gen_mode(rng)
        veto = B.gen_veto(rng) if rng.random() < 0.7 else None
        nb = rng.choice([1, 1, 2, 3])
        ops = []
        if nb == 1:
            ops.append({"op": "fit", "X": rows, "mode": mode, "eps": eps, "veto": veto})
        else:
            for b in B.split_batches(rng, rows, nb):
                ops.append({"op": "partial_fit", "X": b, "mode": mode, "eps": eps, "veto": veto})
        cases.append((k, ops))
    return cases


def main():
    tier = sys.argv[1] if len(sys.argv) > 1 else "quick"
    seed = C.seed_from_env()
    v = C.Verdict("C01", tier, seed)
    rng = C.make_rng(seed, "C01")
    n_cases = 600 if tier == "quick" else 6000
    cases = gen_cases(rng, n_cases)
    srcs, shard = [], []
    all_obs = []
    for k, ops in cases:
        est, obs = B.run_ops(k, ops)
        all_obs.append(obs)
        shard.append(B.case_coq(k, ops, obs))
        if len(shard) == 200:
            srcs.append(shard); shard = []
    if shard:
        srcs.append(shard)
    texts = []
    for sh in srcs:
        texts.append("From Coq Require Import QArith List.\nFrom ART Require Import Num Kernel.\nFrom ARTcorr Require Import RunBase.\nImport ListNotations.\nOpen Scope Q_scope.\n"
                     "Definition cases : list case := [\n" + ";\n".join(sh) + "].\n"
                     "Eval vm_compute in (map check cases).\n")
    res, logs = C.run_coq_shards("C01", texts)
    codes = []
    for r, lg in zip(res, logs):
        if r is None:
            print("shard failed:", lg[-800:])
            codes.append(None)
        else:
            codes.extend(r[0])
    print("codes nonzero:", [(i, c) for i, c in enumerate(codes) if c])
    print("n", len(codes))


if __name__ == "__main__":
    main()

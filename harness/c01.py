"""C01 - resonance search.

Proof obligations: coq/props/C01.v (generic search = scan of the sorted
order, nanargmax, frame of a training step; axiom-free).
Correspondence: BaseART.fit / partial_fit of the real library vs the Gallina
model (theories/BaseArt.v + kernels) at exact rationals on tie-/veto-heavy
grid cases, all five match-tracking modes, W/labels/counters/params and the
(category, vigilance-in-force) log handed to the reset function.
Failing-input search: the specification scan evaluated on the
implementation's own activation / match values, sample by sample."""
import copy
import sys
from fractions import Fraction

import numpy as np

import common as C
import basefam as B
import flow


# --------------------------------------------------------------- generation
def gen_cases(rng, n_cases, kinds=("Fuzzy", "Fuzzy", "ART2A")):
    cases = []
    for _ in range(n_cases):
        kind = rng.choice(kinds)
        k, rows = B.gen_kernel_and_rows(rng, kind)
        mode, eps = B.gen_mode(rng)
        veto = B.gen_veto(rng) if rng.random() < 0.7 else None
        nb = rng.choice([1, 1, 2, 3])
        ops = []
        if nb == 1:
            ops.append({"op": "fit", "X": rows, "mode": mode, "eps": eps, "veto": veto})
        else:
            for b in B.split_batches(rng, rows, nb):
                ops.append({"op": "partial_fit", "X": b, "mode": mode, "eps": eps, "veto": veto})
        cases.append((k, ops))
    return cases


# --------------------------------------------------------------- oracle
def expected_scan(T, M, rho, mode, eps, veto_of, inverted):
    """the specification: scan the categories by (activation desc, index asc)"""
    strict = mode in ("MT0", "MT~")
    live = [c for c in range(len(T)) if not np.isnan(T[c])]
    order = sorted(live, key=lambda c: (-T[c], c))
    log = []
    for c in order:
        if inverted:
            m = (rho > M[c]) if strict else (rho >= M[c])
        else:
            m = (M[c] > rho) if strict else (M[c] >= rho)
        ok = veto_of(c)
        log.append((c, rho))
        if m and ok:
            return c, log
        if m and not ok:
            if mode == "MT+":
                rho = M[c] - eps if inverted else M[c] + eps
            elif mode == "MT-":
                rho = M[c] + eps if inverted else M[c] - eps
            elif mode == "MT0":
                rho = M[c]
            elif mode == "MT1":
                return None, log
    return None, log


def oracle_case(k, ops):
    """present the stream one sample at a time through the public API and
    compare every step with the specification evaluated on the
    implementation's own kernel outputs.  Returns list of failure dicts."""
    fails = []
    est = B.make_est(k)
    inverted = type(est).__name__ == "BayesianART"
    rows = [r for o in ops for r in o["X"]]
    mode, eps, vs = ops[0]["mode"], float(ops[0]["eps"]), ops[0].get("veto")
    X = np.array(rows, dtype=float)
    keys, _ = B.row_keys(X)

    def replay(i, what):
        return {"signature": "BaseART.step_fit/" + what,
                "text": what,
                "replay": {"estimator": {kk: str(vv) for kk, vv in k.items()}, "mode": mode, "eps": str(ops[0]["eps"]),
                           "veto": vs, "rows": [[str(v) for v in r] for r in rows], "failing_sample": i,
                           "how": "present rows one at a time with partial_fit, each in the same re-used (1, d) buffer; compare with scan of sorted activations"}}

    # a streaming caller: every sample is handed over in the SAME pre-allocated one-row buffer, overwritten for the next
    # one - the categories are the model's own and must not move with it ("every other category is left unchanged")
    buf = np.empty((1, X.shape[1]), dtype=float)
    for i, x in enumerate(X):
        veto = B.Veto(est, vs["tbl"], vs["a"], vs["b"], keys) if vs else None
        has_w = hasattr(est, "W") and len(est.W) > 0
        Wb = [np.array(w, dtype=float).copy() for w in est.W] if hasattr(est, "W") else []
        pb = copy.deepcopy(est.params)
        exp_c, exp_log = None, []
        if has_w:
            T, M = [], []
            key = keys[x.tobytes()]
            vfun = (lambda c: bool(vs["tbl"][(vs["a"] * key + vs["b"] * c) % len(vs["tbl"])])) if vs else (lambda c: True)
            for c, w in enumerate(est.W):
                if mode == "MT~" and vs and not vfun(c):
                    T.append(float("nan")); M.append(float("nan")); continue
                t, cache = est.category_choice(x, w, params=est.params)
                mval, _ = est.match_criterion(x, w, params=est.params, cache=cache)
                T.append(float(t)); M.append(float(mval))
            rho0 = float(est.params["rho"])
            if mode == "MT~" and vs:
                exp_c, lg = expected_scan(T, M, rho0, mode, eps, lambda c: True, inverted)
                exp_log = [(c, rho0) for c in range(len(Wb))]
            else:
                exp_c, lg = expected_scan(T, M, rho0, mode, eps, vfun, inverted)
                exp_log = lg if vs else []
        try:
            buf[0, :] = x
            est.partial_fit(buf, match_reset_func=veto, match_tracking=mode, epsilon=eps)
        except Exception as e:   # totality is C04's business; stop here
            return fails
        c = int(est.labels_[-1])
        Wa = [np.array(w, dtype=float) for w in est.W]
        if not has_w:
            if c != 0 or len(Wa) != 1:
                fails.append(replay(i, "first sample must create category 0"))
            continue
        want = exp_c if exp_c is not None else len(Wb)
        if c != want:
            fails.append(replay(i, f"winner {c} but specification scan gives {want}"))
            continue
        if exp_c is None and len(Wa) != len(Wb) + 1:
            fails.append(replay(i, "no category qualifies but not exactly one new category"))
        if exp_c is not None and len(Wa) != len(Wb):
            fails.append(replay(i, "resonance but the number of categories changed"))
        for j in range(min(len(Wb), len(Wa))):
            if j != c and not np.array_equal(Wb[j], Wa[j]):
                fails.append(replay(i, f"weight of category {j} changed although {c} won"))
                break
        if veto is not None:
            got = [(cc, float(r[0])) for cc, r in veto.log]
            okl = len(got) == len(exp_log) and all(a[0] == b[0] and abs(a[1] - b[1]) <= 1e-9 for a, b in zip(got, exp_log))
            if not okl:
                fails.append(replay(i, "reset function saw a different (category, vigilance) sequence than the mode prescribes"))
        if repr(sorted(est.params.items(), key=lambda kv: kv[0])) != repr(sorted(pb.items(), key=lambda kv: kv[0])):
            fails.append(replay(i, "vigilance adjusted by match tracking leaked beyond the sample's search"))
    return fails


class TraceVeto:
    """caller-supplied reset function (boolean table) that records, for every call, the sample number, the
    category, the vigilance in force, the match value of that category and its own verdict; the wrapper's own
    veto (validity index) appends its verdict to the same record"""

    def __init__(self, kernel, tbl):
        self.kernel, self.tbl, self.calls = kernel, tbl, []

    def __call__(self, x, w, c_, params=None, cache=None):
        k = self.kernel
        _, cch = k.category_choice(x, w, params=k.params)
        M, _ = k.match_criterion(x, w, params=k.params, cache=cch)
        ok = bool(self.tbl[(7 * int(k.sample_counter_) + 3 * int(c_)) % len(self.tbl)])
        self.calls.append({"sample": int(k.sample_counter_), "c": int(c_), "rho": float(k.params["rho"]), "M": float(M), "user": ok, "own": None})
        return ok


def wrapper_trace_oracle(rng):
    """C01's match-tracking clause for the estimators that compose a caller's reset function with their own veto
    (iCVIFuzzyART, CVIART): between two consecutive reset-function calls of one sample the vigilance in force moves
    exactly as the mode prescribes, and every sample starts from the configured vigilance"""
    import contextlib, io
    import artlib
    from artlib.cvi.iCVIFuzzyArt import iCVIFuzzyART
    which = rng.choice(["iCVIFuzzyART", "CVIART"])
    rho = rng.choice([0.0, 0.25, 0.5, 0.625])
    mode = rng.choice(B.MODES)
    eps = rng.choice([0.0, 1 / 1024, 0.0625, 0.15])
    X = np.array([[float(v) for v in r] for r in B.grid_rows(rng, rng.randrange(4, 13), 2)], dtype=float)
    tbl = [rng.random() < 0.6 for _ in range(11)]
    with contextlib.redirect_stdout(io.StringIO()):
        if which == "iCVIFuzzyART":
            est = iCVIFuzzyART(rho=rho, alpha=1 / 1024, beta=1.0, validity=1, offline=rng.random() < 0.5)
            kernel, own_name = est, "iCVI_match"
        else:
            est = artlib.CVIART(artlib.FuzzyART(rho=rho, alpha=1 / 1024, beta=1.0), validity=rng.choice([1, 2, 3]))
            kernel, own_name = est.base_module, "CVI_match"
    veto = TraceVeto(kernel, tbl)
    orig = getattr(est, own_name)

    def own(*a, **kw):
        r = orig(*a, **kw)
        if veto.calls:
            veto.calls[-1]["own"] = bool(r)
        return r
    setattr(est, own_name, own)
    rep = {"estimator": which, "rho": rho, "mode": mode, "eps": eps, "X": X.tolist(), "reset_table": tbl,
           "how": "fit(X, match_reset_func=table[(7*sample_number+3*category) % 11], match_tracking=mode, epsilon=eps)"}
    try:
        with np.errstate(all="ignore"), contextlib.redirect_stdout(io.StringIO()):
            est.fit(X, match_reset_func=veto, match_tracking=mode, epsilon=eps)
    except Exception:
        pass            # totality is C04's business; the calls recorded so far are still judged
    strict = mode in ("MT0", "MT~")
    prev = None
    for k in veto.calls:
        first = prev is None or prev["sample"] != k["sample"]
        want = rho
        if not first:
            m = (prev["M"] > prev["rho"]) if strict else (prev["M"] >= prev["rho"])
            ok = prev["user"] and (prev["own"] is not False)
            want = prev["rho"]
            if m and not ok:
                if mode == "MT+":
                    want = prev["M"] + eps
                elif mode == "MT-":
                    want = prev["M"] - eps
                elif mode == "MT0":
                    want = prev["M"]
                elif mode == "MT1":
                    return [{"signature": f"{which}/match-tracking", "text": f"MT1: the search went on after the veto of vigilance-passing category {prev['c']}", "replay": rep}]
        if abs(k["rho"] - want) > 1e-12:
            what = (f"sample {k['sample']}: vigilance in force is {k['rho']} at the call for category {k['c']}, the mode prescribes {want}"
                    + ("" if not first else " (the configured value: tracking must not outlive a sample's search)"))
            return [{"signature": f"{which}/match-tracking", "text": what, "replay": rep}]
        prev = k
    return []


def sam_scan_oracle(rng):
    """C01 through SimpleARTMAP (the reset function the library itself supplies: 'the category is mapped to another
    class'): each sample's winner on the A side is the first category, by (activation desc, index asc), that passes the
    vigilance in force and is not mapped to a different class; the map gains exactly (winner -> class) and nothing else;
    the A side's vigilance is back at the configured value after every sample.  Any of the eight modules; the Bayesian
    test is the inverted one."""
    import artlib
    k, rows = B.gen_any_kernel_and_rows(rng)
    if rng.random() < 0.4 and k["kind"] == "K:Bayes":
        k["p"]["rho"] = k["rho"] = rng.choice([1.0, 10.0, 1e3])     # the inverted test passes for M <= rho
    mode = rng.choice(B.MODES)
    eps = rng.choice([0.0, 1e-10, 1e-3, 0.05])
    X = np.array(rows, dtype=float)
    ncls = rng.choice([1, 2, 2, 3])
    y = np.array([rng.randrange(ncls) for _ in rows], dtype=int)
    a = B.make_est(k)
    inverted = type(a).__name__ == "BayesianART"
    est = artlib.SimpleARTMAP(a)
    rep = {"estimator": "SimpleARTMAP(" + k["kind"][2:] + ")", "params": {kk: (np.asarray(vv).tolist() if isinstance(vv, np.ndarray) else vv) for kk, vv in k["p"].items()},
           "mode": mode, "eps": eps, "X": X.tolist(), "y": y.tolist(),
           "how": "partial_fit one labelled sample at a time; compare with the scan of the A side's own activation / match values"}

    def bad(i, what):
        r = dict(rep); r["failing_sample"] = i
        return [{"signature": "SimpleARTMAP.step_fit/" + what.split(":")[0], "text": f"sample {i}: {what}", "replay": r}]
    for i in range(len(X)):
        x = None
        has_w = hasattr(a, "W") and len(a.W) > 0
        mp = dict(est.map) if hasattr(est, "map") else {}
        pb = repr(sorted(a.params.items(), key=lambda kv: kv[0]))
        exp_c = None
        nW = len(a.W) if has_w else 0
        if has_w:
            try:
                x = X[i]
                T, M = [], []
                for c, w in enumerate(a.W):
                    ok = not (c in mp and mp[c] != int(y[i]))
                    if mode == "MT~" and not ok:
                        T.append(float("nan")); M.append(float("nan")); continue
                    t, cache = a.category_choice(x, w, params=a.params)
                    mval, _ = a.match_criterion(x, w, params=a.params, cache=cache)
                    T.append(float(t)); M.append(float(mval))
            except Exception:
                return []
            vfun = (lambda c: True) if mode == "MT~" else (lambda c: not (c in mp and mp[c] != int(y[i])))
            exp_c, _ = expected_scan(T, M, float(a.params["rho"]), mode, eps, vfun, inverted)
        try:
            with np.errstate(all="ignore"):
                est.partial_fit(X[i:i + 1], y[i:i + 1], match_tracking=mode, epsilon=eps)
        except Exception:
            return []        # totality is C04's business
        c = int(a.labels_[-1])
        want = exp_c if exp_c is not None else nW
        if c != want:
            return bad(i, f"winner: A-side category {c}, the specification scan gives {want}")
        if len(a.W) != (nW if exp_c is not None else nW + 1):
            return bad(i, "categories: the number of A-side categories does not match the outcome of the search")
        mp2 = dict(mp); mp2[c] = int(y[i])
        if {int(kk): int(vv) for kk, vv in est.map.items()} != mp2:
            return bad(i, f"map: {dict(est.map)} after the step, expected {mp2}")
        if c in mp and mp[c] != int(y[i]):
            return bad(i, f"map: category {c} of class {mp[c]} absorbed a sample of class {int(y[i])}")
        if repr(sorted(a.params.items(), key=lambda kv: kv[0])) != pb:
            return bad(i, "vigilance: the A side's parameters differ from the configured ones after the sample")
    return []


def table_kernel_oracle(rng):
    """the generic search itself, with activation and match values it cannot choose: a BaseART subclass whose kernel
    functions read a table (values drawn from {-inf, 0, 1/2, 1, +inf} for the activation, {0, 1/2, 1} for the match),
    so that ties, infinite activations and every vigilance outcome occur.  Every sample must be assigned as the
    specification scan prescribes, and the search must terminate."""
    from artlib.common.BaseART import BaseART

    class TableART(BaseART):
        def __init__(self, rho, Tt, Mt):
            super().__init__({"rho": rho})
            self.Tt, self.Mt = Tt, Mt

        @staticmethod
        def validate_params(params):
            assert "rho" in params

        def validate_data(self, X):
            pass

        def category_choice(self, i, w, params):
            return self.Tt[int(i[0])][int(w[0])], {}

        def match_criterion(self, i, w, params, cache=None):
            return self.Mt[int(i[0])][int(w[0])], cache

        def update(self, i, w, params, cache=None):
            return w

        def new_weight(self, i, params):
            return np.array([float(len(self.W))])
    n = rng.randrange(3, 9)
    vals = [float("-inf"), 0.0, 0.5, 1.0, float("inf"), 0.25]
    Tt = [[rng.choice(vals) for _ in range(n)] for _ in range(n)]
    Mt = [[rng.choice([0.0, 0.5, 1.0]) for _ in range(n)] for _ in range(n)]
    rho = rng.choice([0.0, 0.5, 1.0])
    mode = rng.choice(B.MODES)
    eps = rng.choice([0.0, 0.25])
    tbl = [rng.random() < 0.6 for _ in range(7)]
    use_veto = rng.random() < 0.6
    est = TableART(rho, Tt, Mt)
    X = np.array([[float(i)] for i in range(n)])
    rep = {"kernel": "table", "T": [[repr(v) for v in r] for r in Tt], "M": Mt, "rho": rho, "mode": mode, "eps": eps, "reset_table": tbl if use_veto else None,
           "how": "sample i = [i], category c = [c]; category_choice(i, c) = T[i][c], match_criterion(i, c) = M[i][c]; fit on the samples 0..n-1"}
    exp = []
    nW = 0
    for i in range(n):
        if nW == 0:
            exp.append(0); nW = 1; continue
        vfun = (lambda c, i=i: bool(tbl[(3 * i + 5 * c) % 7])) if use_veto else (lambda c: True)
        T = [Tt[i][c] if not (mode == "MT~" and use_veto and not vfun(c)) else float("nan") for c in range(nW)]
        c, _ = expected_scan(T, Mt[i][:nW], rho, mode, eps, (lambda c: True) if mode == "MT~" else vfun, False)
        if c is None:
            c = nW; nW += 1
        exp.append(c)
    veto = (lambda x, w, c_, params=None, cache=None: bool(tbl[(3 * int(x[0]) + 5 * int(c_)) % 7])) if use_veto else None
    try:
        with C.time_limit(5), np.errstate(all="ignore"):
            est.fit(X, match_reset_func=veto, match_tracking=mode, epsilon=eps)
    except TimeoutError:
        return {"signature": "BaseART.step_fit/search-does-not-terminate", "text": "fit did not return within 5 s: the search loop never ends", "replay": rep}
    except Exception as e:
        return {"signature": "BaseART.step_fit/table-kernel-raises", "text": f"{type(e).__name__}: {str(e)[:80]}", "replay": rep}
    got = [int(v) for v in est.labels_]
    if got != exp:
        return {"signature": "BaseART.step_fit/table-kernel", "text": f"labels {got}, the specification scan gives {exp}", "replay": rep}
    return None


def verbose_oracle():
    """a documented option of fit: when the optional progress bar cannot be imported the call fails - but a trained model
    must not have been wiped by then"""
    try:
        import tqdm  # noqa: F401
        return []
    except Exception:
        pass
    import artlib
    fails = []
    X = np.array([[0.1, 0.9], [0.9, 0.1], [0.5, 0.5], [0.12, 0.88]])
    for name, mk, fit in (("FuzzyART", lambda: artlib.FuzzyART(0.7, 1e-3, 1.0), lambda e: e.fit(X, verbose=True)),
                          ("SimpleARTMAP", lambda: artlib.SimpleARTMAP(artlib.FuzzyART(0.7, 1e-3, 1.0)), lambda e: e.fit(X, np.array([0, 1, 0, 0]), verbose=True))):
        est = mk()
        if name == "FuzzyART":
            est.fit(X)
            n0 = len(est.W)
        else:
            est.fit(X, np.array([0, 1, 0, 0]))
            n0 = len(est.module_a.W)
        try:
            fit(est)
        except ModuleNotFoundError:
            n1 = len(est.W) if name == "FuzzyART" else len(est.module_a.W)
            if n1 != n0:
                fails.append({"signature": f"{name}/verbose-wipes-the-model", "text": f"{name}.fit(verbose=True) raised ModuleNotFoundError (tqdm) after the model had been reset: {n0} categories before, {n1} after",
                              "replay": {"estimator": name, "X": X.tolist()}})
        except Exception:
            pass
    return fails


def refit_oracle(rng):
    """the search of a fit call on a USED estimator (trained, then read: predict, W, n_clusters, cluster centres): its
    first sample founds category 0 and every sample is assigned as in the one-sample-at-a-time presentation on a
    freshly constructed twin (whose single searches the scan oracles above judge)"""
    import random as _r
    import contextlib, io
    import zoo
    name = rng.choice(["Fusion", "Fusion", "DualVigilance", "K"])
    sd = rng.getrandbits(32)

    def build():
        r = _r.Random(sd)
        if name == "K":
            k, rows = B.gen_any_kernel_and_rows(r)
            return B.make_est(k), (lambda n, rows=rows, r=r: np.array([r.choice(rows) for _ in range(n)], dtype=float)), repr(k)
        z = zoo.make(name, r)
        return z["est"], (lambda n: z["gen"](n)[0]), name
    est, gen, desc = build()
    twin, _, _ = build()
    X1, X2 = gen(rng.randrange(2, 9)), gen(rng.randrange(2, 9))
    mode = rng.choice(B.MODES)
    eps = rng.choice([0.0, 1 / 1024, 0.0625])
    first = rng.choice(["fit", "partial_fit"])
    reads = [r for r in ("predict", "W", "n_clusters", "centres") if rng.random() < 0.5]
    rep = {"estimator": desc, "params": repr(est.get_params())[:400], "X1": X1.tolist(), "X2": X2.tolist(), "mode": mode, "eps": eps,
           "how": f"{first}(X1); reads {reads}; fit(X2, match_tracking=mode, epsilon=eps) versus a fresh twin given X2 one row at a time"}
    with contextlib.redirect_stdout(io.StringIO()), np.errstate(all="ignore"):
        try:
            getattr(est, first)(X1, match_tracking=mode, epsilon=eps)
            for r in reads:
                if r == "predict":
                    est.predict(X1[: max(1, len(X1) // 2)])
                elif r == "W":
                    len(est.W)
                elif r == "n_clusters":
                    est.n_clusters
                else:
                    est.get_cluster_centers()
        except Exception:
            return []
        try:
            for x in X2:
                twin.partial_fit(x.reshape(1, -1), match_tracking=mode, epsilon=eps)
        except Exception:
            return []
        try:
            est.fit(X2, match_tracking=mode, epsilon=eps)
        except Exception as e:
            return [{"signature": f"{type(est).__name__}/refit-search", "text": f"fit on a used estimator raised {type(e).__name__}: {str(e)[:80]} (a fresh one accepts the same rows)", "replay": rep}]
    la, lb = [int(v) for v in est.labels_], [int(v) for v in twin.labels_]
    if la != lb:
        return [{"signature": f"{type(est).__name__}/refit-search", "text": f"fit on a used estimator assigns {la}, the specified search on a fresh one {lb}", "replay": rep}]
    Wa, Wb = list(est.W), list(twin.W)
    if len(Wa) != len(Wb) or any(not np.array_equal(np.asarray(a, dtype=float), np.asarray(b, dtype=float)) for a, b in zip(Wa, Wb)):
        return [{"signature": f"{type(est).__name__}/refit-search", "text": "fit on a used estimator ends with other categories than the specified search on a fresh one", "replay": rep}]
    return []


def nontrivial(obs):
    """>= 2 categories and at least one reset-function call or a new category after the first"""
    for r in obs:
        if r.get("snap") and len(r["snap"]["W"]) >= 2:
            return True
    return False


def main():
    tier = sys.argv[1] if len(sys.argv) > 1 else "quick"
    seed = C.seed_from_env()
    v = C.Verdict("C01", tier, seed)
    gate_ok, ob = C.proof_gate(v, "C01.v")
    rng = C.make_rng(seed, "C01")
    n_cases = 900 if tier == "quick" else 9000
    cases = gen_cases(rng, n_cases)
    strs, summaries, obs_all, hashes = [], [], [], set()
    nontriv = 0
    stats = {"modes": {}, "kinds": {}, "with_veto": 0, "undef": 0, "cats": 0}
    for k, ops in cases:
        est, obs = B.run_ops(k, ops)
        obs_all.append(obs)
        strs.append(B.case_coq(k, ops, obs))
        summaries.append(B.summary(k, ops))
        h = C.case_hash(B.summary(k, ops))
        if nontrivial(obs) and h not in hashes:
            nontriv += 1
        hashes.add(h)
        stats["modes"][ops[0]["mode"]] = stats["modes"].get(ops[0]["mode"], 0) + 1
        stats["kinds"][k["kind"]] = stats["kinds"].get(k["kind"], 0) + 1
        stats["with_veto"] += 1 if ops[0].get("veto") else 0
        stats["undef"] += 0 if obs[-1]["ok"] else 1
    codes, bad = flow.coq_corr("C01", "RunBase", strs)
    for b in bad:
        v.notes.append("coq shard failed: " + b[-600:])
    # oracle on a subset (all in thorough)
    n_or = 250 if tier == "quick" else 2500
    fails = []
    for k, ops in cases[:n_or]:
        fails.extend(oracle_case(k, ops))

    # the specification scan on all eight modules (incl. the inverted Bayesian test), float data
    rng_any = C.make_rng(seed, "C01-any")
    n_any = 0
    for _ in range(150 if tier == "quick" else 1500):
        k, ops = B.gen_any_history(rng_any)
        ops = [o for o in ops if o["op"] != "predict"]
        fails.extend(oracle_case(k, ops))
        n_any += 1

    # wrappers that compose a caller's reset function with their own veto
    rng_w = C.make_rng(seed, "C01-wrap")
    n_wrap = 120 if tier == "quick" else 1200
    for _ in range(n_wrap):
        fails.extend(wrapper_trace_oracle(rng_w))

    # the search as SimpleARTMAP drives it (its own reset function)
    rng_s = C.make_rng(seed, "C01-sam")
    n_sam = 250 if tier == "quick" else 2500
    for _ in range(n_sam):
        fails.extend(sam_scan_oracle(rng_s))

    # "a new category initialised from that sample", FusionART over modules whose new weight is not a copy of the sample,
    # for every container the sample may arrive in
    import c10
    rng_d = C.make_rng(seed, "C01-dtype")
    n_dt = 60 if tier == "quick" else 600
    for _ in range(n_dt):
        r = c10.dtype_variants_any(rng_d)
        if r:
            fails.append(r)

    # the search loop on arbitrary activation / match values (a table kernel: ties, +-inf)
    rng_t = C.make_rng(seed, "C01-table")
    n_tab = 300 if tier == "quick" else 3000
    for _ in range(n_tab):
        r = table_kernel_oracle(rng_t)
        if r:
            fails.append(r)

    fails.extend(verbose_oracle())

    # fit on a used estimator (after training and reads)
    rng_r = C.make_rng(seed, "C01-refit")
    n_refit = 200 if tier == "quick" else 2000
    for _ in range(n_refit):
        fails.extend(refit_oracle(rng_r))

    def extended():
        out = []
        rng2 = C.make_rng(seed, "C01-ext")
        for k, ops in gen_cases(rng2, 1500):
            out.extend(oracle_case(k, ops))
            if len(out) >= 3:
                break
        return out

    flow.decide(v, "C01", gate_ok, ob, list(zip(codes, summaries)), fails, extended)
    v.cov.update({
        "evaluations": len(cases),
        "distinct_nontrivial": nontriv,
        "rule": "random grid data (k/8, small row pools -> duplicates and exact ties), kernels Fuzzy/ART1/ART2A, rho k/8, 5 modes x eps in {0,2^-10,1/16,1/4}, "
                "70% with a table reset function; fit or 2-3 partial_fit batches; non-trivial = distinct case reaching >= 2 categories",
        "traces_validated_against_impl": sum(1 for c in codes if c == 0),
        "oracle_cases": n_or, "all_module_oracle_cases": n_any, "wrapper_trace_cases": n_wrap, "refit_after_reads_cases": n_refit, "simpleartmap_scan_cases": n_sam, "table_kernel_cases": n_tab,
        "distribution": stats,
        "samples": [summaries[0], summaries[1]],
    })
    v.assumptions = ["exact-rational semantics of the kernels; float rounding is outside the theorems (DESIGN 3.1)",
                     "reset functions do not depend on the params argument (true for every reset function in the library)"]
    v.cov["added_after_wave_7"] = 'step oracle: every sample handed over in one re-used (1, d) buffer (categories must not alias it)'
    sys.exit(v.finish())


if __name__ == "__main__":
    main()

"""FusionART cases: generation, driving, emission for corr/RunFusion.v (C10, C11, C16)."""
from fractions import Fraction

import numpy as np

import common as C
import basefam as B
from common import q, qlist, qmat, natlist, zlist, coq_list

GAMMAS = {1: [[Fraction(1)]], 2: [[Fraction(1, 2), Fraction(1, 2)], [Fraction(3, 4), Fraction(1, 4)], [Fraction(1), Fraction(0)]],
          3: [[Fraction(1, 2), Fraction(1, 4), Fraction(1, 4)], [Fraction(1, 4), Fraction(1, 4), Fraction(1, 2)]],
          4: [[Fraction(1, 4)] * 4]}


def gen_fusion(rng, kinds=("Fuzzy", "Fuzzy", "ART2A"), nmax=12, nch=None):
    nch = nch or rng.choice([1, 2, 2, 3, 4])
    ks, cols, dims = [], [], []
    n = rng.randrange(2, nmax)
    for _ in range(nch):
        kind = rng.choice(kinds)
        k, rows = B.gen_kernel_and_rows(rng, kind, nmax=n + 1)
        while len(rows) < n:
            rows = rows + rows
        rows = rows[:n]
        ks.append(k); cols.append(rows); dims.append(len(rows[0]))
    X = [sum((cols[c][i] for c in range(nch)), []) for i in range(n)]
    g = rng.choice(GAMMAS[nch])
    return {"ks": ks, "gammas": g, "dims": dims, "X": X}


def make_fusion(f):
    import artlib
    mods = [B.make_est(k) for k in f["ks"]]
    return artlib.FusionART(mods, [float(g) for g in f["gammas"]], list(f["dims"]))


def run_fcase(f, ops):
    est = make_fusion(f)
    obs = []
    for o in ops:
        X = np.array(o["X"], dtype=float)
        rec = {"ok": True, "logs": [], "ret": []}
        veto = None
        if o.get("veto") is not None:
            keys, _ = B.row_keys(X)
            veto = B.Veto(est, o["veto"]["tbl"], o["veto"]["a"], o["veto"]["b"], keys)
        try:
            with np.errstate(all="ignore"):
                if o["op"] == "fit":
                    est.fit(X, match_reset_func=veto, match_tracking=o["mode"], epsilon=float(o["eps"]))
                elif o["op"] == "partial_fit":
                    est.partial_fit(X, match_reset_func=veto, match_tracking=o["mode"], epsilon=float(o["eps"]))
                elif o["op"] == "predict":
                    rec["ret"] = [int(v) for v in est.predict(X)]
                elif o["op"] == "predict_skip":
                    rec["ret"] = [int(v) for v in est.predict(X, skip_channels=list(o["skip"]))]
        except Exception as e:
            rec["ok"] = False
            rec["err"] = type(e).__name__ + ": " + str(e)[:80]
        if veto is not None:
            rec["logs"] = veto.log
        rec["snap"] = B.snapshot(est) if rec["ok"] else None
        obs.append(rec)
        if not rec["ok"]:
            break
    return est, obs


def fcase_coq(f, ops, obs):
    items = []
    for o, r in zip(ops, obs):
        if o["op"] == "predict_skip":
            X = [[Fraction(float(v)) for v in row] for row in o["X"]]
            items.append(f"(FPredSkip {qmat(X)} {zlist(o['skip'])}, {B.obs_coq(r)})")
        else:
            s = B.op_coq(o, r)           # "(Op..., obs)"
            inner = s[1:-1]
            cut = inner.rfind(", (ObsOk") if "(ObsOk" in inner else inner.rfind(", ObsUndef")
            items.append(f"(FBase ({inner[:cut]}){inner[cut:]})")
    ks = coq_list([B.kspec_coq(k) for k in f["ks"]])
    return (f"(mkFCase {ks} {qlist([k['rho'] for k in f['ks']])} {qlist(f['gammas'])} {natlist(f['dims'])} {natlist(f['dims'])} {coq_list(items)})")


def summary_f(f, ops):
    return {"estimator": "FusionART", "modules": [{k: str(v) for k, v in kk.items()} for kk in f["ks"]],
            "gammas": [str(g) for g in f["gammas"]], "dims": f["dims"],
            "ops": [{"op": o["op"], "mode": o.get("mode"), "eps": str(o.get("eps")), "veto": o.get("veto"), "skip": o.get("skip"),
                     "X": [[str(v) for v in r] for r in o["X"]]} for o in ops]}


def gen_fhistory(rng, with_skip=False):
    f = gen_fusion(rng)
    mode, eps = B.gen_mode(rng)
    veto = B.gen_veto(rng) if rng.random() < 0.5 else None
    rows = f["X"]
    shape = rng.choice(["fit", "pf", "fit+pf"])
    t = lambda op, X: {"op": op, "X": X, "mode": mode, "eps": eps, "veto": veto}
    if shape == "fit":
        ops = [t("fit", rows)]
    elif shape == "pf":
        ops = [t("partial_fit", b) for b in B.split_batches(rng, rows, rng.randrange(1, 4))]
    else:
        h = max(1, len(rows) // 2)
        ops = [t("fit", rows[:h]), t("partial_fit", rows[h:] or rows[:1])]
    qrows = [list(rng.choice(rows)) for _ in range(rng.randrange(1, 5))]
    ops.append({"op": "predict", "X": qrows})
    if with_skip and len(f["ks"]) >= 2:
        nch = len(f["ks"])
        k = rng.randrange(1, nch)
        skip = rng.sample(range(nch), k)
        skip = [s - nch if rng.random() < 0.4 else s for s in skip]
        ops.append({"op": "predict_skip", "X": qrows, "skip": skip})
    return f, ops

"""BaseART.fit with several epochs (max_iter > 1) on the exact regime, for corr/RunBaseN.v (theories/BaseArt_epochs.v)."""
from fractions import Fraction

import numpy as np

import basefam as B
from common import q, qmat, natlist


def gen_epoch_case(rng):
    kind = rng.choice(["Fuzzy", "Fuzzy", "ART2A"])
    k, rows = B.gen_kernel_and_rows(rng, kind, nmax=10)
    if kind == "Fuzzy":
        k["beta"] = rng.choice([Fraction(1, 2), Fraction(1, 2), Fraction(1)])     # slow learning: rows change category between epochs
    mode, eps = B.gen_mode(rng)
    veto = B.gen_veto(rng) if rng.random() < 0.5 else None
    return k, {"op": "fit", "X": rows, "mode": mode, "eps": eps, "veto": veto, "iters": rng.choice([2, 2, 3])}


def run_epoch_case(k, o):
    est = B.make_est(k)
    X = np.array(o["X"], dtype=float)
    rec = {"ok": True, "logs": [], "ret": []}
    veto = None
    if o.get("veto") is not None:
        keys, _ = B.row_keys(X)
        veto = B.Veto(est, o["veto"]["tbl"], o["veto"]["a"], o["veto"]["b"], keys)
    try:
        with np.errstate(all="ignore"):
            est.fit(X, match_reset_func=veto, match_tracking=o["mode"], epsilon=float(o["eps"]), max_iter=int(o["iters"]))
        if not B.finite_all(est):
            rec["ok"] = False
    except Exception:
        rec["ok"] = False
    if veto is not None:
        rec["logs"] = veto.log
    rec["snap"] = B.snapshot(est) if rec["ok"] else None
    return est, rec


def case_coq(k, o, rec):
    X = [[Fraction(float(v)) for v in r] for r in o["X"]]
    _, keys = B.row_keys(np.array(o["X"], dtype=float))
    return (f"(mkNEpCase {B.kspec_coq(k)} [{q(k['rho'])}] {qmat(X)} {natlist(keys)} {B.vspec_coq(o.get('veto'))} {B.MODE_COQ[o['mode']]} {q(o['eps'])} "
            f"{int(o['iters'])}%nat {B.obs_coq(rec)})")


def book_of_history(est, n, iters):
    """what BaseArt_epochs.v proves, read off the implementation: one counter per category, labels in range, the counters
    add up to iters * n = sample_counter_"""
    nW = len(est.W)
    wsc = [int(c) for c in est.weight_sample_counter_]
    if len(wsc) != nW:
        return f"{len(wsc)} counters for {nW} categories"
    if any(not (0 <= int(l) < nW) for l in est.labels_):
        return "a label does not index an existing category"
    if sum(wsc) != iters * n or int(est.sample_counter_) != iters * n:
        return f"counters add up to {sum(wsc)}, sample_counter_ = {int(est.sample_counter_)}, {iters} epochs over {n} samples"
    return None

"""C11 - partial-channel inference ignores withheld channels; channel joins round-trip.
Proof: props/C11.v.  Correspondence: FusionART.predict with skip_channels
(positive and negative indices) vs the model (RunFusion).  Failing-input
search on the implementation: any fillers in the skipped columns give the
same category = arg-max of the gamma-weighted activations of the remaining
channels; predict_regression = target-channel centre; join/split and
prepare/restore are mutually inverse."""
import sys

import numpy as np

import common as C
import basefam as B
import fusfam as F
import flow


def oracle(f, ops, rng):
    fails = []
    n = len(f["ks"])
    if n < 2:
        return fails
    est = F.make_fusion(f)

    def rep(sig, what):
        return {"signature": f"FusionART/{sig}", "text": what, "replay": F.summary_f(f, ops)}
    try:
        for o in ops:
            if o["op"] in ("fit", "partial_fit"):
                getattr(est, o["op"])(np.array(o["X"], dtype=float), match_tracking=o["mode"], epsilon=float(o["eps"]))
    except Exception:
        return fails
    X = np.array([r for o in ops if o["op"] in ("fit", "partial_fit") for r in o["X"]], dtype=float)
    k = rng.randrange(1, n)
    skip = rng.sample(range(n), k)
    skip_given = [s - n if rng.random() < 0.5 else s for s in skip]
    Q = X[[rng.randrange(len(X)) for _ in range(4)]].copy()
    # two different valid fillers for the skipped columns: rows taken from other samples
    Q1, Q2 = Q.copy(), Q.copy()
    for s in skip:
        lo, hi = est._channel_indices[s]
        Q1[:, lo:hi] = X[[rng.randrange(len(X)) for _ in range(len(Q))], lo:hi]
        Q2[:, lo:hi] = X[[rng.randrange(len(X)) for _ in range(len(Q))], lo:hi]
    try:
        p1 = est.predict(Q1, skip_channels=list(skip_given))
        p2 = est.predict(Q2, skip_channels=list(skip_given))
    except Exception as e:
        fails.append(rep("skip-predict-raises", f"predict with skip_channels={skip_given} raises {type(e).__name__}"))
        return fails
    if list(p1) != list(p2):
        fails.append(rep("skip-independent", f"prediction with skip_channels={skip_given} depends on the values in the skipped columns"))
        return fails
    # ANY values in the skipped columns: unknown (NaN), out of range, not complement coded, the library's own 0.5 filler
    Q3 = Q.copy()
    filler = rng.choice(["nan", "7.0", "-3.0", "uniform", "0.5", "0.9"])
    for s in skip:
        lo, hi = est._channel_indices[s]
        Q3[:, lo:hi] = {"nan": np.nan, "7.0": 7.0, "-3.0": -3.0, "0.5": 0.5, "0.9": 0.9}.get(filler, 0.0)
        if filler == "uniform":
            Q3[:, lo:hi] = np.array([[rng.random() for _ in range(hi - lo)] for _ in range(len(Q))])
    try:
        with np.errstate(all="ignore"):
            p3 = est.predict(Q3, skip_channels=list(skip_given))
        if list(p3) != list(p1):
            fails.append(rep("skip-independent", f"prediction with skip_channels={skip_given} changes when the skipped columns hold {filler}"))
            return fails
    except Exception as e:
        fails.append(rep("skip-filler-rejected", f"predict with skip_channels={skip_given} raises {type(e).__name__} when the skipped columns hold {filler}: {str(e)[:60]}"))
        return fails
    # the single-sample entry point takes the same (positive or negative) channel numbers
    try:
        for j in range(len(Q)):
            a = est.step_pred(Q1[j], skip_channels=list(skip_given))
            b = est.step_pred(Q1[j], skip_channels=list(skip))
            if a != b or a != int(p1[j]):
                fails.append(rep("step_pred-skip-index", f"step_pred(x, skip_channels={skip_given}) = {a}, step_pred(x, skip_channels={skip}) = {b}, predict = {int(p1[j])}"))
                return fails
    except Exception as e:
        fails.append(rep("step_pred-skip-index", f"step_pred with skip_channels={skip_given} raises {type(e).__name__}"))
        return fails
    # = arg-max over the remaining channels
    for j, x in enumerate(Q):
        T = []
        for w_i in range(len(est.W)):
            t = 0.0
            for kk, m in enumerate(est.modules):
                if kk in skip:
                    continue
                lo, hi = est._channel_indices[kk]
                a, _ = m.category_choice(x[lo:hi], m.W[w_i], params=m.params)
                t += float(a) * float(est.params["gamma_values"][kk])
            T.append(t)
        # exact data: ties are real ties; the skipped channels add the same constant to every category
        best = max(T)
        cands = [i for i, t in enumerate(T) if t == best]
        if int(p1[j]) not in cands:
            fails.append(rep("skip-argmax", f"row {j}: predicted {int(p1[j])}, arg-max of the remaining channels is {cands}"))
            return fails
    # predict_regression = centre of the target channel of the predicted category
    for m in est.modules:
        d = m.dim_ // 2 if type(m).__name__ == "FuzzyART" else m.dim_
        m.d_min_, m.d_max_ = np.zeros(d), np.ones(d)
    tgt = skip_given[0]
    try:
        reg = est.predict_regression(Q1, target_channels=[tgt])
        cpred = est.predict(Q1, skip_channels=[tgt])
        # the reference is the target module's own centres, not FusionART's accessor
        cen = est.modules[tgt if tgt >= 0 else n + tgt].get_cluster_centers()
        acc = est.get_channel_centers(tgt if tgt >= 0 else n + tgt)
        if len(acc) != len(cen) or not all(np.array_equal(np.asarray(a), np.asarray(b)) for a, b in zip(acc, cen)):
            fails.append(rep("regression-centre", "get_channel_centers is not the list of the target module's current cluster centres"))
        if not all(np.array_equal(np.asarray(reg[j]), np.asarray(cen[int(cpred[j])])) for j in range(len(Q1))):
            fails.append(rep("regression-centre", "predict_regression is not the target-channel centre of the predicted category"))
    except Exception as e:
        fails.append(rep("regression-raises", f"predict_regression raises {type(e).__name__}: {str(e)[:60]}"))
    # several target channels: one array per target, each the centre of that channel of the predicted category
    if len(skip_given) >= 2:
        try:
            regs = est.predict_regression(Q1, target_channels=list(skip_given))
            cpred = est.predict(Q1, skip_channels=list(skip_given))
            ok = isinstance(regs, list) and len(regs) == len(skip_given)
            for jt, tg in enumerate(skip_given):
                cen = est.modules[tg if tg >= 0 else n + tg].get_cluster_centers()
                ok = ok and all(np.array_equal(np.asarray(regs[jt][j]), np.asarray(cen[int(cpred[j])])) for j in range(len(Q1)))
            if not ok:
                fails.append(rep("regression-centre", f"predict_regression(target_channels={skip_given}) is not the list of target-channel centres of the predicted category"))
        except Exception as e:
            fails.append(rep("regression-raises", f"predict_regression(target_channels={skip_given}) raises {type(e).__name__}: {str(e)[:60]}"))
    # join / split round trip on the supplied channels
    chans = [X[:, est._channel_indices[kk][0]:est._channel_indices[kk][1]] for kk in range(n) if kk not in skip]
    J = est.join_channel_data(chans, skip_channels=list(skip_given))
    S = est.split_channel_data(J, skip_channels=list(skip_given))
    if len(S) != len(chans) or not all(np.array_equal(a, b) for a, b in zip(S, chans)):
        fails.append(rep("split-join", "split_channel_data(join_channel_data(.)) is not the identity on the supplied channels"))
    # ... whatever array types the caller's channels have (a binary / one-hot channel kept as integers next to float ones)
    if len(chans) >= 2:
        for dts in ((np.int64, np.float64), (np.float32, np.float64), (np.uint8, np.float64)):
            mixed = [(np.rint(c) if np.issubdtype(dts[0], np.integer) else c).astype(dts[0]) if jx == 0 else c.astype(dts[1]) for jx, c in enumerate(chans)]
            want = [np.asarray(c, dtype=float) for c in mixed]
            try:
                S2 = est.split_channel_data(est.join_channel_data(mixed, skip_channels=list(skip_given)), skip_channels=list(skip_given))
            except Exception as e:
                fails.append(rep("split-join-dtype", f"join/split of channels of dtypes {[np.dtype(d).name for d in dts]} raises {type(e).__name__}"))
                break
            if len(S2) != len(want) or not all(np.array_equal(np.asarray(a, dtype=float), b) for a, b in zip(S2, want)):
                fails.append(rep("split-join-dtype", f"join/split changes the values of channels supplied with dtypes {[np.dtype(d).name for d in dts]}"))
                break
    return fails


def rounding_oracle(rng):
    """non-dyadic gammas, one-decimal data, all but one channel withheld: the prediction is the (first) arg-max of the
    supplied channel's own activation - a constant contributed by the withheld channels must not blur it"""
    import artlib
    nch = 3
    g = rng.choice([g_ for g_ in ([0.2, 0.3, 0.5], [0.5, 0.2, 0.3], [0.1, 0.2, 0.7], [0.3, 0.3, 0.4], [0.3, 0.2, 0.5], [0.4, 0.1, 0.5]) if sum(g_) == 1.0])
    kind = rng.choice(["Fuzzy", "Fuzzy", "Gauss"])
    cc = lambda a: np.hstack([a, 1 - a])
    if kind == "Fuzzy":
        # two raw features per channel on a one-decimal grid: sums such as 0.1+0.2 and 0.3 differ in the last bits, so
        # activations that are equal (or 1-2 ulp apart) in exact arithmetic are distinct binary64 numbers
        mods = [artlib.FuzzyART(rng.choice([0.5, 0.7, 0.8]), rng.choice([1e-2, 1e-3]), 1.0) for _ in range(nch)]
        dims = [4] * nch
        n = rng.randrange(8, 20)
        raws = [np.array([[rng.randrange(0, 11) / 10 for _ in range(2)] for _ in range(n)]) for _ in range(nch)]
        X = np.hstack([cc(r) for r in raws])
    else:
        # narrow Gaussian categories: a query a few grid steps away has densities far below 1e-16
        mods = [artlib.FuzzyART(0.7, 1e-3, 1.0), artlib.GaussianART(0.5, np.array([0.004]), 1e-10), artlib.FuzzyART(0.7, 1e-3, 1.0)]
        dims = [2, 1, 2]
        n = rng.randrange(6, 16)
        raw = np.array([[rng.randrange(0, 11) / 10 for _ in range(nch)] for _ in range(n)])
        X = np.hstack([cc(raw[:, 0:1]), raw[:, 1:2], cc(raw[:, 2:3])])
    try:
        est = artlib.FusionART(mods, g, dims)
        with np.errstate(all="ignore"):
            est.fit(X)
    except Exception:
        return None
    keep = 1 if kind == "Gauss" else rng.randrange(nch)
    skip = [k for k in range(nch) if k != keep]
    lo, hi = est._channel_indices[keep]
    m = est.modules[keep]
    # queries between the grid points (equidistant from several categories, or far from narrow Gaussian ones)
    Q = X.copy()
    if kind == "Gauss":
        Q[:, lo:hi] = np.array([[rng.randrange(0, 10) / 10 + 0.05] for _ in range(len(Q))])
    else:
        rq = np.array([[rng.randrange(0, 10) / 10 + rng.choice([0.0, 0.05]) for _ in range(2)] for _ in range(len(Q))])
        Q[:, lo:hi] = cc(rq)
    try:
        with np.errstate(all="ignore"):
            pred = est.predict(Q, skip_channels=skip)
        for j, x in enumerate(Q):
            a = [float(m.category_choice(x[lo:hi], w, params=m.params)[0]) * float(g[keep]) for w in m.W]
            best = max(a)
            want = a.index(best)
            if int(pred[j]) != want:
                return {"signature": "FusionART/skip-argmax-rounding",
                        "text": f"only channel {keep} supplied: its weighted activations are {a}, arg-max {want}, predict(skip_channels={skip}) returned {int(pred[j])}",
                        "replay": {"gammas": g, "channel_dims": dims, "modules": [type(mm).__name__ + repr(mm.params) for mm in mods], "X": X.tolist(), "query_row": Q[j].tolist(), "skip_channels": skip}}
    except Exception as e:
        return {"signature": "FusionART/skip-predict-raises", "text": f"{type(e).__name__}: {str(e)[:80]}", "replay": {"X": X.tolist(), "skip_channels": skip}}
    return None


def art1_target_oracle(rng):
    """a binary (ART1) channel as the withheld / target channel: the library's own filler must be usable"""
    import artlib
    n = rng.randrange(5, 12)
    raw = np.array([[rng.random()] for _ in range(n)])
    Xa = np.hstack([raw, 1 - raw])
    Xb = np.array([[float(rng.randrange(2)) for _ in range(3)] for _ in range(n)])
    Xb[Xb.sum(axis=1) == 0, 0] = 1.0
    est = artlib.FusionART([artlib.FuzzyART(0.7, 1e-3, 1.0), artlib.ART1(0.5, 2.0)], [0.5, 0.5], [2, 3])
    try:
        est.fit(np.hstack([Xa, Xb]))
        Q = est.join_channel_data([Xa], skip_channels=[1])
        p = est.predict(Q, skip_channels=[rng.choice([1, -1])])
        alone = [int(np.argmax([est.modules[0].category_choice(x, w, params=est.modules[0].params)[0] for w in est.modules[0].W])) for x in Xa]
        if [int(v) for v in p] != alone:
            return {"signature": "FusionART/skip-argmax", "text": "prediction with the ART1 channel withheld is not the arg-max of the Fuzzy channel", "replay": {"Xa": Xa.tolist(), "Xb": Xb.tolist()}}
    except Exception as e:
        return {"signature": "FusionART/skip-filler-rejected", "text": f"FusionART([FuzzyART, ART1]): predict on join_channel_data(..., skip_channels=[1]) raises {type(e).__name__}: {str(e)[:60]}",
                "replay": {"Xa": Xa.tolist(), "Xb": Xb.tolist()}}
    return None


def regression_between_batches(rng):
    """'for all trained FusionART models': the model is queried, trained further (batches that refine existing categories
    without creating new ones are the interesting ones), and queried again - predict_regression must return the CURRENT
    target-channel centre of the chosen category every time"""
    import artlib
    n = rng.choice([2, 3])
    ds = [rng.choice([1, 2]) for _ in range(n)]
    beta = rng.choice([0.5, 0.5, 1.0])
    mods = [artlib.FuzzyART(rng.choice([0.0, 0.25, 0.5]), 1 / 1024, beta) for _ in range(n)]
    for m, d in zip(mods, ds):
        m.d_min_, m.d_max_ = np.zeros(d), np.ones(d)
    g = {2: [0.5, 0.5], 3: [0.5, 0.25, 0.25]}[n]
    est = artlib.FusionART(mods, g, [2 * d for d in ds])
    rows = rng.randrange(6, 14)
    raw = [np.array([[rng.randrange(0, 9) / 8 for _ in range(d)] for _ in range(rows)]) for d in ds]
    X = np.hstack([np.hstack([r, 1 - r]) for r in raw])
    tgt = rng.randrange(n)
    given = tgt - n if rng.random() < 0.5 else tgt
    rep_ = {"X": X.tolist(), "gammas": g, "channel_dims": [2 * d for d in ds], "beta": beta, "target_channel": given}
    try:
        h = max(2, rows // 2)
        est.fit(X[:h])
        for step in range(3):
            Q = X[[rng.randrange(rows) for _ in range(4)]]
            reg = est.predict_regression(Q, target_channels=[given])
            cp = est.predict(Q, skip_channels=[given])
            cen = est.modules[tgt].get_cluster_centers()
            if not all(np.array_equal(np.asarray(reg[j]), np.asarray(cen[int(cp[j])])) for j in range(len(Q))):
                return {"signature": "FusionART/regression-centre", "text": f"after {step} further batch(es): predict_regression returns {np.asarray(reg).tolist()}, the current target-channel centres of the chosen categories are "
                        f"{[np.asarray(cen[int(c)]).tolist() for c in cp]}", "replay": dict(rep_, batches_after_the_first_query=step)}
            # more training on rows near the ones already seen
            B = X[[rng.randrange(rows) for _ in range(rng.randrange(2, 6))]]
            est.partial_fit(B)
    except Exception as e:
        return {"signature": "FusionART/regression-raises", "text": f"{type(e).__name__}: {str(e)[:80]}", "replay": rep_}
    return None


def prepare_restore(rng):
    """prepare_data / restore_data on raw multi-channel data (non-constant columns)"""
    import artlib
    n = rng.choice([2, 3, 3, 4])
    mods, raws = [], []
    rows = rng.randrange(3, 9)
    for _ in range(n):
        d = rng.choice([1, 2])
        kind = rng.choice(["Fuzzy", "Hyper"])
        if kind == "Fuzzy":
            mods.append(artlib.FuzzyART(0.5, 1e-3, 1.0)); width = 2 * d
        else:
            mods.append(artlib.HypersphereART(0.5, 1e-3, 1.0, 1.0)); width = d
        how = rng.choice(["float", "float", "int", "bool"])
        if how == "int":
            # whole-number data in a narrow integer dtype whose column range need not fit the dtype's positive half
            dt = rng.choice([np.int8, np.int16, np.uint8, np.int64])
            lo, hi = {np.int8: (-120, 120), np.int16: (-30000, 30000), np.uint8: (0, 250), np.int64: (-1000, 1000)}[dt]
            raw = np.array([[rng.randrange(lo, hi) for _ in range(d)] for _ in range(rows)], dtype=dt)
            raw[0, :], raw[1, :] = lo, hi
        elif how == "bool":
            raw = np.array([[rng.random() < 0.5 for _ in range(d)] for _ in range(rows)], dtype=bool)
            raw[0, :], raw[1, :] = False, True
        else:
            raw = np.array([[rng.uniform(-5, 20) for _ in range(d)] for _ in range(rows)])
        raws.append((raw, width))
    est = artlib.FusionART(mods, {2: [0.5, 0.5], 3: [0.5, 0.25, 0.25], 4: [0.25, 0.25, 0.25, 0.25]}[n], [w for _, w in raws])
    try:
        P = est.prepare_data([r for r, _ in raws])
        if P.min() < -1e-12 or P.max() > 1 + 1e-12:
            return {"signature": "FusionART/prepare-range", "text": "prepare_data left the unit cube", "replay": {"raw": [r.tolist() for r, _ in raws]}}
        est.validate_data(P)
        R = est.restore_data(P)
        if not all(np.allclose(a, b, atol=1e-9) for a, (b, _) in zip(R, raws)):
            return {"signature": "FusionART/prepare-restore", "text": "restore_data(prepare_data(.)) is not the identity", "replay": {"raw": [r.tolist() for r, _ in raws]}}
        # ... and on the supplied channels when some channels are skipped (positive or negative indices)
        skip = rng.sample(range(n), rng.randrange(1, n))
        given = [sk - n if rng.random() < 0.5 else sk for sk in skip]
        Ps = est.prepare_data([r for r, _ in raws], skip_channels=list(given))
        Rs = est.restore_data(Ps, skip_channels=list(given))
        sup = [raws[i][0] for i in range(n) if i not in skip]
        if len(Rs) != len(sup) or not all(a.shape == b.shape and np.allclose(a, b, atol=1e-9) for a, b in zip(Rs, sup)):
            return {"signature": "FusionART/prepare-restore", "text": f"restore_data(prepare_data(., skip={given}), skip={given}) is not the identity on the supplied channels",
                    "replay": {"raw": [r.tolist() for r, _ in raws], "skip_channels": given}}
        # the other direction: what restore_data returns (one array per supplied channel) prepares back to the same row
        P2 = est.prepare_data(Rs, skip_channels=list(given))
        if P2.shape != Ps.shape or not np.allclose(P2, Ps, atol=1e-9):
            return {"signature": "FusionART/prepare-restore", "text": f"prepare_data(restore_data(P, skip={given}), skip={given}) is not P on the supplied channels",
                    "replay": {"raw": [r.tolist() for r, _ in raws], "skip_channels": given}}
        if [len(b) for b in est.split_channel_data(P2, skip_channels=list(given))] != [len(b) for b in est.split_channel_data(Ps, skip_channels=list(given))]:
            return {"signature": "FusionART/prepare-restore", "text": "split_channel_data disagrees on the two preparations", "replay": {"raw": [r.tolist() for r, _ in raws], "skip_channels": given}}
    except Exception as e:
        return {"signature": "FusionART/prepare-raises", "text": f"{type(e).__name__}: {str(e)[:80]}",
                "replay": {"raw": [r.tolist() for r, _ in raws], "dtypes": [str(r.dtype) for r, _ in raws], "skip_channels": locals().get("given")}}
    return None


def main():
    tier = sys.argv[1] if len(sys.argv) > 1 else "quick"
    seed = C.seed_from_env()
    v = C.Verdict("C11", tier, seed)
    gate_ok, ob = C.proof_gate(v, "C11.v")
    rng = C.make_rng(seed, "C11")
    n = 300 if tier == "quick" else 3000
    strs, summ, fails, nontriv, hashes = [], [], [], 0, set()
    stats = {"skip_sizes": {}, "negative_index_cases": 0}
    for _ in range(n):
        f, ops = F.gen_fhistory(rng, with_skip=True)
        for o in ops:
            o["veto"] = None if o["op"] != "predict_skip" else o.get("veto")
        est, obs = F.run_fcase(f, ops)
        strs.append(F.fcase_coq(f, ops[:len(obs)], obs))
        s = F.summary_f(f, ops)
        summ.append(s)
        h = C.case_hash(s)
        if ops[-1]["op"] == "predict_skip" and obs[-1].get("snap") and len(obs[-1]["snap"]["W"]) >= 2 and h not in hashes:
            nontriv += 1
            k = len(ops[-1]["skip"])
            stats["skip_sizes"][k] = stats["skip_sizes"].get(k, 0) + 1
            stats["negative_index_cases"] += 1 if any(x < 0 for x in ops[-1]["skip"]) else 0
        hashes.add(h)
        fails.extend(oracle(f, [o for o in ops if o["op"] in ("fit", "partial_fit")], rng))
    for _ in range(60 if tier == "quick" else 600):
        r = prepare_restore(rng)
        if r:
            fails.append(r)
        for g_ in (rounding_oracle, art1_target_oracle, regression_between_batches):
            r = g_(rng)
            if r:
                fails.append(r)
    codes, bad = flow.coq_corr("C11", "RunFusion", strs, shard=60, check_fn="fcheck", extra_imports="From ARTcorr Require Import RunBase.\n")
    for b in bad:
        v.notes.append("coq shard failed: " + b[-600:])
    flow.decide(v, "C11", gate_ok, ob, list(zip(codes, summ)), fails, None)
    v.cov.update({
        "evaluations": n, "distinct_nontrivial": nontriv,
        "rule": "trained FusionART models (2-4 channels), every query predicted with a random non-empty proper subset of channels skipped, given as positive or negative indices, "
                "with two different valid fillers and one arbitrary filler (NaN, out of range, not complement coded, 0.5) in the skipped columns, step_pred with the same indices; non-dyadic gammas with all but one channel withheld (60 models); an ART1 channel withheld; non-trivial = distinct case with a skip query on a model with >= 2 categories",
        "traces_validated_against_impl": sum(1 for x in codes if x == 0),
        "distribution": stats, "samples": summ[:1]})
    v.assumptions = [
                     "prepare/restore inverse to 1e-9 on the implementation (exact in the real-number reading)"]
    sys.exit(v.finish())


if __name__ == "__main__":
    main()

"""C11 - partial-channel inference ignores withheld channels; channel joins round-trip.
Proof: props/C11.v.  Correspondence: FusionART.predict with skip_channels
(positive and negative indices) vs the model (RunFusion).  Failing-input
search on the implementation: any fillers in the skipped columns give the
same category = arg-max of the gamma-weighted activations of the remaining
channels; predict_regression = target-channel centre; join/split and
prepare/restore are mutually inverse."""
import sys

import numpy as np

import common as C
import basefam as B
import fusfam as F
import flow


def oracle(f, ops, rng):
    fails = []
    n = len(f["ks"])
    if n < 2:
        return fails
    est = F.make_fusion(f)

    def rep(sig, what):
        return {"signature": f"FusionART/{sig}", "text": what, "replay": F.summary_f(f, ops)}
    try:
        for o in ops:
            if o["op"] in ("fit", "partial_fit"):
                getattr(est, o["op"])(np.array(o["X"], dtype=float), match_tracking=o["mode"], epsilon=float(o["eps"]))
    except Exception:
        return fails
    X = np.array([r for o in ops if o["op"] in ("fit", "partial_fit") for r in o["X"]], dtype=float)
    k = rng.randrange(1, n)
    skip = rng.sample(range(n), k)
    skip_given = [s - n if rng.random() < 0.5 else s for s in skip]
    Q = X[[rng.randrange(len(X)) for _ in range(4)]].copy()
    # two different valid fillers for the skipped columns: rows taken from other samples
    Q1, Q2 = Q.copy(), Q.copy()
    for s in skip:
        lo, hi = est._channel_indices[s]
        Q1[:, lo:hi] = X[[rng.randrange(len(X)) for _ in range(len(Q))], lo:hi]
        Q2[:, lo:hi] = X[[rng.randrange(len(X)) for _ in range(len(Q))], lo:hi]
    try:
        p1 = est.predict(Q1, skip_channels=list(skip_given))
        p2 = est.predict(Q2, skip_channels=list(skip_given))
    except Exception as e:
        fails.append(rep("skip-predict-raises", f"predict with skip_channels={skip_given} raises {type(e).__name__}"))
        return fails
    if list(p1) != list(p2):
        fails.append(rep("skip-independent", f"prediction with skip_channels={skip_given} depends on the values in the skipped columns"))
        return fails
    # = arg-max over the remaining channels
    for j, x in enumerate(Q):
        T = []
        for w_i in range(len(est.W)):
            t = 0.0
            for kk, m in enumerate(est.modules):
                if kk in skip:
                    continue
                lo, hi = est._channel_indices[kk]
                a, _ = m.category_choice(x[lo:hi], m.W[w_i], params=m.params)
                t += float(a) * float(est.params["gamma_values"][kk])
            T.append(t)
        # exact data: ties are real ties; the skipped channels add the same constant to every category
        best = max(T)
        cands = [i for i, t in enumerate(T) if t == best]
        if int(p1[j]) not in cands:
            fails.append(rep("skip-argmax", f"row {j}: predicted {int(p1[j])}, arg-max of the remaining channels is {cands}"))
            return fails
    # predict_regression = centre of the target channel of the predicted category
    for m in est.modules:
        d = m.dim_ // 2 if type(m).__name__ == "FuzzyART" else m.dim_
        m.d_min_, m.d_max_ = np.zeros(d), np.ones(d)
    tgt = skip_given[0]
    try:
        reg = est.predict_regression(Q1, target_channels=[tgt])
        cpred = est.predict(Q1, skip_channels=[tgt])
        cen = est.get_channel_centers(tgt if tgt >= 0 else n + tgt)
        if not all(np.array_equal(np.asarray(reg[j]), np.asarray(cen[int(cpred[j])])) for j in range(len(Q1))):
            fails.append(rep("regression-centre", "predict_regression is not the target-channel centre of the predicted category"))
    except Exception as e:
        fails.append(rep("regression-raises", f"predict_regression raises {type(e).__name__}: {str(e)[:60]}"))
    # several target channels: one array per target, each the centre of that channel of the predicted category
    if len(skip_given) >= 2:
        try:
            regs = est.predict_regression(Q1, target_channels=list(skip_given))
            cpred = est.predict(Q1, skip_channels=list(skip_given))
            ok = isinstance(regs, list) and len(regs) == len(skip_given)
            for jt, tg in enumerate(skip_given):
                cen = est.get_channel_centers(tg if tg >= 0 else n + tg)
                ok = ok and all(np.array_equal(np.asarray(regs[jt][j]), np.asarray(cen[int(cpred[j])])) for j in range(len(Q1)))
            if not ok:
                fails.append(rep("regression-centre", f"predict_regression(target_channels={skip_given}) is not the list of target-channel centres of the predicted category"))
        except Exception as e:
            fails.append(rep("regression-raises", f"predict_regression(target_channels={skip_given}) raises {type(e).__name__}: {str(e)[:60]}"))
    # join / split round trip on the supplied channels
    chans = [X[:, est._channel_indices[kk][0]:est._channel_indices[kk][1]] for kk in range(n) if kk not in skip]
    J = est.join_channel_data(chans, skip_channels=list(skip_given))
    S = est.split_channel_data(J, skip_channels=list(skip_given))
    if len(S) != len(chans) or not all(np.array_equal(a, b) for a, b in zip(S, chans)):
        fails.append(rep("split-join", "split_channel_data(join_channel_data(.)) is not the identity on the supplied channels"))
    # ... whatever array types the caller's channels have (a binary / one-hot channel kept as integers next to float ones)
    if len(chans) >= 2:
        for dts in ((np.int64, np.float64), (np.float32, np.float64), (np.uint8, np.float64)):
            mixed = [(np.rint(c) if np.issubdtype(dts[0], np.integer) else c).astype(dts[0]) if jx == 0 else c.astype(dts[1]) for jx, c in enumerate(chans)]
            want = [np.asarray(c, dtype=float) for c in mixed]
            try:
                S2 = est.split_channel_data(est.join_channel_data(mixed, skip_channels=list(skip_given)), skip_channels=list(skip_given))
            except Exception as e:
                fails.append(rep("split-join-dtype", f"join/split of channels of dtypes {[np.dtype(d).name for d in dts]} raises {type(e).__name__}"))
                break
            if len(S2) != len(want) or not all(np.array_equal(np.asarray(a, dtype=float), b) for a, b in zip(S2, want)):
                fails.append(rep("split-join-dtype", f"join/split changes the values of channels supplied with dtypes {[np.dtype(d).name for d in dts]}"))
                break
    return fails


def prepare_restore(rng):
    """prepare_data / restore_data on raw multi-channel data (non-constant columns)"""
    import artlib
    n = rng.choice([2, 3])
    mods, raws = [], []
    rows = rng.randrange(3, 9)
    for _ in range(n):
        d = rng.choice([1, 2])
        kind = rng.choice(["Fuzzy", "Hyper"])
        if kind == "Fuzzy":
            mods.append(artlib.FuzzyART(0.5, 1e-3, 1.0)); width = 2 * d
        else:
            mods.append(artlib.HypersphereART(0.5, 1e-3, 1.0, 1.0)); width = d
        raw = np.array([[rng.uniform(-5, 20) for _ in range(d)] for _ in range(rows)])
        raws.append((raw, width))
    est = artlib.FusionART(mods, [1.0 / n] * n if n == 2 else [0.5, 0.25, 0.25], [w for _, w in raws])
    try:
        P = est.prepare_data([r for r, _ in raws])
        if P.min() < -1e-12 or P.max() > 1 + 1e-12:
            return {"signature": "FusionART/prepare-range", "text": "prepare_data left the unit cube", "replay": {"raw": [r.tolist() for r, _ in raws]}}
        est.validate_data(P)
        R = est.restore_data(P)
        if not all(np.allclose(a, b, atol=1e-9) for a, (b, _) in zip(R, raws)):
            return {"signature": "FusionART/prepare-restore", "text": "restore_data(prepare_data(.)) is not the identity", "replay": {"raw": [r.tolist() for r, _ in raws]}}
        # ... and on the supplied channels when some channels are skipped (positive or negative indices)
        skip = rng.sample(range(n), rng.randrange(1, n))
        given = [sk - n if rng.random() < 0.5 else sk for sk in skip]
        Ps = est.prepare_data([r for r, _ in raws], skip_channels=list(given))
        Rs = est.restore_data(Ps, skip_channels=list(given))
        sup = [raws[i][0] for i in range(n) if i not in skip]
        if len(Rs) != len(sup) or not all(a.shape == b.shape and np.allclose(a, b, atol=1e-9) for a, b in zip(Rs, sup)):
            return {"signature": "FusionART/prepare-restore", "text": f"restore_data(prepare_data(., skip={given}), skip={given}) is not the identity on the supplied channels",
                    "replay": {"raw": [r.tolist() for r, _ in raws], "skip_channels": given}}
    except Exception as e:
        return {"signature": "FusionART/prepare-raises", "text": f"{type(e).__name__}: {str(e)[:80]}", "replay": {"raw": [r.tolist() for r, _ in raws]}}
    return None


def main():
    tier = sys.argv[1] if len(sys.argv) > 1 else "quick"
    seed = C.seed_from_env()
    v = C.Verdict("C11", tier, seed)
    gate_ok, ob = C.proof_gate(v, "C11.v")
    rng = C.make_rng(seed, "C11")
    n = 300 if tier == "quick" else 3000
    strs, summ, fails, nontriv, hashes = [], [], [], 0, set()
    stats = {"skip_sizes": {}, "negative_index_cases": 0}
    for _ in range(n):
        f, ops = F.gen_fhistory(rng, with_skip=True)
        for o in ops:
            o["veto"] = None if o["op"] != "predict_skip" else o.get("veto")
        est, obs = F.run_fcase(f, ops)
        strs.append(F.fcase_coq(f, ops[:len(obs)], obs))
        s = F.summary_f(f, ops)
        summ.append(s)
        h = C.case_hash(s)
        if ops[-1]["op"] == "predict_skip" and obs[-1].get("snap") and len(obs[-1]["snap"]["W"]) >= 2 and h not in hashes:
            nontriv += 1
            k = len(ops[-1]["skip"])
            stats["skip_sizes"][k] = stats["skip_sizes"].get(k, 0) + 1
            stats["negative_index_cases"] += 1 if any(x < 0 for x in ops[-1]["skip"]) else 0
        hashes.add(h)
        fails.extend(oracle(f, [o for o in ops if o["op"] in ("fit", "partial_fit")], rng))
    for _ in range(60 if tier == "quick" else 600):
        r = prepare_restore(rng)
        if r:
            fails.append(r)
    codes, bad = flow.coq_corr("C11", "RunFusion", strs, shard=60, check_fn="fcheck", extra_imports="From ARTcorr Require Import RunBase.\n")
    for b in bad:
        v.notes.append("coq shard failed: " + b[-600:])
    flow.decide(v, "C11", gate_ok, ob, list(zip(codes, summ)), fails, None)
    v.cov.update({
        "evaluations": n, "distinct_nontrivial": nontriv,
        "rule": "trained FusionART models (2-4 channels), every query predicted with a random non-empty proper subset of channels skipped, given as positive or negative indices, "
                "with two different valid fillers in the skipped columns; non-trivial = distinct case with a skip query on a model with >= 2 categories",
        "traces_validated_against_impl": sum(1 for x in codes if x == 0),
        "distribution": stats, "samples": summ[:1]})
    v.assumptions = ["fillers are restricted to values the skipped channel's validation accepts (predict validates all channels)",
                     "prepare/restore inverse to 1e-9 on the implementation (exact in the real-number reading)"]
    sys.exit(v.finish())


if __name__ == "__main__":
    main()

"""C04 - training is total and numerically well-defined on every valid data set.
Proof: props/C04.v (a step is defined whenever the kernel functions are
defined on the stored weights, every index in range; Fuzzy/ART2-A/Hypersphere
instances).  Correspondence: RunKern direct calls (defined-ness of every
kernel output is compared) and RunBase histories.  Failing-input search on
the implementation: fit / partial_fit / predict of every elementary module
and of compound estimators on legal extremes (duplicates, samples on a
centre, exact ties, extreme but valid hyper-parameters); any exception or
non-finite weight / activation / match / centre is a failure."""
import contextlib
import io
import sys

import numpy as np

import common as C
import basefam as B
import kernfam as K
import flow


def extreme_params(rng, kind, d):
    p = K.gen_params(rng, kind, d)
    if kind == "Fuzzy":
        p.update(rho=rng.choice([0.0, 1.0, 0.5, 0.9]), alpha=rng.choice([0.0, 1e-10, 1e-3, 10.0]), beta=rng.choice([1.0, 1e-3, 0.5]))
        if p["rho"] == 0.0 and p["alpha"] == 0.0:
            p["alpha"] = 1e-10
    elif kind == "ART1":
        p.update(rho=rng.choice([0.0, 1.0, 0.5]), L=rng.choice([1.0, 1.0000001, 2.0, 100.0]))
        if p["rho"] == 0.0 and p["L"] == 1.0:
            p["L"] = 2.0
    elif kind == "ART2A":
        p.update(rho=rng.choice([0.0, 1.0, 0.5]), beta=rng.choice([0.0, 1.0, 0.5]))
    elif kind == "Hyper":
        p.update(rho=rng.choice([0.0, 1.0, 0.5, 0.9]), alpha=rng.choice([0.0, 1e-10, 1e-3]), beta=rng.choice([0.0, 1.0, 0.5]),
                 r_hat=rng.choice([0.5, 1.0, 3.0, 1e-3]))
        if p["rho"] == 0.0 and p["alpha"] == 0.0:
            p["alpha"] = 1e-10
    elif kind == "Ellip":
        p.update(rho=rng.choice([0.0, 1.0, 0.5]), alpha=rng.choice([0.0, 1e-10, 1e-3]), beta=rng.choice([0.0, 1.0, 0.5]),
                 mu=rng.choice([1.0, 0.5, 1e-3]), r_hat=rng.choice([1.0, 3.0, 0.5]))
        if p["rho"] == 0.0 and p["alpha"] == 0.0:
            p["alpha"] = 1e-10
    elif kind == "Gauss":
        p.update(rho=rng.choice([0.0, 1.0, 0.5]))
    elif kind == "Bayes":
        p.update(rho=rng.choice([1e-10, 1.0, 1e3]))
    elif kind == "Quad":
        p.update(rho=rng.choice([0.0, 1.0, 0.5]), s_init=rng.choice([0.5, 1.0, 10.0, 0.0]), lr_b=rng.choice([1e-3, 1.0]),
                 lr_w=rng.choice([0.0, 1.0]), lr_s=rng.choice([0.0, 1.0]))
    return p


def extreme_data(rng, kind, n, d):
    X = K.gen_data(rng, kind, n, d)
    if kind == "ART1":
        return X
    raw = X[:, :d]
    # quantised (iris-like) grid, duplicates, boundary values
    mode = rng.choice(["grid", "dups", "const", "rand"])
    if mode == "grid":
        raw = np.round(raw * 10) / 10
    elif mode == "dups":
        raw = raw[[rng.randrange(max(1, n // 3)) for _ in range(n)]]
    elif mode == "const":
        raw = np.tile(raw[0], (n, 1))
    raw = np.clip(raw, 0.0, 1.0)
    return np.hstack([raw, 1.0 - raw]) if kind == "Fuzzy" else raw


def finite_model(est):
    for w in est.W:
        if not np.all(np.isfinite(np.asarray(w, dtype=float))):
            return "non-finite weight"
    try:
        if hasattr(est, "d_max_") and est.d_max_ is None:
            est.d_min_, est.d_max_ = np.zeros(1), np.ones(1)
        for c in est.get_cluster_centers():
            if not np.all(np.isfinite(np.asarray(c, dtype=float))):
                return "non-finite cluster centre"
    except NotImplementedError:
        pass
    return None


def centre_rows(m, kind):
    """the reported cluster centres as prepared samples, when they are valid data for the module"""
    if kind == "ART1":
        return None
    try:
        cen = np.array([np.asarray(c, dtype=float).ravel() for c in m.get_cluster_centers()], dtype=float)
        if cen.ndim != 2 or not np.all(np.isfinite(cen)):
            return None
        rows = np.hstack([cen, 1.0 - cen]) if kind == "Fuzzy" else cen
        m.validate_data(rows)
        return rows
    except (AssertionError, NotImplementedError, ValueError):
        return None


def run_elem(rng):
    kind = rng.choice(K.KINDS)
    d = rng.choice([1, 2, 3]) if kind in ("Bayes", "Quad") else rng.choice([1, 2, 3, 5])
    p = extreme_params(rng, kind, d)
    X = extreme_data(rng, kind, rng.randrange(2, 14), d)
    wrap = rng.choice(["bare", "bare", "sam", "pf"])
    rep = {"kind": kind, "params": {k: (np.asarray(v).tolist() if isinstance(v, np.ndarray) else v) for k, v in p.items()},
           "X": X.tolist(), "wrap": wrap}
    import artlib
    try:
        est = K.make(kind, p)
    except AssertionError:
        return None, rep        # rejected by validate_params: not a legal configuration
    mode = rng.choice(B.MODES)
    eps = rng.choice([0.0, 1e-10, 0.1])
    rep.update(mode=mode, eps=eps)
    try:
        with np.errstate(all="ignore"), contextlib.redirect_stdout(io.StringIO()):
            try:
                est.validate_data(X)
            except AssertionError:
                return None, rep
            est = K.make(kind, p)
            if wrap == "bare":
                est.fit(X, match_tracking=mode, epsilon=eps)
                m = est
            elif wrap == "pf":
                h = max(1, len(X) // 2)
                est.partial_fit(X[:h], match_tracking=mode, epsilon=eps)
                est.partial_fit(X[h:] if len(X) > h else X[:1], match_tracking=mode, epsilon=eps)
                m = est
            else:
                y = np.array([rng.randrange(2) for _ in X])
                rep["y"] = y.tolist()
                sam = artlib.SimpleARTMAP(est)
                sam.fit(X, y, match_tracking=mode, epsilon=eps)
                sam.predict(X)
                m = est
            bad = finite_model(m)
            if bad:
                return {"signature": f"{kind}/nonfinite", "text": f"{kind}: {bad} after training", "replay": rep}, rep
            yp = m.predict(X)
            # samples that coincide with the centre of a (grown) category: feed the reported centres back
            rows = centre_rows(m, kind)
            if rows is not None:
                rep["then_partial_fit_centres"] = rows.tolist()
                m.partial_fit(rows, match_tracking=mode, epsilon=eps)
                bad = finite_model(m)
                if bad:
                    return {"signature": f"{kind}/nonfinite", "text": f"{kind}: {bad} after presenting the reported cluster centres as samples", "replay": rep}, rep
                m.predict(rows)
            # activations / match values stay finite
            for x in X[:4]:
                for w in m.W[:4]:
                    T, cache = m.category_choice(x, w, params=m.params)
                    M, _ = m.match_criterion(x, w, params=m.params, cache=cache)
                    if not (np.isfinite(T) and np.isfinite(M)):
                        return {"signature": f"{kind}/nonfinite", "text": f"{kind}: non-finite activation/match value T={T} M={M}", "replay": rep}, rep
    except Exception as e:
        return {"signature": f"{kind}/exception", "text": f"{kind} ({wrap}): {type(e).__name__}: {str(e)[:100]}", "replay": rep}, rep
    return None, rep


# ordinary settings (well inside every range) and, per class, the boundary values tried ONE AT A TIME: whatever
# validate_params accepts must train and predict (the quantifier: "all hyper-parameters accepted by validate_params")
ORDINARY = {"Fuzzy": {"rho": 0.5, "alpha": 1e-3, "beta": 0.5}, "ART1": {"rho": 0.5, "L": 2.0}, "ART2A": {"rho": 0.5, "alpha": 0.1, "beta": 0.5},
            "Hyper": {"rho": 0.5, "alpha": 1e-3, "beta": 0.5, "r_hat": 1.0}, "Ellip": {"rho": 0.5, "alpha": 1e-3, "beta": 0.5, "mu": 0.8, "r_hat": 1.0},
            "Gauss": {"rho": 0.1, "alpha": 1e-3}, "Bayes": {"rho": 0.05}, "Quad": {"rho": 0.3, "s_init": 1.0, "lr_b": 0.5, "lr_w": 0.1, "lr_s": 0.05}}
BOUNDARY = {"Fuzzy": {"rho": [0.0, 1.0], "alpha": [0.0], "beta": [0.0, 1.0]},
            "ART1": {"rho": [0.0, 1.0], "L": [1.0, float("inf")]},
            "ART2A": {"rho": [0.0, 1.0], "alpha": [0.0], "beta": [0.0, 1.0]},
            "Hyper": {"rho": [0.0, 1.0], "alpha": [0.0], "beta": [0.0, 1.0], "r_hat": [0.0, -1.0, float("inf")]},
            "Ellip": {"rho": [0.0, 1.0], "alpha": [0.0, 1.0], "beta": [0.0, 1.0], "mu": [1.0, 0.0], "r_hat": [0.0, -1.0, float("inf")]},
            "Gauss": {"rho": [0.0, 1.0], "alpha": [0.0], "sigma_init": ["zero-entry", "negative-entry"]},
            "Bayes": {"rho": [0.0], "cov_init": ["zeros", "singular", "negative-definite", "non-symmetric-singular", "non-symmetric-negative-det"]},
            "Quad": {"rho": [0.0, 1.0], "s_init": [0.0, -1.0, float("inf"), float("nan")], "lr_b": [0.0, 1.0], "lr_w": [0.0, 1.0], "lr_s": [0.0, 1.0]},
            "Topo": {"tau": [0, 1], "phi": [0, -1], "beta_lower": [-0.5, 0.0]},
            "DualVig": {"rho_lower_bound": [0.0, -0.1]}}
# (magnitudes near the binary64 overflow / underflow thresholds are not tried: see the assumptions in the evidence)


def accepted_params_oracle(rng):
    import artlib
    cls = rng.choice(list(BOUNDARY))
    pname = rng.choice(sorted(BOUNDARY[cls]))
    val = rng.choice(BOUNDARY[cls][pname])
    d = 2
    rep = {"class": cls, "parameter": pname, "value": repr(val), "others": "ordinary (see harness/c04.py ORDINARY)"}

    def build():
        if cls in ("Topo", "DualVig"):
            base = artlib.FuzzyART(0.5, 1e-3, 1.0)
            with contextlib.redirect_stdout(io.StringIO()):
                if cls == "Topo":
                    kw = {"beta_lower": 0.5, "tau": 5, "phi": 2}
                    kw[pname] = val
                    if pname == "tau":
                        kw["phi"] = max(0, min(kw["phi"], val))       # phi <= tau is part of the validation
                    return artlib.TopoART(base, **kw)
                return artlib.DualVigilanceART(base, rho_lower_bound=val)
        p = dict(ORDINARY[cls])
        if cls == "Gauss":
            p["sigma_init"] = np.full(d, 0.5)
        if cls == "Bayes":
            p["cov_init"] = 0.05 * np.eye(d)
        if pname == "sigma_init":
            p[pname] = {"zero-entry": np.array([0.5, 0.0]), "negative-entry": np.array([0.5, -0.5])}[val]
        elif pname == "cov_init":
            p[pname] = {"zeros": np.zeros((d, d)), "singular": np.ones((d, d)), "negative-definite": -0.05 * np.eye(d),
                        "non-symmetric-singular": np.array([[1.0, 2.0], [0.5, 1.0]]), "non-symmetric-negative-det": np.array([[1.0, 5.0], [0.5, 1.0]])}[val]
        else:
            p[pname] = val
        # the standing assumptions of the quantifier
        if cls in ("Fuzzy", "Hyper", "Ellip") and p["rho"] == 0.0 and p["alpha"] == 0.0:
            return None
        if cls == "ART1" and p["rho"] == 0.0 and p["L"] == 1.0:
            return None
        return K.make(cls, p)
    try:
        est = build()
    except (AssertionError, TypeError, ValueError):
        return None                  # not accepted by validation
    if est is None:
        return None
    kind = "Fuzzy" if cls in ("Topo", "DualVig") else cls
    X = K.gen_data(rng, kind, rng.randrange(4, 10), d)
    rep["X"] = X.tolist()
    sig = f"{cls}/accepted-{pname}={val!r}"
    try:
        with np.errstate(all="ignore"), contextlib.redirect_stdout(io.StringIO()), C.time_limit(5):
            est.validate_data(X)
            h = len(X) // 2
            est.fit(X[:h])
            est.partial_fit(X[h:])
            est.predict(X)
            bad = None
            for w in est.W:
                if not np.all(np.isfinite(np.asarray(w, dtype=float))):
                    bad = "non-finite weight"
            m = est.base_module if cls in ("Topo", "DualVig") else est
            for x in X[:4]:
                for w in list(m.W)[:4]:
                    T, cache = m.category_choice(x, w, params=m.params)
                    M, _ = m.match_criterion(x, w, params=m.params, cache=cache)
                    if not (np.isfinite(T) and np.isfinite(M)):
                        bad = f"non-finite activation / match value (T={T}, M={M})"
            if bad:
                return {"signature": sig + "/nonfinite", "text": f"{cls}({pname}={val!r}) passes validate_params, then: {bad}", "replay": rep}
    except TimeoutError:
        return {"signature": sig + "/hangs", "text": f"{cls}({pname}={val!r}) passes validate_params; fit / partial_fit / predict did not return within 5 s", "replay": rep}
    except Exception as e:
        return {"signature": sig + "/raises", "text": f"{cls}({pname}={val!r}) passes validate_params, then {type(e).__name__}: {str(e)[:80]}", "replay": rep}
    return None


def run_compound(rng):
    import zoo
    name = rng.choice(zoo.ALL_NAMES + zoo.NESTED_NAMES + ["Fusion", "DualVigilance", "Topo"])
    z, X, y, ops, mode, eps = zoo.gen_zoo_history(rng, name, veto_ok=True)     # reset functions force every exit of the search
    est = z["est"]
    try:
        for i, (op, ix) in enumerate(ops):
            if op == "fit" and not z.get("fit_ok", True):
                op = "partial_fit"
            zoo.call(est, op, zoo.take(X, ix), None if y is None else np.asarray(y)[ix], mode, eps, veto=z.get("veto"))
        if hasattr(est, "predict"):
            with contextlib.redirect_stdout(io.StringIO()):
                est.predict(zoo.take(X, ops[-1][1]))
    except Exception as e:
        return {"signature": f"{name}/exception", "text": f"{name}: {type(e).__name__}: {str(e)[:100]}",
                "replay": zoo.describe(name, z, X, y, ops, mode, eps, -1)}
    return None


def run_nested_elem(rng):
    """every elementary module inside the wrappers that run their own search loop (DualVigilanceART, a FusionART
    channel, TopoART where the module has a beta): training is total and every activation / match value of the wrapped
    module on its stored weights stays finite"""
    import artlib
    kind = rng.choice(K.KINDS)
    d = rng.choice([1, 2, 3]) if kind in ("Bayes", "Quad") else rng.choice([1, 2, 3])
    p = K.gen_params(rng, kind, d)
    if kind in ("Fuzzy", "Hyper", "Ellip") and p["rho"] == 0.0:
        p["rho"] = 0.3
    if kind == "ART1" and p["rho"] == 0.0:
        p["rho"] = 0.5
    X = K.gen_data(rng, kind, rng.randrange(4, 14), d)
    wrap = rng.choice(["DV", "Fusion", "Topo" if "beta" in p and kind != "ART2A" else "DV"])
    rep = {"kind": kind, "wrapper": wrap, "params": {k: (np.asarray(v).tolist() if isinstance(v, np.ndarray) else v) for k, v in p.items()}, "X": X.tolist()}
    try:
        base = K.make(kind, p)
        with contextlib.redirect_stdout(io.StringIO()):
            if wrap == "DV":
                lb = 0.0 if kind == "Bayes" else float(p["rho"]) * 0.5
                if kind == "Bayes":
                    return None          # DualVigilanceART requires base rho > lower bound >= 0 with the NON-inverted reading
                est = artlib.DualVigilanceART(base, rho_lower_bound=lb)
                Xin = X
            elif wrap == "Topo":
                est = artlib.TopoART(base, beta_lower=float(p["beta"]) * 0.5, tau=50, phi=1)
                Xin = X
            else:
                raw = np.array([[rng.random()] for _ in range(len(X))])
                est = artlib.FusionART([base, artlib.FuzzyART(0.3, 1e-3, 1.0)], [0.5, 0.5], [X.shape[1], 2])
                Xin = np.hstack([X, raw, 1.0 - raw])
    except AssertionError:
        return None
    try:
        with np.errstate(all="ignore"), contextlib.redirect_stdout(io.StringIO()), C.time_limit(10):
            h = max(1, len(Xin) // 2)
            est.fit(Xin[:h])
            est.partial_fit(Xin[h:] if len(Xin) > h else Xin[:1])
            est.predict(Xin)
            for x in X[:4]:
                for w in list(base.W)[:5]:
                    T, cache = base.category_choice(x, w, params=base.params)
                    M, _ = base.match_criterion(x, w, params=base.params, cache=cache)
                    if not (np.isfinite(T) and np.isfinite(M)):
                        return {"signature": f"{wrap}({kind})/nonfinite", "text": f"{kind} inside {wrap}: non-finite activation / match value (T={T}, M={M}) on a stored weight", "replay": rep}
            if not all(np.all(np.isfinite(np.asarray(w, dtype=float))) for w in base.W):
                return {"signature": f"{wrap}({kind})/nonfinite", "text": f"{kind} inside {wrap}: non-finite weight", "replay": rep}
    except Exception as e:
        return {"signature": f"{wrap}({kind})/exception", "text": f"{kind} inside {wrap}: {type(e).__name__}: {str(e)[:100]}", "replay": rep}
    return None


def run_epochs(rng):
    """fit(max_iter = 2..3): every later epoch meets the model the earlier ones left (categories that own one sample each,
    clusters emptied by re-assignment, a validity index at the edge of its domain) and must be total as well.  Elementary
    modules over their own data, and the wrappers that run their own epoch loop (CVIART for all three indices,
    iCVIFuzzyART, TopoART, DualVigilanceART, SimpleARTMAP, FusionART); vigilance from loose to one-sample-per-category."""
    import artlib
    from artlib.cvi.iCVIFuzzyArt import iCVIFuzzyART
    which = rng.choice(["elem", "CVIART", "CVIART", "iCVIFuzzy", "Topo", "DualVig", "SimpleARTMAP", "Fusion"])
    epochs = rng.choice([2, 3])
    rho = rng.choice([0.0, 0.3, 0.6, 0.9, 0.95, 1.0])
    n, d = rng.randrange(3, 10), rng.choice([1, 2])
    shape = rng.choice(["separated", "grid", "dups"])
    if shape == "separated":                      # distinct, well separated points: at a high vigilance every sample is alone
        raw = np.array([[(i + 0.5) / n if j == 0 else ((i * 7) % n + 0.5) / n for j in range(d)] for i in range(n)], dtype=float)
    else:
        raw = np.array([[rng.randrange(0, 5) / 4 for _ in range(d)] for _ in range(n)], dtype=float)
        if shape == "dups":
            raw = raw[[rng.randrange(max(1, n // 2)) for _ in range(n)]]
    X = np.hstack([raw, 1.0 - raw])
    mode = rng.choice(B.MODES)
    fz = lambda: artlib.FuzzyART(rho, 1e-3, rng.choice([1.0, 0.5]))
    rep = {"estimator": which, "rho": rho, "max_iter": epochs, "mode": mode, "X": X.tolist()}
    try:
        with contextlib.redirect_stdout(io.StringIO()), np.errstate(all="ignore"), C.time_limit(20):
            y = None
            if which == "elem":
                kind = rng.choice(K.KINDS)
                p = K.gen_params(rng, kind, d)
                Xk = K.gen_data(rng, kind, n, d)
                rep.update(kind=kind, params={k: (np.asarray(v).tolist() if isinstance(v, np.ndarray) else v) for k, v in p.items()}, X=Xk.tolist())
                est = K.make(kind, p)
                try:
                    est.validate_data(Xk)
                except AssertionError:
                    return None
                if (kind in ("Fuzzy", "Hyper", "Ellip") and p["rho"] == 0.0 and p["alpha"] == 0.0) or (kind == "ART1" and (p["L"] == 1.0 or not Xk.any(axis=1).all())):
                    return None          # the standing assumptions of the quantifier
                est.fit(Xk, max_iter=epochs, match_tracking=mode)
                est.predict(Xk)
                return None
            if which == "CVIART":
                val = rng.choice([1, 2, 3])
                rep["validity"] = val
                est = artlib.CVIART(fz(), val)
            elif which == "iCVIFuzzy":
                est = iCVIFuzzyART(rho, 1e-3, 1.0, 1, offline=rng.choice([True, False]))
            elif which == "Topo":
                est = artlib.TopoART(fz(), 0.5, rng.choice([2, 5, 50]), rng.choice([1, 2]))
            elif which == "DualVig":
                if rho == 0.0:
                    return None
                est = artlib.DualVigilanceART(fz(), rho * 0.5)
            elif which == "SimpleARTMAP":
                est = artlib.SimpleARTMAP(fz())
                y = np.array([rng.randrange(3) for _ in range(n)])
                rep["y"] = y.tolist()
            else:
                est = artlib.FusionART([fz(), artlib.FuzzyART(0.5, 1e-3, 1.0)], [0.5, 0.5], [2 * d, 2 * d])
                X = np.hstack([X, X[::-1]])
                rep["X"] = X.tolist()
            if y is not None:
                est.fit(X, y, max_iter=epochs, match_tracking=mode)
            else:
                est.fit(X, max_iter=epochs, match_tracking=mode)
            est.predict(X)
    except AssertionError as e:
        if which == "elem":
            return None
        return {"signature": f"{which}/epochs-exception", "text": f"{which}.fit(max_iter={epochs}): AssertionError: {str(e)[:100]}", "replay": rep}
    except TimeoutError:
        return {"signature": f"{which}/epochs-hang", "text": f"{which}.fit(max_iter={epochs}) did not return within 20 s", "replay": rep}
    except Exception as e:
        name = which if which != "elem" else rep.get("kind", "elem")
        return {"signature": f"{name}/epochs-exception", "text": f"{name}.fit(max_iter={epochs}): {type(e).__name__}: {str(e)[:100]}", "replay": rep}
    return None


def run_topo_empty(rng):
    """TopoART histories whose last pruning round removes every category (legal: tau = n, nothing reaches phi),
    then predict / fit again / predict: all must be total (predict labels -1 while nothing survives)"""
    import artlib
    n = rng.randrange(2, 7)
    d = rng.choice([1, 2])
    raw = np.array([[(i + 0.5) / n if j == 0 else rng.random() for j in range(d)] for i in range(n)])
    X = np.hstack([raw, 1.0 - raw])
    rho = rng.choice([0.99, 0.999, 1.0])
    phi = min(rng.choice([2, 3]), n)          # validate_params requires tau >= phi
    rep = {"estimator": "TopoART(FuzzyART)", "rho": rho, "tau": n, "phi": phi, "X": X.tolist(),
           "how": "fit(X); predict(X); partial_fit(X[:1]); predict(X)"}
    try:
        with np.errstate(all="ignore"), contextlib.redirect_stdout(io.StringIO()):
            est = artlib.TopoART(artlib.FuzzyART(rho=rho, alpha=1e-3, beta=1.0), beta_lower=0.5, tau=n, phi=phi)
            est.fit(X)
            empty = len(est.W) == 0
            p = est.predict(X)
            if empty and any(int(v) != -1 for v in p):
                return {"signature": "TopoART/empty-predict", "text": "no category survived but predict returned a category label", "replay": rep}, empty
            est.partial_fit(X[:1])
            est.predict(X)
    except Exception as e:
        return {"signature": "TopoART/exception", "text": f"TopoART after a round that removed every category: {type(e).__name__}: {str(e)[:100]}", "replay": rep}, True
    return None, empty


def main():
    tier = sys.argv[1] if len(sys.argv) > 1 else "quick"
    seed = C.seed_from_env()
    v = C.Verdict("C04", tier, seed)
    gate_ok, ob = C.proof_gate(v, "C04.v")
    rng = C.make_rng(seed, "C04")
    n = 900 if tier == "quick" else 9000
    fails, reps, legal, kinds = [], [], 0, {}
    for _ in range(n):
        f, rep = run_elem(rng)
        reps.append(rep)
        kinds[rep["kind"]] = kinds.get(rep["kind"], 0) + 1
        if f:
            fails.append(f)
    nc = 400 if tier == "quick" else 4000
    for _ in range(nc):
        f = run_compound(rng)
        if f:
            fails.append(f)
    rng_n = C.make_rng(seed, "C04-nested")
    n_nested = 250 if tier == "quick" else 2500
    for _ in range(n_nested):
        f = run_nested_elem(rng_n)
        if f:
            fails.append(f)
    n_empty = 0
    for _ in range(40 if tier == "quick" else 400):
        f, was_empty = run_topo_empty(rng)
        n_empty += 1 if was_empty else 0
        if f:
            fails.append(f)
    # several epochs (own PRNG stream)
    rng_e = C.make_rng(seed, "C04-epochs")
    n_epochs, seen_e = (300 if tier == "quick" else 3000), set()
    for _ in range(n_epochs):
        f = run_epochs(rng_e)
        if f and f["signature"] not in seen_e:
            seen_e.add(f["signature"])
            fails.append(f)
    # every hyper-parameter value that validate_params accepts (boundary values, one at a time; own PRNG stream)
    rng_b = C.make_rng(seed, "C04-boundary")
    n_bound, seen_b = (300 if tier == "quick" else 1500), set()
    for _ in range(n_bound):
        f = accepted_params_oracle(rng_b)
        if f and f["signature"] not in seen_b:
            seen_b.add(f["signature"])
            fails.append(f)
    # termination of the generic search on arbitrary activation values (table kernel: ties, +-inf)
    import c01
    rng_t = C.make_rng(seed, "C04-table")
    for _ in range(150 if tier == "quick" else 1500):
        f = c01.table_kernel_oracle(rng_t)
        if f:
            fails.append(f)
            break
    # defined-ness of kernel outputs vs the model (reuses the direct-call correspondence)
    calls, strs, summ = [], [], []
    tries = 0
    while len(calls) < (300 if tier == "quick" else 3000) and tries < 20000:
        tries += 1
        k = K.gen_call(rng)
        if k is None:
            continue
        o = K.run_call(k)
        calls.append(k); strs.append(K.call_coq(k, o)); summ.append(K.summary(k, o))
    codes, bad = flow.coq_corr("C04", "RunKern", strs, shard=100, check_fn="kcheck")
    for b in bad:
        v.notes.append("coq shard failed: " + b[-600:])
    flow.decide(v, "C04", gate_ok, ob, list(zip(codes, summ)), fails, None)
    v.cov.update({
        "evaluations": n + nc + len(calls),
        "distinct_nontrivial": len(set(C.case_hash(r) for r in reps)),
        "rule": "legal extremes for all eight modules (rho in {0,1}, alpha in {0,1e-10}, beta in {0,1}, tiny r_hat/mu, huge L; quantised grids, duplicated and constant data), "
                "bare / two partial_fit batches / SimpleARTMAP A-side, all modes; plus compound-estimator histories; non-trivial = distinct configuration+data",
        "traces_validated_against_impl": sum(1 for x in codes if x == 0),
        "distribution": {"kinds": kinds, "compound": nc, "topoart_histories_ending_with_no_category": n_empty, "boundary_hyper_parameter_cases": n_bound, "elementary_modules_inside_wrappers": n_nested}, "samples": reps[:1]})
    v.assumptions = ["overflow / underflow / cancellation-induced sqrt of a tiny negative are binary64 phenomena the exact model cannot exhibit (watched on the implementation only)",
                     "third-party routines (np.linalg, sklearn validation) are exercised, not modelled beyond Mat.v"]
    v.cov["added_after_wave_7"] = 'fits of 2-3 epochs: all eight elementary modules, CVIART (three indices), iCVIFuzzyART, TopoART, DualVigilanceART, SimpleARTMAP, FusionART; vigilance 0 .. 1 (one sample per category); separated / grid / duplicated data'
    sys.exit(v.finish())


if __name__ == "__main__":
    main()

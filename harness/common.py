"""Shared machinery of the checks: paths, PRNG, Coq literal emission, Coq
shard execution, proof-obligation checking, known findings, verdict and
evidence writing.

Everything random derives from one PRNG seeded by VERIF_SEED.
"""
import hashlib
import json
import math
import os
import random
import re
import subprocess
import sys
import time
from fractions import Fraction

VERIF = os.path.dirname(os.path.dirname(os.path.abspath(__file__)))
REPO = os.environ.get("VERIF_REPO", "/repo")
COQ = os.path.join(VERIF, "coq")
WORK = os.path.join(VERIF, "_work")
PY = "/venv/bin/python"

ALLOWED_AXIOMS = {
    # standard-library axioms only (named in DESIGN.md section 6)
    "ClassicalDedekindReals.sig_forall_dec",
    "ClassicalDedekindReals.sig_not_dec",
    "FunctionalExtensionality.functional_extensionality_dep",
    "Classical_Prop.classic",
}

FORBIDDEN = re.compile(
    r"\b(Admitted|admit|Axiom|Axioms|Parameter|Parameters|Conjecture|Hypothesis|Variable)\b|"
    r"Unset\s+Guard|bypass_check|type-in-type|impredicative-set|Admit\s+Obligations")


def seed_from_env():
    try:
        return int(os.environ.get("VERIF_SEED", "20260930"))
    except ValueError:
        return 20260930


def make_rng(seed, salt=""):
    h = hashlib.sha256(f"{seed}:{salt}".encode()).hexdigest()
    return random.Random(int(h[:16], 16))


# ---------------------------------------------------------------- Coq literals
def q(x):
    """exact rational literal of a float / Fraction / int, in Q scope"""
    if isinstance(x, bool):
        raise TypeError("bool is not a number here")
    if isinstance(x, float) and not math.isfinite(x):
        x = Fraction(-987654321)          # nan / inf observed on the implementation: a sentinel no model value equals
    f = Fraction(x) if not isinstance(x, Fraction) else x
    n, d = f.numerator, f.denominator
    if n < 0:
        return f"(({n})#{d})"
    return f"({n}#{d})"


def qlist(xs):
    return "[" + "; ".join(q(x) for x in xs) + "]"


def qmat(X):
    return "[" + "; ".join(qlist(r) for r in X) + "]"


def natlist(xs):
    return "[" + "; ".join(str(int(x)) for x in xs) + "]%nat"


def zlist(xs):
    return "[" + "; ".join(("(%d)" % int(x)) for x in xs) + "]%Z"


def boollist(xs):
    return "[" + "; ".join("true" if x else "false" for x in xs) + "]"


def coq_bool(b):
    return "true" if b else "false"


def coq_option(s):
    return "None" if s is None else f"(Some {s})"


def coq_list(items):
    return "[" + "; ".join(items) + "]"


# ---------------------------------------------------------------- building Coq
def run(cmd, timeout, cwd=None, env=None):
    t0 = time.time()
    try:
        p = subprocess.run(cmd, cwd=cwd, env=env, capture_output=True, text=True, timeout=timeout)
        return p.returncode, p.stdout, p.stderr, time.time() - t0
    except subprocess.TimeoutExpired as e:
        return 124, (e.stdout or b"").decode(errors="replace") if isinstance(e.stdout, bytes) else (e.stdout or ""), "TIMEOUT", time.time() - t0


def build_coq(timeout=1500):
    """full .vo build of the development (incremental); returns (ok, log)"""
    if not os.path.exists(os.path.join(COQ, "Makefile")) or \
            os.path.getmtime(os.path.join(COQ, "Makefile")) < os.path.getmtime(os.path.join(COQ, "_CoqProject")):
        rc, out, err, _ = run(["coq_makefile", "-f", "_CoqProject", "-o", "Makefile"], 60, cwd=COQ)
        if rc != 0:
            return False, out + err
    rc, out, err, _ = run(["make", "-j16", "-k"], timeout, cwd=COQ)
    return rc == 0, out + err


def scan_forbidden():
    """fail closed on Admitted / Axiom / Parameter ... anywhere in the development.
    `Variable`/`Hypothesis` are allowed only inside a Section (checked crudely:
    the file must contain a `Section` before the first occurrence)."""
    bad = []
    for root, _, files in os.walk(COQ):
        if "/corr/gen" in root or "/_work" in root:
            continue
        for f in files:
            if not f.endswith(".v"):
                continue
            p = os.path.join(root, f)
            txt = open(p).read()
            txt_nc = re.sub(r"\(\*.*?\*\)", "", txt, flags=re.S)
            depth = 0
            for ln, line in enumerate(txt_nc.split("\n"), 1):
                if re.match(r"\s*Section\b", line):
                    depth += 1
                if re.match(r"\s*End\b", line) and depth > 0:
                    depth -= 1
                m = FORBIDDEN.search(line)
                if m:
                    w = m.group(0)
                    if w in ("Hypothesis", "Variable") or w.startswith("Variable") or w.startswith("Hypothes"):
                        if depth > 0:
                            continue
                    bad.append(f"{os.path.relpath(p, VERIF)}:{ln}: {line.strip()[:80]}")
    return bad


def check_obligations(prop_file):
    """compile props/<prop>.v output: theorem names and the axioms each depends on.
    Returns dict(obligations, discharged, axioms, bad_axioms, log, theorems)."""
    src = os.path.join(COQ, "props", prop_file)
    txt = open(src).read()
    theorems = re.findall(r"^\s*(?:Theorem|Lemma|Corollary)\s+([A-Za-z0-9_']+)", txt, flags=re.M)
    rc, out, err, wall = run(["coqc", "-Q", "theories", "ART", "-Q", "props", "ARTprops", "-Q", "corr", "ARTcorr",
                              os.path.join("props", prop_file)], 900, cwd=COQ)
    axioms = set()
    for m in re.finditer(r"^([A-Za-z_][A-Za-z0-9_.']*)(?: :|$)", out, flags=re.M):
        if m.group(1) not in ("Axioms",):
            axioms.add(m.group(1))
    closed = len(re.findall(r"Closed under the global context", out))
    bad = sorted(a for a in axioms if a not in ALLOWED_AXIOMS)
    ok = rc == 0
    return {
        "obligations": len(theorems),
        "discharged": len(theorems) if ok else 0,
        "theorems": theorems,
        "axioms": sorted(axioms),
        "closed_count": closed,
        "bad_axioms": bad,
        "ok": ok and not bad,
        "log": (out + err)[-4000:],
        "wall_s": wall,
    }


def run_coq_shards(prop, shard_sources, timeout_each=600, jobs=16):
    """shard_sources: list of Coq source strings; each must print with
    `Eval vm_compute in ...` one list of nat result codes.  Returns list of
    code lists (or None for a shard that failed) and the logs."""
    gen = os.path.join(WORK, prop)
    os.makedirs(gen, exist_ok=True)
    for f in os.listdir(gen):
        if f.startswith("cases_"):
            os.remove(os.path.join(gen, f))
    paths = []
    for i, src in enumerate(shard_sources):
        p = os.path.join(gen, f"cases_{i}.v")
        with open(p, "w") as fh:
            fh.write(src)
        paths.append(p)
    procs = []
    results = [None] * len(paths)
    logs = [""] * len(paths)
    pending = list(enumerate(paths))
    running = []
    env = dict(os.environ)
    while pending or running:
        while pending and len(running) < jobs:
            i, p = pending.pop(0)
            cmd = ["bash", "-c", f"ulimit -s unlimited 2>/dev/null; exec timeout {timeout_each} coqc -Q {COQ}/theories ART -Q {COQ}/corr ARTcorr -Q {gen} ARTgen{prop} {p}"]
            pr = subprocess.Popen(cmd, cwd=gen, stdout=subprocess.PIPE, stderr=subprocess.PIPE, text=True, env=env)
            running.append((i, pr))
        still = []
        for i, pr in running:
            if pr.poll() is None:
                still.append((i, pr))
            else:
                out, err = pr.communicate()
                logs[i] = (out + err)[-3000:]
                if pr.returncode == 0:
                    results[i] = parse_results(out)
        running = still
        if running:
            time.sleep(0.05)
    return results, logs


def parse_results(out):
    """parse every `= [...] : list nat` block printed by Eval vm_compute"""
    res = []
    for m in re.finditer(r"=\s*(\[[^\]]*\]|nil)\s*:\s*list\s+nat", out, flags=re.S):
        body = m.group(1)
        if body == "nil":
            res.append([])
            continue
        body = body.strip()[1:-1].strip()
        if not body:
            res.append([])
        else:
            res.append([int(x.replace("%nat", "").strip()) for x in body.split(";")])
    return res


# ---------------------------------------------------------------- known findings
def load_known():
    p = os.path.join(VERIF, "known_findings.json")
    if not os.path.exists(p):
        return []
    return json.load(open(p)).get("findings", [])


def match_known(prop, signature):
    """signature: short string such as 'TopoART.partial_fit/no-prune'.  A
    finding matches when its property and signature are equal and it is not
    marked fixed."""
    for f in load_known():
        if f.get("property") == prop and f.get("signature") == signature and f.get("status") != "fixed":
            return f
    return None


# ---------------------------------------------------------------- verdict / evidence
class Verdict:
    def __init__(self, prop, tier, seed):
        self.prop = prop
        self.tier = tier
        self.seed = seed
        self.t0 = time.time()
        self.violations = []      # (replay dict, no_input_found bool)
        self.known_hits = {}      # signature -> text
        self.notes = []
        self.cov = {}
        self.assumptions = []
        # replays of earlier runs of this property are stale
        rd = os.path.join(VERIF, "replays")
        if os.path.isdir(rd):
            for f in os.listdir(rd):
                if f.startswith(prop + "-") and f.endswith(".json"):
                    os.remove(os.path.join(rd, f))

    def violation(self, replay, no_input=False):
        self.violations.append((replay, no_input))

    def known(self, signature, text):
        self.known_hits[signature] = text

    def finish(self, level="proof"):
        os.makedirs(os.path.join(VERIF, "evidence"), exist_ok=True)
        os.makedirs(os.path.join(VERIF, "replays"), exist_ok=True)
        rc = 0
        for sig, text in sorted(self.known_hits.items()):
            print(f"KNOWN-FINDING: property={self.prop} {text}")
        # one VIOLATION line per distinct replay (at most 5 printed)
        seen = set()
        for replay, no_input in self.violations:
            blob = json.dumps(replay, sort_keys=True, default=str)
            h = hashlib.sha256(blob.encode()).hexdigest()[:12]
            if h in seen:
                continue
            seen.add(h)
            if len(seen) > 5:
                continue
            path = os.path.join(VERIF, "replays", f"{self.prop}-{h}.json")
            with open(path, "w") as fh:
                json.dump(replay, fh, indent=1, sort_keys=True, default=str)
            tail = " no-failing-input-found" if no_input else ""
            print(f"VIOLATION property={self.prop} replay={path}{tail}")
            rc = 1
        ev = {
            "property_id": self.prop,
            "tier": self.tier,
            "seed": self.seed,
            "level": level,
            "coverage": self.cov,
            "assumptions": self.assumptions,
            "wall_s": round(time.time() - self.t0, 2),
            "violations": len(seen),
            "known_findings_hit": sorted(self.known_hits),
            "notes": self.notes,
        }
        with open(os.path.join(VERIF, "evidence", f"{self.prop}.json"), "w") as fh:
            json.dump(ev, fh, indent=1, default=str)
        return rc


def proof_gate(v, prop_file, extra_trusted=None):
    """build the development, check forbidden constructs and the obligations of
    props/<prop_file>.  Fills coverage keys required for level=proof.  Returns
    True when every obligation is discharged with allowed axioms only."""
    ok_build, log = build_coq()
    bad = scan_forbidden()
    ob = check_obligations(prop_file)
    trusted = [
        "Coq 8.16.1 kernel + vm_compute (no native_compute)",
        "axioms (Print Assumptions): " + (", ".join(ob["axioms"]) if ob["axioms"] else "none - closed under the global context"),
        "hand-written Gallina model tied to /repo by the correspondence check (harness/*.py, corr/*.v)",
        "Python fractions (float -> exact rational), numpy/sklearn as executed",
    ] + (extra_trusted or [])
    v.cov.update({
        "obligations": ob["obligations"],
        "discharged": ob["discharged"] if (ok_build and not bad and ob["ok"]) else 0,
        "checker_cmd": f"cd /verif/coq && make -j16 && coqc -Q theories ART -Q props ARTprops props/{prop_file}",
        "trusted_base": trusted,
        "theorems": ob["theorems"],
        "axioms": ob["axioms"],
    })
    if not ok_build:
        v.notes.append("coq build failed: " + log[-1500:])
    if bad:
        v.notes.append("forbidden constructs: " + "; ".join(bad[:10]))
    if not ob["ok"]:
        v.notes.append("obligations not discharged: " + ob["log"][-1500:] + " bad axioms: " + ",".join(ob["bad_axioms"]))
    return ok_build and not bad and ob["ok"], ob


def case_hash(obj):
    return hashlib.sha256(json.dumps(obj, sort_keys=True, default=str).encode()).hexdigest()[:16]


# ---------------------------------------------------------------- time limit for implementation calls
import contextlib
import signal


@contextlib.contextmanager
def time_limit(seconds):
    """raise TimeoutError if the body (a call into the implementation) does not return in time"""
    def handler(signum, frame):
        raise TimeoutError(f"no result within {seconds}s")
    old = signal.signal(signal.SIGALRM, handler)
    signal.alarm(seconds)
    try:
        yield
    finally:
        signal.alarm(0)
        signal.signal(signal.SIGALRM, old)

"""C17 - BARTMAP biclusters form a checkerboard partition of the data matrix.
Proof: props/C17.v (construction of rows_/columns_ from the labels: shapes,
every cell in exactly one bicluster, membership; axiom-free).
Correspondence: rows_/columns_ of the real BARTMAP.fit vs the Gallina
construction from the implementation's own labels.  Failing-input search on
the implementation: fit on square and non-square matrices (all eta), shapes,
partition, membership, column clustering = column module alone on X^T."""
import contextlib
import io
import sys

import numpy as np

import common as C
import flow
from common import natlist, boollist, coq_list


def make(rng, eta, slow=False):
    import artlib
    ma = artlib.FuzzyART(rho=rng.choice([0.0, 0.3, 0.6]), alpha=1e-3, beta=1.0)
    if rng.random() < 0.2:          # a row module that prunes and renumbers its categories during fit
        import contextlib, io
        with contextlib.redirect_stdout(io.StringIO()):
            ma = artlib.TopoART(artlib.FuzzyART(rho=rng.choice([0.3, 0.6, 0.8]), alpha=1e-3, beta=1.0), beta_lower=0.5,
                                tau=rng.choice([2, 3, 4, 6]), phi=rng.choice([1, 2]))
    elif rng.random() < 0.2:        # a row module whose clusters are groups of categories (n_clusters < number of weights)
        r = rng.choice([0.6, 0.8, 0.9])
        ma = artlib.DualVigilanceART(artlib.FuzzyART(rho=r, alpha=1e-3, beta=1.0), rho_lower_bound=r * rng.choice([0.25, 0.5, 0.75]))
    kind = "art2a-slow" if slow else rng.choice(["fuzzy", "fuzzy", "fuzzy-slow", "art2a-slow", "dualvig"])
    if kind == "fuzzy":
        p = dict(rho=rng.choice([0.0, 0.3, 0.6, 0.9]), alpha=1e-3, beta=1.0)
        mk = lambda: artlib.FuzzyART(**p)
    elif kind == "fuzzy-slow":
        p = dict(rho=rng.choice([0.6, 0.9]), alpha=1e-3, beta=rng.choice([0.2, 0.5]))
        mk = lambda: artlib.FuzzyART(**p)
    elif kind == "dualvig":
        r = rng.choice([0.6, 0.8, 0.9]); lb = r * rng.choice([0.25, 0.5, 0.75])
        mk = lambda: artlib.DualVigilanceART(artlib.FuzzyART(rho=r, alpha=1e-3, beta=1.0), rho_lower_bound=lb)
    else:       # slow learning: with several epochs a column category can lose all its members
        p = dict(rho=rng.choice([0.8, 0.9, 0.95, 0.99]), alpha=1e-7, beta=0.2)
        mk = lambda: artlib.ART2A(**p)
    est = artlib.BARTMAP(ma, mk(), eta=float(eta))
    est._verif_mk_b = mk
    return est


def run(rng):
    proto = rng.random() < 0.25
    if proto:
        # columns are noisy copies of a few prototype columns, slow column module, several epochs:
        # the setting in which a column category created in epoch one can end up empty
        n = m = rng.randrange(8, 13)
        npro = rng.choice([2, 3, 4])
        P = np.array([[rng.random() for _ in range(npro)] for _ in range(n)])
        asg = [rng.randrange(npro) for _ in range(m)]
        X = np.clip(P[:, asg] + rng.choice([0.2, 0.3]) * np.array([[rng.gauss(0, 1) for _ in range(m)] for _ in range(n)]), 0, 1)
    else:
        n = rng.randrange(2, 8)
        m = n if rng.random() < 0.6 else rng.randrange(2, 8)
        X = np.array([[rng.random() for _ in range(m)] for _ in range(n)])
        if rng.random() < 0.3:
            X[:, rng.randrange(m)] = X[:, 0] * 2 + 1        # correlated columns
    eta = -1.0 if proto else rng.choice([-1.0, -1.0, 0.0, 0.5, 0.9])
    est = make(rng, eta, slow=proto)
    epochs = rng.choice([2, 3]) if proto else rng.choice([1, 1, 2, 3])
    if not proto and n != m and rng.random() < 0.5:
        # non-square matrices the library can fit at all: a row module at rho = 1 gives every (distinct) row its own
        # category, so the row veto (recorded finding: IndexError on non-square data) is never consulted
        import artlib
        mk0 = est._verif_mk_b
        est = artlib.BARTMAP(artlib.FuzzyART(rho=1.0, alpha=1e-3, beta=1.0), mk0(), eta=float(eta))
        est._verif_mk_b = mk0
    if not proto and rng.random() < 0.15:
        # a pruning row module on rows with structure: a few rows unlike everything (their categories never reach phi and
        # are pruned - possibly all categories of a round), then groups of near copies of one profile (categories that
        # become permanent, so later rounds remove nothing): rows orphaned by one round are re-labelled by the next
        import artlib
        n = m = rng.randrange(5, 10)
        lone = rng.choice([1, 2, 3])
        prof = [np.array([rng.random() for _ in range(m)]) for _ in range(rng.choice([1, 2]))]
        rows = [np.array([rng.choice([0.0, 0.05, 0.9, 1.0]) for _ in range(m)]) for _ in range(lone)]
        rows += [np.clip(prof[rng.randrange(len(prof))] + rng.choice([-0.02, -0.01, 0.01, 0.02]), 0, 1) for _ in range(n - lone)]
        X = np.array(rows)
        X[rng.randrange(n), rng.randrange(m)] += 0.03
        # no constant row or column (normalisation divides by the range; constant features are outside the quantifier)
        ramp = np.array([[((3 * i + 5 * j) % 7) / 7 for j in range(m)] for i in range(n)])
        X = np.clip(X + np.where(X < 0.5, 0.003, -0.003) * ramp, 0, 1)
        while np.ptp(X, axis=0).min() < 1e-6 or np.ptp(X, axis=1).min() < 1e-6:
            X[rng.randrange(n), rng.randrange(m)] = rng.random()
        eta = -1.0
        with contextlib.redirect_stdout(io.StringIO()):
            ma = artlib.TopoART(artlib.FuzzyART(rho=rng.choice([0.7, 0.8, 0.9]), alpha=1e-2, beta=1.0), beta_lower=0.5, tau=rng.choice([2, 3]), phi=2)
        mk = lambda: artlib.FuzzyART(rho=0.3, alpha=1e-2, beta=1.0)
        est = artlib.BARTMAP(ma, mk(), eta=eta)
        est._verif_mk_b = mk
        epochs = 1
    rep = {"X": X.tolist(), "eta": eta, "shape": [n, m], "max_iter": epochs,
           "module_b": type(est.module_b).__name__ + repr({k: v for k, v in est.module_b.params.items()}),
           "module_a": type(est.module_a).__name__ + repr({k: (v if not hasattr(v, "get_params") else type(v).__name__) for k, v in est.module_a.params.items()})}
    fails = []
    # "after BARTMAP.fit" includes a fit of an instance that was fitted before: same-shape matrix first
    # (a column permutation of X or fresh values), then X; everything below is about the last fit
    if rng.random() < 0.4:
        # the earlier matrix spans [-1, 4] in every row and column, so that X (in [0, 3]) is legal for the
        # data bounds the modules remember from their first prepare_data
        X0 = 5.0 * (X[:, rng.sample(range(m), m)] if rng.random() < 0.6 else np.array([[rng.random() for _ in range(m)] for _ in range(n)])) - 1.0
        X0 = np.clip(X0, -1.0, 4.0)
        for i in range(max(n, m)):
            X0[i % n, i % m] = -1.0
            X0[i % n, (i + 1) % m] = 4.0
        legal = all(X0[i].min() == -1.0 and X0[i].max() == 4.0 for i in range(n)) and all(X0[:, j].min() == -1.0 and X0[:, j].max() == 4.0 for j in range(m))
        if legal:
            try:
                with np.errstate(all="ignore"), contextlib.redirect_stdout(io.StringIO()), C.time_limit(20):
                    est.fit(X0)
                rep["fitted_before_on"] = X0.tolist()
            except Exception:
                est = make(rng, eta, slow=proto)
    try:
        with np.errstate(all="ignore"), contextlib.redirect_stdout(io.StringIO()), C.time_limit(20):
            est.fit(X, max_iter=epochs)
    except Exception as e:
        if n != m and isinstance(e, IndexError):
            sig = "BARTMAP.fit/non-square-IndexError"
        elif isinstance(e, ValueError) and "length at least 2" in str(e):
            sig = "BARTMAP.fit/singleton-column-cluster-ValueError"
        elif (isinstance(e, ValueError) and "X_a has length 0" in str(e) and hasattr(est, "column_labels_")
              and any(c not in set(int(v) for v in est.column_labels_) for c in range(int(est.module_b.n_clusters)))):
            sig = "BARTMAP.fit/empty-column-cluster-ValueError"        # only when a column cluster really is empty
        elif (isinstance(e, ValueError) and "at least one array" in str(e) and type(est.module_a).__name__ == "TopoART"
              and len(est.module_a.W) == 0):
            sig = "BARTMAP.fit/topo-row-module-all-pruned-ValueError"
        else:
            sig = "BARTMAP.fit/raises"
        fails.append({"signature": sig, "text": f"fit on a {n}x{m} matrix raises {type(e).__name__}: {str(e)[:80]}", "replay": rep})
        return None, fails, rep
    ra, cb = [int(v) for v in est.row_labels_], [int(v) for v in est.column_labels_]
    nA, nB = est.n_row_clusters, est.n_column_clusters
    R, Cc = np.asarray(est.rows_), np.asarray(est.columns_)

    def f(sig, what):
        fails.append({"signature": f"BARTMAP/{sig}", "text": what, "replay": rep})
    if R.shape != (nA * nB, n) or Cc.shape != (nA * nB, m):
        f("shapes", f"rows_ {R.shape}, columns_ {Cc.shape} for {nA}x{nB} biclusters of a {n}x{m} matrix")
    else:
        cover = np.zeros((n, m), dtype=int)
        for k in range(nA * nB):
            cover += np.outer(R[k], Cc[k]).astype(int)
        if not np.all(cover == 1):
            noise = [i for i, l in enumerate(ra) if l == -1]
            # the recorded finding is exactly this: the LAST pruning round removed every category, so every row presented up
            # to it is noise and the rows presented since (sample_counter_ mod tau of them, the last ones) have a category.
            # Noise rows in any other pattern (e.g. left over from an earlier round although later rounds ran) are not it.
            since = int(est.module_a.sample_counter_) % int(est.module_a.tau) if type(est.module_a).__name__ == "TopoART" else 0
            if (type(est.module_a).__name__ == "TopoART" and noise and noise == list(range(0, n - since))
                    and np.all(np.delete(cover, noise, axis=0) == 1) and np.all(cover[noise] == 0)):
                f("topo-row-module-noise-rows", f"rows {noise} were labelled -1 (noise) by the pruning TopoART row module and belong to no bicluster")
            else:
                f("partition", "some cell belongs to no bicluster or to several")
        for k in range(nA * nB):
            if list(R[k]) != [l == k // nB for l in ra] or list(Cc[k]) != [l == k % nB for l in cb]:
                f("membership", f"bicluster {k} disagrees with row_labels_/column_labels_")
                break
    # the column clustering is what the column module alone produces on the transposed matrix
    import artlib
    alone = est._verif_mk_b()
    if type(alone).__name__ == "DualVigilanceART":
        alone.base_module.d_min_, alone.base_module.d_max_ = est.module_b.base_module.d_min_, est.module_b.base_module.d_max_
    else:
        alone.d_min_, alone.d_max_ = est.module_b.d_min_, est.module_b.d_max_      # same remembered data bounds
    Xb = alone.prepare_data(X.T)
    alone.fit(Xb, max_iter=epochs)
    if list(alone.labels_) != cb:
        f("columns-eq-module-b", "column_labels_ differ from the column module run alone on X^T")
    if min(ra + cb + [0]) < 0:
        return None, fails, rep          # noise labels (-1): outside the model's label type; judged by the oracle above
    case = (f"(mkBCase {natlist(ra)} {natlist(cb)} {nA}%nat {nB}%nat {coq_list([boollist(r) for r in R.tolist()])} "
            f"{coq_list([boollist(r) for r in Cc.tolist()])})")
    return case, fails, rep


def fit_case(rng):
    """BARTMAP.fit as a whole against the model (Bartmap_fit.v): square grid matrices in which every row and every
    column contains a 0 and a 1 (so that both modules' normalisation is the identity and the whole run is exact in
    binary64), Fuzzy ART row and column modules with dyadic parameters, one epoch, fresh instance.  The row veto's
    verdict for every row is taken from the implementation's own match_criterion_bin after the fit (the column
    clustering is final by then) and handed to the model as its oracle."""
    import artlib
    import basefam as B
    from fractions import Fraction
    from common import q, qlist, qmat
    n = rng.randrange(3, 8)
    X = np.array([[rng.randrange(0, 9) / 8 for _ in range(n)] for _ in range(n)])
    p0 = rng.sample(range(n), n)
    sh = rng.randrange(1, n)
    for i in range(n):
        X[i, p0[i]] = 0.0
        X[i, p0[(i + sh) % n]] = 1.0
    if not (all(r.min() == 0.0 and r.max() == 1.0 for r in X) and all(c.min() == 0.0 and c.max() == 1.0 for c in X.T)):
        return None, [], None
    if rng.random() < 0.3:
        j = rng.randrange(n)
        X[:, j] = X[:, (j + 1) % n]            # duplicated columns: column clusters with several members
        if not (all(r.min() == 0.0 and r.max() == 1.0 for r in X) and all(c.min() == 0.0 and c.max() == 1.0 for c in X.T)):
            return None, [], None
    pa = dict(rho=rng.choice([0.0, 0.25, 0.5, 0.75]), alpha=1 / 1024, beta=rng.choice([1.0, 0.5]))
    pb = dict(rho=rng.choice([0.0, 0.25, 0.5, 0.625]), alpha=1 / 1024, beta=rng.choice([1.0, 0.5]))
    eta = rng.choice([-1.0, 0.0, 0.25, 0.5, 0.9])
    est = artlib.BARTMAP(artlib.FuzzyART(**pa), artlib.FuzzyART(**pb), eta=float(eta))
    rep = {"X": X.tolist(), "eta": eta, "shape": [n, n], "module_a": pa, "module_b": pb, "max_iter": 1, "whole_fit_against_model": True}
    ok = True
    try:
        with np.errstate(all="ignore"), contextlib.redirect_stdout(io.StringIO()), C.time_limit(20):
            est.fit(X)
    except Exception as e:
        ok = False
        if not (isinstance(e, ValueError) and "length at least 2" in str(e)):
            return None, [{"signature": "BARTMAP.fit/raises", "text": f"fit on a {n}x{n} matrix raises {type(e).__name__}: {str(e)[:80]}", "replay": rep}], rep
        return None, [{"signature": "BARTMAP.fit/singleton-column-cluster-ValueError", "text": f"fit on a {n}x{n} matrix raises {type(e).__name__}: {str(e)[:80]}", "replay": rep}], rep
    vk = []
    for k in range(n):
        try:
            with np.errstate(all="ignore"):
                vk.append(bool(est.match_reset_func(None, None, 0, est.module_a.params, {"k": k}, None)))
        except Exception:
            vk.append(True)
    Xa = [[Fraction(float(x)) for x in r] for r in est.module_a.prepare_data(X)]
    Xb = [[Fraction(float(x)) for x in r] for r in est.module_b.prepare_data(X.T)]
    sa, sb = B.snapshot(est.module_a), B.snapshot(est.module_b)
    snap = lambda s_: f"(mkSnap {qmat(s_['W'])} {natlist(s_['labels'])} {natlist(s_['wsc'])} {s_['sc']}%nat {qlist(s_['rho'])})"
    ks = lambda p_: f"(KFuzzy {q(p_['alpha'])} {q(p_['beta'])})"
    R, Cc = np.asarray(est.rows_), np.asarray(est.columns_)
    case = (f"(mkBF {ks(pa)} {qlist([pa['rho']])} {ks(pb)} {qlist([pb['rho']])} {qmat(Xa)} {qmat(Xb)} {boollist(vk)} true "
            f"{snap(sa)} {snap(sb)} {coq_list([boollist(r) for r in R.tolist()])} {coq_list([boollist(r) for r in Cc.tolist()])})")
    rep["row_veto"] = vk
    rep["row_clusters"], rep["column_clusters"] = int(est.n_row_clusters), int(est.n_column_clusters)
    return case, [], rep


def main():
    tier = sys.argv[1] if len(sys.argv) > 1 else "quick"
    seed = C.seed_from_env()
    v = C.Verdict("C17", tier, seed)
    gate_ok, ob = C.proof_gate(v, "C17.v")
    rng = C.make_rng(seed, "C17")
    n = 300 if tier == "quick" else 3000
    strs, summ, fails = [], [], []
    shapes = {"square": 0, "non_square": 0}
    for _ in range(n):
        case, f, rep = run(rng)
        shapes["square" if rep["shape"][0] == rep["shape"][1] else "non_square"] += 1
        fails.extend(f)
        if case:
            strs.append(case); summ.append(rep)
    codes, bad = flow.coq_corr("C17", "RunBart", strs, shard=150, check_fn="bartcheck")
    # whole fit calls against the model
    rng_f = C.make_rng(seed, "C17-fit")
    fstrs, fsumm = [], []
    for _ in range(400 if tier == "quick" else 4000):
        case, f, rep = fit_case(rng_f)
        fails.extend(f)
        if case:
            fstrs.append(case); fsumm.append(rep)
    fcodes, fbad = flow.coq_corr("C17f", "RunBartFit", fstrs, shard=50, check_fn="bfcheck", extra_imports="From ARTcorr Require Import RunBase.\n")
    for b in bad + fbad:
        v.notes.append("coq shard failed: " + b[-600:])
    flow.decide(v, "C17", gate_ok, ob, list(zip(codes, summ)) + list(zip(fcodes, fsumm)), fails, None)
    v.cov.update({
        "evaluations": n, "distinct_nontrivial": len(set(C.case_hash(s) for s in summ)),
        "rule": "random 2-7 x 2-7 matrices (60% square), 40% on an instance already fitted on another same-shape matrix, correlated columns in 30%, eta in {-1, 0, 0.5, 0.9}, Fuzzy ART row/column modules at several vigilances; "
                "non-trivial = distinct matrix on which fit completed",
        "traces_validated_against_impl": sum(1 for x in codes + fcodes if x == 0), "whole_fit_calls_against_model": len(fstrs),
        "whole_fit_vetoed_rows": sum(1 for r in fsumm for b in r["row_veto"] if not b), "whole_fit_multi_row_clusters": sum(1 for r in fsumm if r["row_clusters"] >= 2), "distribution": shapes, "samples": summ[:1]})
    v.assumptions = ["the row veto (scipy's Pearson correlation against eta) is an oracle of the model: a function of the row number, taken from the implementation "
                     "in the correspondence and universally quantified in the theorems; it fails on non-square matrices (known finding)",
                     "whole-fit theorems and correspondence: one epoch, modules with the generic search (the exact regime uses Fuzzy ART on square grid matrices)"]
    v.cov["added_after_wave_7"] = '15% structured matrices with a pruning TopoART row module (lone rows, then groups of near copies; tau in {2,3}, phi = 2); the recorded noise-row finding is matched by its exact pattern (rows 0 .. n-r-1, r = sample_counter mod tau)'
    sys.exit(v.finish())


if __name__ == "__main__":
    main()

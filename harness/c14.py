"""C14 - TopoART.  Proof: props/C14.v.  Correspondence: TopoART.fit (several
pruning rounds, incl. rounds that remove every category), re-fit and predict
vs the Gallina model: weights, counters, labels (-1), adjacency, permanence
flags, reset-function log.  Failing-input search on the implementation:
alignment after every sample, two-winner step and edge increment re-derived
from the implementation's own activation / match values, pruning spec."""
import contextlib
import io
import sys

import numpy as np

import common as C
import basefam as B
import topofam as T
import flow


def aligned(est):
    n = len(est.W)
    A = np.asarray(est.adjacency)
    pm = np.asarray(est._permanent_mask)
    if len(est.weight_sample_counter_) != n:
        return f"{len(est.weight_sample_counter_)} counters for {n} categories"
    if pm.shape != (n,):
        return f"permanence mask of shape {pm.shape} for {n} categories"
    if A.shape != (n, n):
        return f"adjacency of shape {A.shape} for {n} categories"
    if n and np.any(np.diag(A) != 0):
        return "non-zero diagonal in the adjacency matrix"
    return None


def oracle(c):
    """drive fit sample by sample through the hooks (pre_step_fit / step_fit / post_step_fit), as fit does"""
    fails = []
    est = T.make_topo(c)
    o = c["ops"][0]
    vs = o.get("veto")
    X = np.array(o["X"], dtype=float)
    mode, eps = o["mode"], float(o["eps"])
    strict = mode in ("MT0", "MT~")
    keys, _ = B.row_keys(X)
    veto = B.Veto(est, vs["tbl"], vs["a"], vs["b"], keys) if vs else None

    def rep(sig, what, i=None):
        return {"signature": f"TopoART/{sig}", "text": what, "replay": dict(T.summary_t(c), failing_sample=i)}
    with contextlib.redirect_stdout(io.StringIO()):
        try:
            est.validate_data(X); est.check_dimensions(X)
            est.is_fitted_ = True
            est.W = []
            est.labels_ = np.zeros((X.shape[0],), dtype=int)
            est.sample_counter_ = 0
            est.weight_sample_counter_ = []
        except Exception:
            return fails
        for i, x in enumerate(X):
            n0 = len(est.W)
            exp = None
            if n0:
                Tv, Mv = [], []
                for w in est.W:
                    t, cache = est.category_choice(x, w, params=est.base_module.params)
                    m, _ = est.match_criterion(x, w, params=est.base_module.params, cache=cache)
                    Tv.append(float(t)); Mv.append(float(m))
                rho = float(c["k"]["rho"])          # the configured vigilance (C07: restored after every sample)
                order = sorted(range(n0), key=lambda k: (-Tv[k], k))
                key = keys[x.tobytes()]
                passing = []
                for k in order:       # the reset function and the mode's match tracking, from the configured vigilance
                    okv = bool(vs["tbl"][(vs["a"] * key + vs["b"] * k) % len(vs["tbl"])]) if vs else True
                    passv = (Mv[k] > rho) if strict else (Mv[k] >= rho)
                    if okv and passv:
                        passing.append(k)
                        if len(passing) == 2:
                            break
                    elif passv and not okv:      # only the veto of a vigilance-passing category moves the vigilance
                        if mode == "MT+":
                            rho = Mv[k] + eps
                        elif mode == "MT-":
                            rho = Mv[k] - eps
                        elif mode == "MT0":
                            rho = Mv[k]
                        elif mode == "MT1":
                            break
                exp = (passing[0] if passing else None, passing[1] if len(passing) > 1 else None)
                A0 = np.array(est.adjacency).copy()
                cnt0 = list(est.weight_sample_counter_)
            try:
                est.pre_step_fit(X)
                cwin = est.step_fit(x, match_reset_func=veto, match_tracking=mode, epsilon=eps)
            except Exception:
                return fails
            if n0:
                b, s2 = exp
                if b is None and not (cwin == n0 and len(est.W) == n0 + 1):
                    fails.append(rep("step", f"sample {i}: no category passes but no new category was created", i)); return fails
                if b is not None:
                    if cwin != b or len(est.W) != n0:
                        fails.append(rep("step", f"sample {i}: best passing category is {b}, step_fit returned {cwin}", i)); return fails
                    A1 = np.array(est.adjacency)
                    D = A1 - A0
                    want = np.zeros_like(A0)
                    if s2 is not None:
                        want[b, s2] = 1
                    if not np.array_equal(D, want):
                        fails.append(rep("edge", f"sample {i}: edge counts changed by {D.tolist()}, expected +1 at ({b},{s2}) only", i)); return fails
                    cnt = list(est.weight_sample_counter_)
                    wantc = list(cnt0)
                    wantc[b] += 1
                    if s2 is not None:
                        wantc[s2] += 1
                    if cnt != wantc:
                        fails.append(rep("counters", f"sample {i}: counters {cnt}, expected {wantc}", i)); return fails
            est.labels_[i] = cwin
            why = aligned(est)
            if why:
                fails.append(rep("aligned", f"after sample {i}: {why}", i)); return fails
            # pruning round?
            due = est.sample_counter_ > 0 and est.sample_counter_ % est.tau == 0
            if due:
                cntb = list(est.weight_sample_counter_)
                pmb = [bool(v) for v in np.asarray(est._permanent_mask)]
                Wb = [np.array(w).copy() for w in est.W]
                Ab = np.array(est.adjacency).copy()
                labb = est.labels_.copy()
            try:
                est.post_step_fit(X)
            except Exception as e:
                fails.append(rep("prune-raises", f"pruning after sample {i} raises {type(e).__name__}: {str(e)[:80]}", i)); return fails
            if due:
                keep = [k for k in range(len(cntb)) if pmb[k] or cntb[k] >= est.phi]
                if len(est.W) != len(keep) or not all(np.array_equal(est.W[j], Wb[k]) for j, k in enumerate(keep)):
                    fails.append(rep("prune-survivors", f"round after sample {i}: survivors are not exactly the categories with >= phi samples or already permanent", i)); return fails
                if list(est.weight_sample_counter_) != [cntb[k] for k in keep] or not all(bool(v) for v in np.asarray(est._permanent_mask)):
                    fails.append(rep("prune-reindex", "counters / permanence flags not re-indexed consistently", i)); return fails
                if len(keep) and not np.array_equal(np.asarray(est.adjacency), Ab[np.ix_(keep, keep)]):
                    fails.append(rep("prune-adjacency", "adjacency sub-matrix not re-indexed consistently", i)); return fails
                for j in range(len(X)):
                    old = int(labb[j])
                    new = int(est.labels_[j])
                    if old in keep:
                        if new != keep.index(old):
                            fails.append(rep("prune-labels", f"label of row {j} not re-indexed consistently", i)); return fails
                    elif len(keep) == 0:
                        if new != -1:
                            fails.append(rep("prune-labels", "orphan not marked -1 although nothing survived", i)); return fails
                    elif not (0 <= new < len(keep)):
                        fails.append(rep("prune-labels", "orphan not re-predicted into a surviving category", i)); return fails
                    elif j <= i and new != int(est.step_pred(X[j])):
                        fails.append(rep("prune-labels", f"round after sample {i}: orphaned row {j} (label {old}) got label {new}, "
                                         f"its prediction under the pruned model is {int(est.step_pred(X[j]))}", i)); return fails
            why = aligned(est)
            if why:
                fails.append(rep("aligned", f"after the pruning round following sample {i}: {why}", i)); return fails
    return fails


def refit_oracle(c):
    """whole fit calls on a USED instance: every index-aligned structure is rebuilt (adjacency square with one row per
    category, zero diagonal) and equals what a fresh instance produces on the same call"""
    fits = [o for o in c["ops"] if o["op"] == "fit"]
    if len(fits) < 2:
        return []
    fails = []

    def rep(sig, what):
        return {"signature": f"TopoART/{sig}", "text": what, "replay": T.summary_t(c)}

    def run(est, o):
        X = np.array(o["X"], dtype=float)
        keys, _ = B.row_keys(X)
        vs = o.get("veto")
        veto = B.Veto(est, vs["tbl"], vs["a"], vs["b"], keys) if vs else None
        with contextlib.redirect_stdout(io.StringIO()), np.errstate(all="ignore"):
            est.fit(X, match_reset_func=veto, match_tracking=o["mode"], epsilon=float(o["eps"]))
    used = T.make_topo(c)
    try:
        for k, o in enumerate(fits):
            run(used, o)
            why = aligned(used) if len(used.W) else None
            if why:
                return [rep("refit-aligned", f"after fit number {k + 1} on the same instance: {why}")]
            fresh = T.make_topo(c)
            run(fresh, o)
            same = (len(used.W) == len(fresh.W) and all(np.array_equal(a, b) for a, b in zip(used.W, fresh.W))
                    and list(used.labels_) == list(fresh.labels_)
                    and (not len(used.W) or np.array_equal(np.asarray(used.adjacency), np.asarray(fresh.adjacency)))
                    and list(used.weight_sample_counter_) == list(fresh.weight_sample_counter_)
                    and (not len(used.W) or list(np.asarray(used._permanent_mask)) == list(np.asarray(fresh._permanent_mask))))
            if not same:
                return [rep("refit-vs-fresh", f"fit number {k + 1} on a used instance differs from the same fit on a fresh instance "
                            f"(adjacency {np.asarray(used.adjacency).tolist()} vs {np.asarray(fresh.adjacency).tolist()})")]
    except Exception:
        return fails
    return fails


def prune_round_oracle(rng):
    """every pruning round of whole fit calls - also of later epochs (max_iter > 1), where a surviving category may own
    no sample at the moment - against the statement: exactly the categories with fewer than phi samples that were
    never made permanent go, survivors become permanent, and weights, counters, flags, the adjacency sub-matrix and
    every sample label are re-indexed by the rank of the category among ALL survivors; orphaned samples get the
    re-prediction or -1"""
    import artlib
    import kernfam
    kind = rng.choice(["ART2A", "ART2A", "Fuzzy", "Hyper"])
    d = rng.choice([2, 3])
    p = kernfam.gen_params(rng, kind, d)
    if kind in ("Fuzzy", "Hyper") and p["alpha"] == 0.0:
        p["alpha"] = 1e-3
    if kind == "ART2A":
        p["rho"], p["beta"] = rng.choice([0.6, 0.9, 0.95]), rng.choice([0.5, 0.2, 1.0])
    else:
        p["beta"] = rng.choice([1.0, 0.5])
    tau = rng.choice([2, 3, 5])
    phi = rng.choice([q_ for q_ in [1, 2, 3] if q_ <= tau])
    X = np.asarray(kernfam.gen_data(rng, kind, rng.randrange(6, 16), d), dtype=float)
    epochs = rng.choice([1, 2, 3])
    rep = {"base": kind, "params": {k_: (np.asarray(v_).tolist() if isinstance(v_, np.ndarray) else v_) for k_, v_ in p.items()}, "tau": tau, "phi": phi,
           "X": X.tolist(), "max_iter": epochs, "how": "fit(X, max_iter); every call of prune compared with the statement"}
    with contextlib.redirect_stdout(io.StringIO()):
        est = artlib.TopoART(kernfam.make(kind, p), beta_lower=float(p["beta"]) * rng.choice([0.5, 1.0]), tau=tau, phi=phi)
    found = []
    orig = est.prune

    def prune(Xp):
        Wb = [np.array(w, dtype=float).copy() for w in est.W]
        cb = [int(c) for c in est.weight_sample_counter_]
        pb = [bool(b) for b in np.asarray(est._permanent_mask).reshape(-1)] if len(Wb) else []
        Ab = np.array(est.adjacency).copy()
        lb = [int(v) for v in est.labels_]
        orig(Xp)
        if found:
            return
        keep = [i for i in range(len(Wb)) if cb[i] >= phi or pb[i]]
        rank = {c: r for r, c in enumerate(keep)}
        Wa = [np.array(w, dtype=float) for w in est.W]
        if len(Wa) != len(keep) or not all(np.array_equal(a, Wb[i]) for a, i in zip(Wa, keep)):
            found.append(f"survivors should be the categories {keep} (counters {cb}, permanent {pb}, phi {phi}); {len(Wa)} weights are left and they are not those")
            return
        if [int(c) for c in est.weight_sample_counter_] != [cb[i] for i in keep]:
            found.append("the counters of the survivors were not carried over in order"); return
        if len(keep) and not all(bool(b) for b in np.asarray(est._permanent_mask).reshape(-1)):
            found.append("a survivor is not permanent after the round"); return
        if len(keep) and not np.array_equal(np.asarray(est.adjacency), Ab[np.ix_(keep, keep)]):
            found.append("the adjacency matrix is not the sub-matrix of the survivors"); return
        la = [int(v) for v in est.labels_]
        for i in range(len(Xp)):
            if lb[i] in rank:
                if la[i] != rank[lb[i]]:
                    found.append(f"sample {i} had category {lb[i]} (kept, rank {rank[lb[i]]} among the survivors {keep}) and is now labelled {la[i]}"); return
            elif not keep:
                if la[i] != -1:
                    found.append(f"nothing survived but sample {i} is labelled {la[i]}"); return
            elif not (0 <= la[i] < len(keep)):
                found.append(f"orphaned sample {i} is labelled {la[i]} with {len(keep)} survivors"); return
    est.prune = prune
    try:
        with contextlib.redirect_stdout(io.StringIO()), np.errstate(all="ignore"):
            est.fit(X, max_iter=epochs)
    except Exception:
        return None          # totality is C04's business
    if found:
        return {"signature": "TopoART/prune-reindex", "text": found[0], "replay": rep}
    return None


def main():
    tier = sys.argv[1] if len(sys.argv) > 1 else "quick"
    seed = C.seed_from_env()
    v = C.Verdict("C14", tier, seed)
    gate_ok, ob = C.proof_gate(v, "C14.v")
    rng = C.make_rng(seed, "C14")
    n = 350 if tier == "quick" else 3500
    strs, summ, fails, nontriv, hashes = [], [], [], 0, set()
    stats = {"pruning_rounds": 0, "rounds_removing_everything": 0, "cases_with_edges": 0}
    for it in range(n + (40 if tier == "quick" else 400)):
        c = T.gen_tcase(rng) if it < n else T.gen_tcase_empty_then_survive(rng)
        est, obs = T.run_tcase(c)
        strs.append(T.tcase_coq(c, obs))
        s = T.summary_t(c)
        summ.append(s)
        h = C.case_hash(s)
        rounds = len(c["ops"][0]["X"]) // c["tau"]
        stats["pruning_rounds"] += rounds
        if obs[0]["ok"]:
            stats["rounds_removing_everything"] += 1 if -1 in obs[0]["labels"] else 0
            stats["cases_with_edges"] += 1 if any(any(r) for r in obs[0]["adj"]) else 0
        if rounds >= 2 and h not in hashes:
            nontriv += 1
        hashes.add(h)
        fails.extend(oracle(c)); fails.extend(refit_oracle(c))
    rng_p = C.make_rng(seed, "C14-prune")
    n_pr = 200 if tier == "quick" else 2000
    for _ in range(n_pr):
        r = prune_round_oracle(rng_p)
        if r:
            fails.append(r)
    # several epochs against the model (Topo_epochs.v)
    rng_e = C.make_rng(seed, "C14-epochs")
    estrs, esumm = [], []
    for _ in range(150 if tier == "quick" else 1500):
        ce = T.gen_tcase_epochs(rng_e)
        _, re_ = T.run_tcase_epochs(ce)
        estrs.append(T.tncase_coq(ce, re_))
        esumm.append(dict(T.summary_t(ce), max_iter=int(ce["ops"][0]["iters"])))
    ecodes, ebad = flow.coq_corr("C14e", "RunTopoN", estrs, shard=50, check_fn="tncheck", extra_imports="From ARTcorr Require Import RunBase RunSam RunTopo.\n")
    codes, bad = flow.coq_corr("C14", "RunTopo", strs, shard=70, check_fn="tcheck", extra_imports="From ARTcorr Require Import RunBase RunSam.\n")
    for b in bad + ebad:
        v.notes.append("coq shard failed: " + b[-600:])

    def extended():
        out = []
        r2 = C.make_rng(seed, "C14-ext")
        for _ in range(2000):
            out.extend(oracle(T.gen_tcase(r2)))
            if len(out) >= 3:
                break
        return out
    flow.decide(v, "C14", gate_ok, ob, list(zip(codes, summ)) + list(zip(ecodes, esumm)), fails, extended)
    v.cov.update({
        "evaluations": n + n_pr, "distinct_nontrivial": nontriv, "whole_fits_with_every_pruning_round_judged": n_pr,
        "rule": "TopoART over Fuzzy ART (beta in {1,1/2}, beta_lower <= beta incl. 0), tau in {2,3,4,5,8}, phi <= tau, 2-23 samples from small row pools (several pruning rounds, "
                "rounds removing every category occur), 5 modes, 30% with a table reset function, optional re-fit, then predict; non-trivial = distinct case with >= 2 pruning rounds",
        "traces_validated_against_impl": sum(1 for x in codes + ecodes if x == 0), "several_epoch_fits_against_model": len(estrs),
        "distribution": stats, "samples": summ[:1]})
    v.assumptions = ["training through fit, 1-3 epochs (partial_fit never prunes: known finding recorded under C06)",
                     "orphans are re-predicted with the pruned model, as the code does"]
    sys.exit(v.finish())


if __name__ == "__main__":
    main()

"""C05 - labels, cluster count and per-category counters stay consistent.
Proof: props/C05.v (invariant by induction over fit/partial_fit histories,
axiom-free).  Correspondence: RunBase on histories (W, labels_, counters after
every call).  Failing-input search: the invariant evaluated on the
implementation's snapshots after every call (also for compound estimators)."""
import sys
from collections import Counter

import numpy as np

import common as C
import basefam as B
import histfam as H
import zoo


def book_ok(labels, nW, wsc, sc, presented, check_counters=True, allow_minus1=False):
    """the invariant of props/C05.v evaluated on an implementation snapshot; returns None or a reason"""
    if isinstance(labels, np.ndarray):
        # a label is a category index: W[label], np.bincount(labels_) must work
        if labels.size and not np.issubdtype(labels.dtype, np.integer):
            return f"labels_ has dtype {labels.dtype}: its entries are no category indices"
        labels = [int(v) for v in labels]
    if len(labels) != presented:
        return f"len(labels_)={len(labels)} but {presented} samples presented since the last fit"
    k = 0
    for l in labels:
        if allow_minus1 and l == -1:
            continue
        if l < 0 or l >= nW:
            return f"label {l} does not index an existing category (n={nW})"
    if not allow_minus1:
        for l in labels:
            if l < k:
                continue
            if l == k:
                k += 1
            else:
                return f"categories not numbered in order of creation (label {l} before {k})"
        if k != nW:
            return f"{nW} categories stored but only {k} used (an empty category)"
    if check_counters:
        hist = Counter(labels)
        if list(wsc) != [hist.get(c, 0) for c in range(nW)]:
            return f"weight_sample_counter_ {list(wsc)} != label histogram {[hist.get(c, 0) for c in range(nW)]}"
        if sum(wsc) != sc or sc != presented:
            return f"sample_counter_={sc}, sum(counters)={sum(wsc)}, presented={presented}"
    return None


def oracle(k, ops):
    fails = []
    est = B.make_est(k)
    presented = 0
    for i, o in enumerate(ops):
        X = np.array(o["X"], dtype=float)
        try:
            if o["op"] == "predict":
                est.predict(X)
                continue
            veto = None
            if o.get("veto"):
                keys, _ = B.row_keys(X)
                veto = B.Veto(est, o["veto"]["tbl"], o["veto"]["a"], o["veto"]["b"], keys)
            if o["op"] == "fit":
                est.fit(X, match_reset_func=veto, match_tracking=o["mode"], epsilon=float(o["eps"]))
                presented = len(X)
            else:
                est.partial_fit(X, match_reset_func=veto, match_tracking=o["mode"], epsilon=float(o["eps"]))
                presented += len(X)
        except Exception:
            return fails
        why = book_ok(np.asarray(est.labels_), len(est.W), est.weight_sample_counter_, est.sample_counter_, presented)
        if why is None and est.n_clusters != len(est.W):
            why = "n_clusters != number of stored categories"
        if why:
            fails.append({"signature": f"{type(est).__name__}.{o['op']}/book", "text": why,
                          "replay": dict(B.summary(k, ops), failing_op=i, check="book")})
            return fails
    return fails


def topo_empty_bucket(rng, n):
    """TopoART histories in which a pruning round of fit removes every category (all labels -1), continued with
    partial_fit calls: the label vector keeps one entry per sample presented since the last fit"""
    import contextlib, io
    import artlib
    fails = []
    for _ in range(n):
        m = rng.randrange(2, 7)
        d = rng.choice([1, 2])
        raw = np.array([[(i + 0.5) / m if j == 0 else rng.random() for j in range(d)] for i in range(m)])
        X = np.hstack([raw, 1.0 - raw])
        phi = min(rng.choice([2, 3]), m)
        rep = {"estimator": "TopoART(FuzzyART rho=0.999)", "tau": m, "phi": phi, "X": X.tolist(),
               "how": "fit(X); partial_fit(X[:1]); partial_fit(X[1:3])"}
        try:
            with np.errstate(all="ignore"), contextlib.redirect_stdout(io.StringIO()):
                est = artlib.TopoART(artlib.FuzzyART(rho=0.999, alpha=1e-3, beta=1.0), beta_lower=0.5, tau=m, phi=phi)
                est.fit(X)
                presented = m
                for lo, hi in ((0, 1), (1, 3)):
                    est.partial_fit(X[lo:hi])
                    presented += len(X[lo:hi])
                    why = book_ok(np.asarray(est.labels_), len(est.W), [], est.sample_counter_, presented,
                                  check_counters=False, allow_minus1=True)
                    if why:
                        fails.append({"signature": "TopoART.partial_fit/book", "text": "TopoART after a round that removed every category: " + why,
                                      "replay": rep})
                        break
        except Exception:
            pass            # totality is C04's business
    return fails


def main():
    tier = sys.argv[1] if len(sys.argv) > 1 else "quick"
    seed = C.seed_from_env()
    v = H.run_family("C05", tier, seed, 500, 5000, lambda r: H.gen_history(r, allow_predict=False), oracle,
                     "random histories of 1-8 fit/partial_fit calls (incl. size-1 batches, re-fits) on grid data with duplicates; "
                     "Fuzzy/ART2A kernels, 5 modes, table reset functions; non-trivial = distinct history reaching >= 2 categories",
                     ["exact-rational kernels", "single-epoch calls (max_iter = 1), as the property states"])
    # compound estimators: the invariant on implementation snapshots (no model yet for these)
    zf, zn = zoo.book_oracle_all(C.make_rng(seed, "C05-zoo"), 250 if tier == "quick" else 2500)
    # re-fitting a model that already holds several categories (own PRNG stream)
    rf, rn = zoo.book_oracle_all(C.make_rng(seed, "C05-refit"), 150 if tier == "quick" else 1500, gen=zoo.gen_refit_history)
    zf, zn = zf + rf, zn + rn
    import flow
    for f in zf:
        kf = C.match_known("C05", f["signature"])
        if kf is not None:
            v.known(f["signature"], kf.get("text", f["signature"]))
        else:
            v.violation(dict(f["replay"], property="C05", signature=f["signature"], what=f["text"]))
    for f in topo_empty_bucket(C.make_rng(seed, "C05-topo-empty"), 30 if tier == "quick" else 300):
        kf = C.match_known("C05", f["signature"])
        if kf is not None:
            v.known(f["signature"], kf.get("text", f["signature"]))
        else:
            v.violation(dict(f["replay"], property="C05", signature=f["signature"], what=f["text"]))
    v.cov["compound_estimator_histories"] = zn
    # several epochs (fit(X, max_iter > 1)) against the model (BaseArt_epochs.v), and what it proves read off the implementation
    import epochfam as E
    rng_e = C.make_rng(seed, "C05-epochs")
    estrs, einfo = [], []
    for _ in range(200 if tier == "quick" else 2000):
        ke, oe = E.gen_epoch_case(rng_e)
        est_e, re_ = E.run_epoch_case(ke, oe)
        estrs.append(E.case_coq(ke, oe, re_))
        why = E.book_of_history(est_e, len(oe["X"]), int(oe["iters"])) if re_["ok"] else None
        einfo.append((dict(B.summary(ke, [oe]), max_iter=int(oe["iters"])), why))
    ecodes, ebad = flow.coq_corr("C05e", "RunBaseN", estrs, shard=100, check_fn="nepcheck", extra_imports="From ARTcorr Require Import RunBase.\n")
    for b in ebad:
        v.notes.append("coq shard failed: " + b[-600:])
    for code, (summ_e, why) in zip(ecodes, einfo):
        if why:
            v.violation(dict(summ_e, property="C05", signature="BaseART.fit/several-epochs-book", what="fit with several epochs: " + why))
        elif code != 0:
            v.violation({"property": "C05", "kind": "no-failing-input-found", "broken_correspondence": {"case": summ_e, "runner_code": code,
                         "theorem_or_check": "corr/RunBaseN.v (BaseArt_epochs.fit_iters) vs BaseART.fit(max_iter > 1)"}}, no_input=True)
    v.cov["several_epoch_fits_against_model"] = len(estrs)
    v.cov["traces_validated_against_impl"] = v.cov.get("traces_validated_against_impl", 0) + sum(1 for x in ecodes if x == 0)
    v.cov["added_after_wave_7"] = 're-fit histories (fit, fit on a permuted part, fit on everything) for every compound estimator; DualVigilanceART map book-keeping (one entry per base category, values 0 .. n_clusters-1); DualVigilanceART lower bounds up to just below the upper vigilance'
    sys.exit(v.finish())


if __name__ == "__main__":
    main()

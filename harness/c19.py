"""C19 - estimator protocol: parameters round-trip and a model owns its state.
Proof: props/C19.v (partial: BaseART's params protocol and an ownership model).
Correspondence: get_params / set_params / attribute sequences on the elementary
estimators vs the Gallina protocol model (exact rationals).  Failing-input
search on the implementation, for every public estimator class and nesting:
set_params(get_params) no-op, constructed-vs-set_params twins behave alike,
unknown names / out-of-range values rejected, fit returns self, sklearn.clone,
later mutation of X / y, deepcopy / pickle at any point then continue both,
two instances trained interleaved vs separately."""
import contextlib
import copy
import io
import pickle
import sys
from fractions import Fraction

import numpy as np

import common as C
import basefam as B
import zoo
import flow
from common import q

CLS = {"Fuzzy": ("PFuzzy", ["rho", "alpha", "beta"]), "ART1": ("PART1", ["rho", "L"]),
       "ART2A": ("PART2A", ["rho", "alpha", "beta"]), "Hyper": ("PHyper", ["rho", "alpha", "beta", "r_hat"])}


def plist(d, keys):
    return "[" + "; ".join(f'("{k}", {q(d[k])})' for k in keys) + "]"


def gen_protocol(rng):
    import artlib
    kind = rng.choice(list(CLS))
    cname, keys = CLS[kind]
    vals = [Fraction(0), Fraction(1, 4), Fraction(1, 2), Fraction(1), Fraction(3, 2), Fraction(-1, 4), Fraction(2)]
    init = {"Fuzzy": {"rho": Fraction(1, 2), "alpha": Fraction(1, 8), "beta": Fraction(1)}, "ART1": {"rho": Fraction(1, 2), "L": Fraction(2)},
            "ART2A": {"rho": Fraction(1, 2), "alpha": Fraction(1, 8), "beta": Fraction(1, 2)},
            "Hyper": {"rho": Fraction(1, 2), "alpha": Fraction(1, 8), "beta": Fraction(1), "r_hat": Fraction(1)}}[kind]
    est = {"Fuzzy": artlib.FuzzyART, "ART1": artlib.ART1, "ART2A": artlib.ART2A, "Hyper": artlib.HypersphereART}[kind](**{k: float(v) for k, v in init.items()})
    ops, fails = [], []
    for _ in range(rng.randrange(2, 7)):
        if rng.random() < 0.6:
            kw = {}
            for _ in range(rng.choice([1, 1, 2])):
                k = rng.choice(keys + ["gamma", "rho_lower_bound"]) if rng.random() < 0.25 else rng.choice(keys)
                kw[k] = rng.choice(vals)
            ok = True
            try:
                r = est.set_params(**{k: float(v) for k, v in kw.items()})
                if r is not est:
                    fails.append({"signature": f"{kind}/set_params-returns", "text": "set_params does not return the estimator", "replay": {"kind": kind}})
            except Exception:
                ok = False
            after = {k: Fraction(float(est.params[k])) for k in keys}
            ops.append(f"PSet {plist(kw, list(kw))} {'true' if ok else 'false'} {plist(after, keys)}")
        else:
            k = rng.choice(keys + ["gamma"])
            try:
                val = getattr(est, k)
                ops.append(f'PAttr "{k}" (Some {q(Fraction(float(val)))})')
            except AttributeError:
                ops.append(f'PAttr "{k}" None')
    return f"(mkPCase {cname} {plist(init, keys)} [" + "; ".join(ops) + "])", {"kind": kind, "ops": ops}, fails


def gen_nested(rng):
    """one set_params call on an estimator with sub-estimators - own parameters, a module replacement and nested values
    (valid, out of range, unknown) in random order - for corr/RunParamsN.v"""
    import artlib
    FK = ["rho", "alpha", "beta"]
    vals = [Fraction(0), Fraction(1, 4), Fraction(1, 2), Fraction(3, 4), Fraction(1), Fraction(3, 2), Fraction(-1, 4)]
    fpar = lambda: {"rho": rng.choice([Fraction(1, 4), Fraction(1, 2), Fraction(3, 4)]), "alpha": rng.choice([Fraction(0), Fraction(1, 8)]), "beta": rng.choice([Fraction(1), Fraction(1, 2)])}
    mkf = lambda p_: artlib.FuzzyART(**{k: float(v) for k, v in p_.items()})
    kind = rng.choice(["DV", "BART"])
    subs0 = {"base_module": fpar()} if kind == "DV" else {"module_a": fpar(), "module_b": fpar()}
    own0 = {"rho_lower_bound": Fraction(1, 8)} if kind == "DV" else {"eta": Fraction(1, 2)}
    with contextlib.redirect_stdout(io.StringIO()):
        if kind == "DV":
            est = artlib.DualVigilanceART(mkf(subs0["base_module"]), float(own0["rho_lower_bound"]))
        else:
            est = artlib.BARTMAP(mkf(subs0["module_a"]), mkf(subs0["module_b"]), eta=float(own0["eta"]))
    kw, coq = {}, []
    mods = list(subs0)
    for _ in range(rng.choice([1, 2, 2, 3, 4])):
        r = rng.random()
        if r < 0.2:
            k = rng.choice(list(own0) + ["nope"]) if rng.random() < 0.3 else list(own0)[0]
            if k in kw:
                continue
            v = rng.choice(vals)
            kw[k] = float(v); coq.append(f'AOwn Q "{k}" {q(v)}')
        elif r < 0.45:
            m = rng.choice(mods)
            if m in kw:
                continue
            p_ = fpar()
            kw[m] = mkf(p_); coq.append(f'ARepl Q "{m}" {plist(p_, FK)}')
        else:
            m = rng.choice(mods + ["module_c"]) if rng.random() < 0.1 else rng.choice(mods)
            k = rng.choice(FK + ["nope"]) if rng.random() < 0.2 else rng.choice(FK)
            if f"{m}__{k}" in kw:
                continue
            v = rng.choice(vals)
            kw[f"{m}__{k}"] = float(v); coq.append(f'ANest Q "{m}" "{k}" {q(v)}')
    if not kw:
        return None
    ok = True
    try:
        with contextlib.redirect_stdout(io.StringIO()):
            est.set_params(**kw)
    except Exception:
        ok = False
    own1 = {k: Fraction(float(est.params[k])) for k in own0}
    subs1 = {m: {k: Fraction(float(getattr(est, m).params[k])) for k in FK} for m in mods}
    sub_coq = lambda d_: "[" + "; ".join(f'("{m}", {plist(d_[m], FK)})' for m in mods) + "]"
    case = (f"(mkNCase {'NDV' if kind == 'DV' else 'NBART'} {plist(own0, list(own0))} {sub_coq(subs0)} [" + "; ".join(coq) + f"] {'true' if ok else 'false'} "
            f"{plist(own1, list(own0))} {sub_coq(subs1)})")
    summ = {"kind": "nested set_params on " + ("DualVigilanceART(FuzzyART)" if kind == "DV" else "BARTMAP(FuzzyART, FuzzyART)"),
            "own": {k: str(v) for k, v in own0.items()}, "modules": {m: {k: str(v) for k, v in d_.items()} for m, d_ in subs0.items()},
            "call": [c.replace(" Q ", " ") for c in coq], "accepted": ok,
            "own_after": {k: str(v) for k, v in own1.items()}, "modules_after": {m: {k: str(v) for k, v in d_.items()} for m, d_ in subs1.items()}}
    return case, summ


# ------------------------------------------------------------------ implementation-side oracle
def rep(name, what, extra=None):
    return {"signature": f"{name}/{what}", "text": what, "replay": dict({"estimator": name}, **(extra or {}))}


def twins_oracle(rng):
    """constructed-vs-set_params twins, no-op, rejection, fit returns self, clone"""
    import artlib
    from sklearn.base import clone
    fails = []
    kind = rng.choice(["Fuzzy", "Hyper", "ART2A", "SimpleARTMAP", "DualVig", "Topo", "Fusion", "DeepARTMAP", "SMART", "CVIART", "iCVIFuzzy", "ARTMAP", "BARTMAP",
                      "SAM_Fusion", "SAM_DV"])
    rho1, rho2 = 0.25, 0.75
    fz = lambda r: artlib.FuzzyART(r, 1e-3, 1.0)
    with contextlib.redirect_stdout(io.StringIO()):
        from artlib.cvi.iCVIFuzzyArt import iCVIFuzzyART
        mk = {"Fuzzy": lambda r: fz(r), "Hyper": lambda r: artlib.HypersphereART(r, 1e-3, 1.0, 1.0), "ART2A": lambda r: artlib.ART2A(r, 0.1, 1.0),
              "SimpleARTMAP": lambda r: artlib.SimpleARTMAP(fz(r)), "ARTMAP": lambda r: artlib.ARTMAP(fz(r), fz(0.5)),
              "DualVig": lambda r: artlib.DualVigilanceART(fz(r), 0.125), "Topo": lambda r: artlib.TopoART(fz(r), 0.5, 5, 2),
              "Fusion": lambda r: artlib.FusionART([fz(r), fz(0.5)], [0.5, 0.5], [2, 2]),
              "DeepARTMAP": lambda r: artlib.DeepARTMAP([fz(r), fz(0.9)]), "SMART": lambda r: artlib.SMART(artlib.FuzzyART, [r, 0.9], {"alpha": 1e-3, "beta": 1.0}),
              "CVIART": lambda r: artlib.CVIART(fz(r), 1), "iCVIFuzzy": lambda r: iCVIFuzzyART(r, 1e-3, 1.0, 1),
              "BARTMAP": lambda r: artlib.BARTMAP(fz(r), fz(0.5), eta=0.0),
              # names nested two levels deep (module_a__module_0__rho, module_a__base_module__rho)
              "SAM_Fusion": lambda r: artlib.SimpleARTMAP(artlib.FusionART([fz(r), fz(0.5)], [0.5, 0.5], [2, 2])),
              "SAM_DV": lambda r: artlib.SimpleARTMAP(artlib.DualVigilanceART(fz(r), 0.125))}[kind]
        a, b = mk(rho1), mk(rho2)
    key = {"Fuzzy": "rho", "Hyper": "rho", "ART2A": "rho", "SimpleARTMAP": "module_a__rho", "ARTMAP": "module_a__rho", "DualVig": "base_module__rho",
           "Topo": "rho", "Fusion": "module_0__rho", "DeepARTMAP": "module_0__rho", "SMART": "module_0__rho", "CVIART": "rho", "iCVIFuzzy": "rho",
           "BARTMAP": "module_a__rho", "SAM_Fusion": "module_a__module_0__rho", "SAM_DV": "module_a__base_module__rho"}[kind]
    n = 8
    X = zoo.cc_rows(rng, n, 1)
    y = np.array([rng.randrange(2) for _ in range(n)])
    XB = np.array([[rng.randrange(0, 9) / 8 for _ in range(5)] for _ in range(5)])      # square: BARTMAP's non-square defect is C17's finding
    XB[:, 0], XB[0, :] = np.linspace(0, 1, 5), np.linspace(0, 1, 5)

    def train(e):
        with contextlib.redirect_stdout(io.StringIO()), np.errstate(all="ignore"):
            if kind in ("SimpleARTMAP", "SAM_DV"):
                return e.fit(X, y)
            if kind == "SAM_Fusion":
                return e.fit(np.hstack([X, X]), y)
            if kind == "ARTMAP":
                return e.fit(X, X)
            if kind == "Fusion":
                return e.fit(np.hstack([X, X]))
            if kind == "DeepARTMAP":
                return e.fit([X, X], y)
            if kind == "BARTMAP":
                return e.fit(XB)
            return e.fit(X)

    def labels(e):
        if kind == "BARTMAP":
            return [int(v) for v in e.row_labels_] + [int(v) for v in e.column_labels_]
        if kind == "DeepARTMAP" or kind == "SMART":
            return np.asarray(e.labels_deep_).tolist()
        if kind in ("SimpleARTMAP", "ARTMAP", "SAM_Fusion", "SAM_DV"):
            return [int(v) for v in e.labels_a]
        return [int(v) for v in e.labels_]
    # get_params exposes the key; set_params(get_params) is a no-op
    try:
        before = zoo.all_params(a)
        # a call without arguments changes nothing and returns the estimator
        d0 = set(vars(a))
        if a.set_params() is not a or zoo.all_params(a) != before or set(vars(a)) != d0:
            fails.append(rep(kind, "set_params-without-arguments-not-a-no-op"))
        gp = a.get_params()
        if key not in gp:
            fails.append(rep(kind, "get_params-missing-nested-key", {"key": key}))
        if zoo.all_params(a) != before:
            fails.append(rep(kind, "get_params-changed-the-params"))
        before = zoo.all_params(a)
        a.set_params(**{k: v for k, v in gp.items() if not hasattr(v, "get_params")})
        if zoo.all_params(a) != before:
            fails.append(rep(kind, "set_params(get_params)-not-a-noop"))
        # ... also with the module-valued entries get_params returns: nothing changes, no attribute appears
        with contextlib.redirect_stdout(io.StringIO()):
            a3 = mk(rho1)                      # on an instance of its own: a stray attribute must not leak into the twin runs below
        before3, attrs = zoo.all_params(a3), sorted(vars(a3))
        a3.set_params(**a3.get_params())
        if zoo.all_params(a3) != before3 or sorted(vars(a3)) != attrs:
            fails.append(rep(kind, "set_params(get_params)-with-modules-not-a-noop", {"new_attributes": sorted(set(vars(a3)) - set(attrs))}))
    except Exception as e:
        fails.append(rep(kind, "set_params(get_params)-raises", {"error": f"{type(e).__name__}: {str(e)[:80]}"}))
    # twins: a.set_params(rho=rho2) behaves like b constructed with rho2
    def attempt(e):
        try:
            return train(e), None
        except Exception as ex:          # whether training is total is C04's / C17's business, not the protocol's
            return None, type(ex).__name__
    try:
        a.set_params(**{key: rho2})
        (ra, ea), (rb, eb) = attempt(a), attempt(b)
        if ea != eb:
            fails.append(rep(kind, "set_params-twin-differs-from-constructed", {"key": key, "twin": ea, "constructed": eb}))
        elif ea is None:
            if ra is not a:
                fails.append(rep(kind, "fit-does-not-return-self"))
            if labels(a) != labels(b):
                fails.append(rep(kind, "set_params-twin-differs-from-constructed", {"key": key}))
            # after training (supervised kinds: with label conflicts, so match tracking ran) the parameters are still the
            # ones set / constructed: get_params round-trips, and a re-fit behaves like the first fit
            pa, pb = zoo.all_params(a), zoo.all_params(b)
            if labels(a) != labels(b):
                pass          # already reported above (the twin does not even behave like the constructed estimator)
            elif pa != pb:
                diff = sorted(k for k in set(pa) | set(pb) if pa.get(k) != pb.get(k))
                fails.append(rep(kind, "set_params-twin-differs-from-constructed", {"key": key, "parameter_paths_that_differ": diff[:4], "twin": repr({k: pa.get(k) for k in diff[:2]})[:300],
                                                                                         "constructed": repr({k: pb.get(k) for k in diff[:2]})[:300]}))
            else:
                with contextlib.redirect_stdout(io.StringIO()):
                    fresh = mk(rho2)
                if pa != zoo.all_params(fresh) and kind not in ("DeepARTMAP", "SMART"):     # Deep: layers are created by fit
                    diff = sorted(k for k in set(pa) | set(zoo.all_params(fresh)) if pa.get(k) != zoo.all_params(fresh).get(k))
                    fails.append(rep(kind, "training-changed-the-parameters", {"paths": diff[:4]}))
    except Exception as e:
        fails.append(rep(kind, "twin-raises", {"error": f"{type(e).__name__}: {str(e)[:80]}"}))
    # the same on an estimator that has a training history already (a grid search without clone, a model re-tuned in place):
    # fitted at a fine vigilance, then given the new value, a fit behaves like the fit of one constructed with it
    try:
        with contextlib.redirect_stdout(io.StringIO()):
            a4, b4 = mk(0.875), mk(rho2)
        (r4, e4) = attempt(a4)
        # (where set_params does not even reach an unfitted estimator, that is the failure reported above - nothing to add)
        if e4 is None and not any(f["text"] == "set_params-twin-differs-from-constructed" for f in fails):
            a4.set_params(**{key: rho2})
            (r4, e4), (rb4, eb4) = attempt(a4), attempt(b4)
            if e4 != eb4:
                fails.append(rep(kind, "set_params-on-a-fitted-estimator-differs-from-constructed", {"key": key, "fitted first at": 0.875, "twin": e4, "constructed": eb4}))
            elif e4 is None and labels(a4) != labels(b4):
                fails.append(rep(kind, "set_params-on-a-fitted-estimator-differs-from-constructed",
                                 {"key": key, "fitted first at": 0.875, "twin": repr(labels(a4))[:200], "constructed": repr(labels(b4))[:200]}))
            elif e4 is None and kind in ("Fuzzy", "Hyper", "ART2A", "DualVig", "Topo", "Fusion", "CVIART", "iCVIFuzzy"):
                Xq = np.hstack([X, X]) if kind == "Fusion" else X
                with contextlib.redirect_stdout(io.StringIO()), np.errstate(all="ignore"):
                    pa4, pb4 = [int(v) for v in a4.predict(Xq)], [int(v) for v in b4.predict(Xq)]
                extra = {}
                if kind == "DualVig":
                    extra = {"twin map": repr(dict(a4.map)), "constructed map": repr(dict(b4.map))} if dict(a4.map) != dict(b4.map) else {}
                if pa4 != pb4 or extra or int(a4.n_clusters) != int(b4.n_clusters):
                    fails.append(rep(kind, "set_params-on-a-fitted-estimator-differs-from-constructed",
                                     dict({"key": key, "fitted first at": 0.875, "twin predict": pa4, "constructed predict": pb4,
                                           "n_clusters": [int(a4.n_clusters), int(b4.n_clusters)]}, **extra)))
    except Exception as e:
        fails.append(rep(kind, "fitted-twin-raises", {"error": f"{type(e).__name__}: {str(e)[:80]}"}))
    # the estimator's OWN hyper-parameters (not routed to a nested module): value visible through get_params and
    # attribute access, and the estimator then behaves like one constructed with it
    own = {"Fuzzy": ("beta", 0.5, lambda: artlib.FuzzyART(rho2, 1e-3, 0.5)),
           "Hyper": ("r_hat", 0.5, lambda: artlib.HypersphereART(rho2, 1e-3, 1.0, 0.5)),
           "ART2A": ("beta", 0.5, lambda: artlib.ART2A(rho2, 0.1, 0.5)),
           "DualVig": ("rho_lower_bound", 0.5, lambda: artlib.DualVigilanceART(fz(rho2), 0.5)),
           "Fusion": ("gamma_values", [0.125, 0.875], lambda: artlib.FusionART([fz(rho2), fz(0.5)], [0.125, 0.875], [2, 2])),
           "Topo": (rng.choice(["tau", "phi", "beta_lower"]), None, None),
           "CVIART": ("validity", 2, None), "iCVIFuzzy": ("beta", 0.5, None)}.get(kind)
    if own is not None:
        okey, oval, mk2 = own
        if kind == "Topo":
            oval = {"tau": 3, "phi": 1, "beta_lower": 0.25}[okey]
        try:
            with contextlib.redirect_stdout(io.StringIO()):
                a2 = mk(rho2)
                a2.set_params(**{okey: oval})
            got, attr = a2.get_params().get(okey, "<missing>"), getattr(a2, okey, "<no attribute>")
            same = lambda u: (list(u) == list(oval)) if isinstance(oval, list) else (u == oval)
            if not (same(got) and same(attr)):
                fails.append(rep(kind, "set_params-own-parameter-dropped", {"key": okey, "set": oval, "get_params": repr(got), "attribute": repr(attr)}))
            elif mk2 is not None:
                with contextlib.redirect_stdout(io.StringIO()):
                    b2 = mk2()
                train(a2); train(b2)
                if labels(a2) != labels(b2):
                    fails.append(rep(kind, "set_params-own-twin-differs-from-constructed", {"key": okey}))
        except Exception as e:
            fails.append(rep(kind, "own-twin-raises", {"key": okey, "error": f"{type(e).__name__}: {str(e)[:80]}"}))
    # rejection: an error, and the estimator is exactly as before
    try:
        before = (zoo.all_params(a), sorted(vars(a)))
        a.set_params(no_such_parameter=1.0)
        fails.append(rep(kind, "unknown-name-accepted"))
    except Exception:
        if (zoo.all_params(a), sorted(vars(a))) != before:
            fails.append(rep(kind, "rejected-set_params-changed-the-estimator", {"call": "set_params(no_such_parameter=1.0)"}))
    if kind in ("Fuzzy", "Hyper", "ART2A", "iCVIFuzzy"):
        try:
            with contextlib.redirect_stdout(io.StringIO()):
                r = mk(rho1)
            bad = rng.choice([{"rho": 1.5}, {"rho": -0.25}, {"beta": 7.0}, {"rho": 0.5, "beta": -1.0}])
            before = zoo.all_params(r)
            r.set_params(**bad)
            fails.append(rep(kind, "out-of-range-accepted", {"call": repr(bad)}))
        except Exception:
            if zoo.all_params(r) != before:
                fails.append(rep(kind, "rejected-set_params-changed-the-estimator", {"call": repr(bad), "before": repr(before)[:200], "after": repr(zoo.all_params(r))[:200]}))
    if kind == "BARTMAP":
        try:
            with contextlib.redirect_stdout(io.StringIO()):
                r = mk(rho1)
            before = zoo.all_params(r)
            r.set_params(eta="high")
            fails.append(rep(kind, "out-of-range-accepted", {"call": "eta=\"high\""}))
        except Exception:
            if zoo.all_params(r) != before:
                fails.append(rep(kind, "rejected-set_params-changed-the-estimator", {"call": "eta=\"high\""}))
    # a sub-estimator replaced TOGETHER with one of its parameters (what a parameter grid over a module and its
    # vigilance produces): the new module receives the value, the old one is left alone, and the estimator then
    # behaves like one constructed that way; the same call with an unknown name added is rejected and changes nothing
    modkey = {"SimpleARTMAP": "module_a", "ARTMAP": "module_a", "DualVig": "base_module", "BARTMAP": "module_a", "SAM_DV": "module_a"}.get(kind)
    if modkey is not None:
        try:
            with contextlib.redirect_stdout(io.StringIO()):
                e1, e2 = mk(rho1), mk(rho2)
                newmod = (lambda r: artlib.DualVigilanceART(fz(r), 0.125)) if kind == "SAM_DV" else fz
                fresh_mod = newmod(0.5)
                old_mod = getattr(e1, modkey)
                old_params = zoo.all_params(old_mod)
                sub = "base_module__rho" if kind == "SAM_DV" else "rho"
                args = [(modkey, fresh_mod), (f"{modkey}__{sub}", rho2)]
                if rng.random() < 0.5:
                    args.reverse()
                e1.set_params(**dict(args))
            if getattr(e1, modkey) is not fresh_mod:
                fails.append(rep(kind, "set_params-replaced-module-not-installed", {"call": [a[0] for a in args]}))
            elif zoo.all_params(old_mod) != old_params:
                fails.append(rep(kind, "set_params-nested-value-went-to-the-replaced-module", {"call": [a[0] for a in args], "old module now": repr(zoo.all_params(old_mod))[:200]}))
            elif zoo.all_params(e1) != zoo.all_params(e2):
                fails.append(rep(kind, "set_params-twin-differs-from-constructed", {"call": [a[0] for a in args], "twin": repr(zoo.all_params(e1))[:300], "constructed": repr(zoo.all_params(e2))[:300]}))
            with contextlib.redirect_stdout(io.StringIO()):
                e3 = mk(rho1)
            keep = getattr(e3, modkey)
            before = (zoo.all_params(e3), sorted(vars(e3)))
            try:
                with contextlib.redirect_stdout(io.StringIO()):
                    e3.set_params(**{modkey: newmod(0.5), "no_such_parameter": 1})
                fails.append(rep(kind, "unknown-name-accepted"))
            except Exception:
                if getattr(e3, modkey) is not keep or (zoo.all_params(e3), sorted(vars(e3))) != before:
                    fails.append(rep(kind, "rejected-set_params-changed-the-estimator", {"call": f"set_params({modkey}=<new module>, no_such_parameter=1)"}))
        except Exception as e:
            fails.append(rep(kind, "module-replacement-raises", {"error": f"{type(e).__name__}: {str(e)[:80]}"}))
    # clone: unfitted, independent, equal hyper-parameters
    try:
        with contextlib.redirect_stdout(io.StringIO()):
            c = clone(b)
        if hasattr(c, "W") and kind in ("Fuzzy", "Hyper", "ART2A") or zoo.all_params(c) != zoo.all_params(mk(rho2)):
            fails.append(rep(kind, "clone-not-an-unfitted-equal-copy"))
    except Exception as e:
        fails.append(rep(kind, "clone-raises", {"error": f"{type(e).__name__}: {str(e)[:60]}"}))
    return fails


def ownership_oracle(rng):
    """mutation of X / y after training; deepcopy / pickle at any point then continue; interleaved instances"""
    fails = []
    name = rng.choice(zoo.ALL_NAMES)
    seed = rng.randrange(10 ** 9)

    def build():
        r = C.make_rng(seed, "own")
        z = zoo.make(name, r)
        X, y = z["gen"](r.randrange(4, 12))
        return z, X, y
    z, X, y = build()
    n = zoo.nrows(X)
    h = max(1, n // 2)
    op1 = "fit" if z.get("fit_ok", True) else "partial_fit"
    try:
        # (1) later mutation of the training arrays
        est = z["est"]
        zoo.call(est, op1, X, y)
        before = zoo.canon(est)
        for A in (X if isinstance(X, list) else [X]):
            A[:] = 0.5
        if y is not None:
            np.asarray(y)[:] = 0
        after = zoo.canon(est)
        if before != after:
            import c06
            fails.append(rep(name, "model-changed-by-mutating-the-training-arrays", {"diff": c06.first_diff(before, after), "zoo_seed": seed}))
        # (2) copy at a random point, continue both
        if z["pf"]:
            z2, X2, y2 = build()
            e = z2["est"]
            zoo.call(e, "partial_fit", zoo.take(X2, list(range(h))), None if y2 is None else np.asarray(y2)[:h])
            twin = pickle.loads(pickle.dumps(e)) if rng.random() < 0.5 else copy.deepcopy(e)
            rest = list(range(h, n)) or [0]
            zoo.call(e, "partial_fit", zoo.take(X2, rest), None if y2 is None else np.asarray(y2)[rest])
            zoo.call(twin, "partial_fit", zoo.take(X2, rest), None if y2 is None else np.asarray(y2)[rest])
            if zoo.canon(e) != zoo.canon(twin):
                fails.append(rep(name, "copied-model-diverges-under-further-training", {"zoo_seed": seed}))
            # (3) two instances interleaved vs separately
            za, Xa, ya = build(); zb, Xb, yb = build()
            ea, eb = za["est"], zb["est"]
            for part in (list(range(h)), rest):
                zoo.call(ea, "partial_fit", zoo.take(Xa, part), None if ya is None else np.asarray(ya)[part])
                zoo.call(eb, "partial_fit", zoo.take(Xb, part), None if yb is None else np.asarray(yb)[part])
            if zoo.canon(ea) != zoo.canon(e) or zoo.canon(eb) != zoo.canon(e):
                fails.append(rep(name, "instances-influence-each-other", {"zoo_seed": seed}))
    except Exception as e:
        pass          # totality / batching defects are C04 / C06 business
    return fails


def elementary_ownership_oracle(rng):
    """'a fitted model owns its state' for every elementary module and every learning-rate setting (fast learning beta = 1
    included): after fit / partial_fit the caller overwrites its training array in place; weights, centres and
    predictions of the model are as before"""
    import kernfam
    kind = rng.choice(kernfam.KINDS)
    d = rng.choice([2, 3])
    p = kernfam.gen_params(rng, kind, d)
    if "beta" in p and rng.random() < 0.6:
        p["beta"] = 1.0
    if kind in ("Fuzzy", "Hyper", "Ellip") and p["alpha"] == 0.0:
        p["alpha"] = 1e-3
    if kind == "ART1" and p["L"] == 1.0:
        p["L"] = 2.0
    X = np.asarray(kernfam.gen_data(rng, kind, rng.randrange(6, 16), d), dtype=float)
    # duplicates make samples resonate with existing categories (the update path, not only new_weight)
    X = np.vstack([X, X[[rng.randrange(len(X)) for _ in range(4)]]])
    how = rng.choice(["fit", "partial_fit x2", "SimpleARTMAP.fit"])
    repd = {"module": kind, "params": {k_: (np.asarray(v_).tolist() if isinstance(v_, np.ndarray) else v_) for k_, v_ in p.items()}, "X": X.tolist(), "how": how}
    try:
        import artlib
        m = kernfam.make(kind, p)
        est = artlib.SimpleARTMAP(m) if how == "SimpleARTMAP.fit" else m
        Xc = X.copy()
        with np.errstate(all="ignore"):
            if how == "fit":
                est.fit(Xc)
            elif how == "partial_fit x2":
                h = len(Xc) // 2
                est.partial_fit(Xc[:h]); est.partial_fit(Xc[h:])
            else:
                est.fit(Xc, np.array([rng.randrange(2) for _ in range(len(Xc))]))
            Q = X[:6].copy()
            Wb = [np.array(w, dtype=float).copy() for w in m.W]
            pb = [int(v) for v in np.asarray(est.predict(Q)).ravel()]
            # the caller re-uses its buffer (valid values of the same kind: a cyclic shift of the rows, then a constant row)
            Xc[:] = np.roll(X, 3, axis=0)
            Xc[:] = X[0]
            Wa = [np.array(w, dtype=float) for w in m.W]
            pa = [int(v) for v in np.asarray(est.predict(Q)).ravel()]
        if len(Wa) != len(Wb) or any(not np.array_equal(a, b, equal_nan=True) for a, b in zip(Wa, Wb)):
            j = [i for i, (a, b) in enumerate(zip(Wa, Wb)) if not np.array_equal(a, b, equal_nan=True)][:3]
            return [rep(kind, "weights-follow-the-callers-array", dict(repd, categories_that_changed=j))]
        if pa != pb:
            return [rep(kind, "predictions-follow-the-callers-array", repd)]
    except Exception:
        return []        # totality is C04's business
    return []


def main():
    tier = sys.argv[1] if len(sys.argv) > 1 else "quick"
    seed = C.seed_from_env()
    v = C.Verdict("C19", tier, seed)
    gate_ok, ob = C.proof_gate(v, "C19.v")
    rng = C.make_rng(seed, "C19")
    n = 400 if tier == "quick" else 4000
    strs, summ, fails = [], [], []
    for _ in range(n):
        s, sm, f = gen_protocol(rng)
        strs.append(s); summ.append(sm); fails.extend(f)
    m = 150 if tier == "quick" else 1500
    for _ in range(m):
        fails.extend(twins_oracle(rng))
        fails.extend(ownership_oracle(rng))
        fails.extend(elementary_ownership_oracle(rng))
    codes, bad = flow.coq_corr("C19", "RunParams", strs, shard=200, check_fn="pcheck", extra_imports="From Coq Require Import String.\nOpen Scope string_scope.\n")
    rng_n = C.make_rng(seed, "C19-nested")
    nstrs, nsumm = [], []
    for _ in range(400 if tier == "quick" else 4000):
        r = gen_nested(rng_n)
        if r:
            nstrs.append(r[0]); nsumm.append(r[1])
    ncodes, nbad = flow.coq_corr("C19n", "RunParamsN", nstrs, shard=200, check_fn="ncheck", extra_imports="From Coq Require Import String.\nFrom ART Require Import Params Params_nested.\nOpen Scope string_scope.\n")
    for b in bad + nbad:
        v.notes.append("coq shard failed: " + b[-600:])
    flow.decide(v, "C19", gate_ok, ob, list(zip(codes, summ)) + list(zip(ncodes, nsumm)), fails, None)
    v.cov.update({
        "evaluations": n + 2 * m, "distinct_nontrivial": len(set(C.case_hash(s) for s in summ)),
        "rule": "random get/set/attribute sequences on Fuzzy/ART1/ART2-A/Hypersphere (valid, out-of-range and unknown names); twins, clone, no-op, rejection on 12 estimator kinds; "
                "mutation, deepcopy/pickle continuation and interleaved instances on 12 estimator kinds; non-trivial = distinct protocol sequence",
        "traces_validated_against_impl": sum(1 for x in codes + ncodes if x == 0), "nested_set_params_calls": len(nstrs),
        "nested_calls_accepted": sum(1 for s_ in nsumm if s_["accepted"]), "nested_calls_with_replacement": sum(1 for s_ in nsumm if any(c.startswith("ARepl") for c in s_["call"])),
        "samples": summ[:1] + nsumm[:1]})
    v.assumptions = ["sklearn.clone / copy.deepcopy / pickle are third-party: exercised, not modelled",
                     "nested (module__name) routing: modelled (Params_nested.v) and tied by correspondence for DualVigilanceART and BARTMAP over Fuzzy ART; the other compound estimators on the implementation only"]
    v.cov["added_after_wave_7"] = 'set_params on an estimator fitted before at a fine vigilance, then fit, against a constructed twin (labels; predictions, map, cluster count where defined)'
    sys.exit(v.finish(level="proof"))


if __name__ == "__main__":
    main()

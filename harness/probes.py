"""Deterministic probes for genuine defects found by the clean-tree audits (independent readers of one property each,
given only its text and a scratch copy of the library).  Every probe is a standalone script under /verif/audit that
exits 1 and prints what is wrong when the violation occurs on the library root given as argv[1], 0 otherwise.  The
registry audit/probes.json lists, per property, the probes that are inside that property's statement and quantifier;
a probe that fires is an ordinary failure of the check (signature audit/<prop>/repro_<k>), and is reported as a
KNOWN-FINDING only when known_findings.json lists exactly that signature."""
import json
import os
import subprocess
from concurrent.futures import ThreadPoolExecutor

import common as C

ROOT = os.path.dirname(os.path.dirname(os.path.abspath(__file__)))


def _run(entry, repo):
    path = os.path.join(ROOT, entry["script"])
    env = dict(os.environ, PYTHONPATH=repo, PYTHONHASHSEED="0")
    try:
        r = subprocess.run([C.PY if hasattr(C, "PY") else "/venv/bin/python", "-W", "ignore", path, repo],
                           capture_output=True, text=True, timeout=180, env=env)
        rc, out = r.returncode, (r.stdout.strip().split("\n") or [""])
        err = r.stderr.strip().split("\n")[-1] if r.stderr.strip() else ""
    except subprocess.TimeoutExpired:
        rc, out, err = 124, [""], "no result within 180 s"
    if rc == 0:
        return None
    sig = entry["signature"] if rc == 1 else entry["signature"] + f"/probe-exit-{rc}"
    return {"signature": sig, "text": (entry.get("doc", "")[:300] + " | observed: " + (out[-1] or err)[:300]),
            "replay": {"how": f"/venv/bin/python {entry['script']} <library root>  (exit 1 = the violation occurs)", "script": entry["script"],
                       "output_tail": out[-6:], "stderr_tail": err}}


def run(prop):
    reg = json.load(open(os.path.join(ROOT, "audit", "probes.json"))).get(prop, [])
    if not reg:
        return [], 0
    repo = os.environ.get("VERIF_REPO", "/repo")
    with ThreadPoolExecutor(max_workers=8) as ex:
        res = list(ex.map(lambda e: _run(e, repo), reg))
    return [r for r in res if r], len(reg)

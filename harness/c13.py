"""C13 - dual vigilance.  Proof: props/C13.v.  Correspondence: DualVigilanceART
histories vs the Gallina model (base weights/labels/counters, map, own
counter, n_clusters, reset-function log, predictions).  Failing-input search:
the three-way decision re-derived from the implementation's own activation /
match values, map total with values 0..n_clusters-1, labels and predictions
in range, upper-vigilance bound on every base category."""
import sys

import numpy as np

import common as C
import basefam as B
import topofam as T
import flow


def oracle(c):
    """the three-way decision (with the reset function and match tracking of the mode, starting every sample
    from the CONFIGURED vigilance) re-derived from the implementation's own activation / match values"""
    fails = []
    est = T.make_dv(c)
    base = est.base_module
    lb = float(c["lb"])
    rho_cfg = float(c["k"]["rho"])

    def rep(sig, what, i=None):
        return {"signature": f"DualVigilanceART/{sig}", "text": what, "replay": dict(T.summary_v(c), failing_sample=i)}
    train = [o for o in c["ops"] if o["op"] in ("fit", "partial_fit")]
    i = -1
    X = None
    for o in train:
        mode, eps, vs = o["mode"], float(o["eps"]), o.get("veto")
        strict = mode in ("MT0", "MT~")
        X = np.array(o["X"], dtype=float)
        keys, _ = B.row_keys(X)
        for j, x in enumerate(X):
            i += 1
            fresh_fit = (o["op"] == "fit" and j == 0)
            has_w = (not fresh_fit) and hasattr(base, "W") and len(base.W) > 0
            nb = len(base.W) if has_w else 0
            map_before = dict(est.map) if has_w else {}
            ncl_before = est.n_clusters if has_w else 0
            exp = exp_text = None
            if has_w:
                Tv, Mv = [], []
                cfg = dict(base.params, rho=rho_cfg)
                for w in base.W:
                    t, cache = base.category_choice(x, w, params=cfg)
                    m, _ = base.match_criterion(x, w, params=cfg, cache=cache)
                    Tv.append(float(t)); Mv.append(float(m))
                key = keys[x.tobytes()]
                vfun = (lambda lab: bool(vs["tbl"][(vs["a"] * key + vs["b"] * lab) % len(vs["tbl"])])) if vs else (lambda lab: True)

                def decide(order):
                    rho = rho_cfg
                    for k in order:
                        if vfun(map_before[k]):
                            if (Mv[k] > rho) if strict else (Mv[k] >= rho):
                                return ("absorb", k)
                            if (Mv[k] > lb) if strict else (Mv[k] >= lb):
                                return ("split", k)
                        elif (Mv[k] > rho) if strict else (Mv[k] >= rho):
                            # a vetoed category that passes the upper vigilance: match tracking of the mode, then go on
                            if mode == "MT+":
                                rho = Mv[k] + eps
                            elif mode == "MT-":
                                rho = Mv[k] - eps
                            elif mode == "MT0":
                                rho = Mv[k]
                            elif mode == "MT1":
                                return ("fresh", None)
                    return ("fresh", None)
                # the code visits only categories with positive activation; the property says "visits categories"
                exp = decide(sorted([k for k in range(nb) if Tv[k] > 0], key=lambda k: (-Tv[k], k)))
                exp_text = decide(sorted(range(nb), key=lambda k: (-Tv[k], k)))
            veto = B.Veto(est, vs["tbl"], vs["a"], vs["b"], keys) if vs else None
            try:
                if fresh_fit:
                    est.fit(x.reshape(1, -1), match_reset_func=veto, match_tracking=mode, epsilon=eps)
                else:
                    est.partial_fit(x.reshape(1, -1), match_reset_func=veto, match_tracking=mode, epsilon=eps)
            except Exception:
                return fails
            lab = int(est.labels_[-1])
            na = len(base.W)
            if has_w and exp_text != exp:
                tk, kk = exp_text
                ok_text = (tk == "absorb" and na == nb and lab == map_before[kk]) or \
                          (tk == "split" and na == nb + 1 and lab == map_before[kk]) or (tk == "fresh" and lab == ncl_before)
                if not ok_text:
                    fails.append(rep("nonpositive-activation-skipped",
                                     f"sample {i}: category {kk} (activation <= 0) qualifies ({tk}) but the loop never visits it", i))
            if has_w:
                kind, k = exp
                if kind == "absorb" and not (na == nb and lab == map_before[k]):
                    fails.append(rep("decision", f"sample {i}: category {k} is the first to pass the (configured, match-tracked) upper vigilance but the sample was not absorbed by it", i)); return fails
                if kind == "split" and not (na == nb + 1 and lab == map_before[k] and est.map[nb] == map_before[k]):
                    fails.append(rep("decision", f"sample {i}: category {k} passes only the lower vigilance but no new category with its cluster label was made", i)); return fails
                if kind == "fresh" and not (na == nb + 1 and lab == ncl_before and est.map[nb] == ncl_before):
                    fails.append(rep("decision", f"sample {i}: no category passes either threshold but no brand-new cluster label was created", i)); return fails
            if float(base.params["rho"]) != rho_cfg:
                fails.append(rep("vigilance-in-force", f"sample {i}: the base module's rho is {float(base.params['rho'])} after the step, configured {rho_cfg}: "
                                 "later samples are not judged against the upper vigilance", i)); return fails
            # the map
            if sorted(est.map.keys()) != list(range(na)):
                fails.append(rep("map-total", "map keys are not exactly the base categories", i)); return fails
            vals = sorted(set(est.map.values()))
            if vals != list(range(est.n_clusters)):
                fails.append(rep("map-range", f"map values {vals} are not 0..n_clusters-1 (n_clusters={est.n_clusters})", i)); return fails
            if not (0 <= lab < est.n_clusters):
                fails.append(rep("label-range", "returned label is not a cluster label", i)); return fails
            # base categories obey the upper-vigilance bound (Fuzzy: |w| >= rho d) - without match tracking below rho
            if c["k"]["kind"] == "Fuzzy" and not (vs and mode == "MT-"):
                d = X.shape[1] // 2
                for w in base.W:
                    if np.sum(np.abs(w)) < rho_cfg * d - 1e-9:
                        fails.append(rep("upper-bound", "a base category exceeds the upper-vigilance size bound", i)); return fails
    if X is None:
        return fails
    try:
        p = est.predict(X)
        if any(not (0 <= int(v) < est.n_clusters) for v in p):
            fails.append(rep("predict-range", "a predicted label is not a cluster label"))
    except Exception:
        pass
    return fails


def main():
    tier = sys.argv[1] if len(sys.argv) > 1 else "quick"
    seed = C.seed_from_env()
    v = C.Verdict("C13", tier, seed)
    gate_ok, ob = C.proof_gate(v, "C13.v")
    rng = C.make_rng(seed, "C13")
    n = 400 if tier == "quick" else 4000
    strs, summ, fails, nontriv, hashes = [], [], [], 0, set()
    stats = {"modes": {}, "with_veto": 0, "splits": 0}
    for _ in range(n):
        c = T.gen_vcase(rng)
        est, obs = T.run_vcase(c)
        strs.append(T.vcase_coq(c, obs))
        s = T.summary_v(c)
        summ.append(s)
        h = C.case_hash(s)
        last = [o for o in obs if o["ok"]][-1] if any(o["ok"] for o in obs) else None
        if last and len(last["b"]["W"]) >= 2 and h not in hashes:
            nontriv += 1
            stats["splits"] += 1 if last["ncl"] < len(last["b"]["W"]) else 0
        hashes.add(h)
        stats["modes"][c["ops"][0]["mode"]] = stats["modes"].get(c["ops"][0]["mode"], 0) + 1
        stats["with_veto"] += 1 if c["ops"][0].get("veto") else 0
        fails.extend(oracle(c))
    # directed bucket: disjoint samples (activation exactly 0) with rho_lower_bound = 0
    from fractions import Fraction
    for _ in range(20):
        rows = [[Fraction(1), Fraction(0)], [Fraction(0), Fraction(1)]] + [rng.choice([[Fraction(1), Fraction(0)], [Fraction(0), Fraction(1)], [Fraction(1, 2), Fraction(1, 2)]]) for _ in range(3)]
        c = {"k": {"kind": "Fuzzy", "rho": Fraction(rng.randrange(1, 9), 8), "alpha": Fraction(1, 1024), "beta": Fraction(1)}, "lb": Fraction(0),
             "ops": [{"op": "fit", "X": rows, "mode": rng.choice(["MT+", "MT-", "MT1"]), "eps": Fraction(0), "veto": None}]}
        est, obs = T.run_vcase(c)
        strs.append(T.vcase_coq(c, obs)); summ.append(T.summary_v(c))
        fails.extend(oracle(c))
    codes, bad = flow.coq_corr("C13", "RunTopo", strs, shard=80, check_fn="vcheck", extra_imports="From ARTcorr Require Import RunBase RunSam.\n")
    for b in bad:
        v.notes.append("coq shard failed: " + b[-600:])

    def extended():
        out = []
        r2 = C.make_rng(seed, "C13-ext")
        for _ in range(2000):
            out.extend(oracle(T.gen_vcase(r2)))
            if len(out) >= 3:
                break
        return out
    flow.decide(v, "C13", gate_ok, ob, list(zip(codes, summ)), fails, extended)
    v.cov.update({
        "evaluations": n, "distinct_nontrivial": nontriv,
        "rule": "DualVigilanceART over Fuzzy / ART2-A base modules on grid data, all pairs rho > rho_lower_bound >= 0 on the k/8 grid, 5 modes, 40% with a table reset function, "
                "fit / partial_fit batchings / re-fit, then predict; non-trivial = distinct history with >= 2 base categories",
        "traces_validated_against_impl": sum(1 for x in codes if x == 0),
        "distribution": stats, "samples": summ[:1]})
    v.assumptions = ["the loop visits only categories with positive activation, as the code does; with rho_lower_bound = 0 a category with activation 0 and match 0 is therefore not visited (theorem and model state the filter explicitly)"]
    sys.exit(v.finish())


if __name__ == "__main__":
    main()

"""bin/replay <file>: re-run a recorded failing input against /repo alone.
Exit 1 and print what fails if the recorded input still fails, exit 0 if it
passes now, exit 2 if this replay format has no automatic re-run (the file
then documents the input)."""
import json
import sys
from fractions import Fraction

import numpy as np


def fr(s):
    return Fraction(s) if isinstance(s, str) else Fraction(s)


def kernel_from(est):
    k = {kk: (vv if kk == "kind" else fr(vv)) for kk, vv in est.items()}
    return k


def ops_from(ops):
    out = []
    for o in ops:
        d = {"op": o["op"], "X": [[fr(v) for v in r] for r in o["X"]]}
        if o.get("mode"):
            d.update(mode=o["mode"], eps=fr(o["eps"]), veto=o.get("veto"))
        if o.get("skip") is not None:
            d["skip"] = o["skip"]
        out.append(d)
    return out


def main():
    d = json.load(open(sys.argv[1]))
    prop = d.get("property")
    if d.get("kind") == "no-failing-input-found":
        print("this replay names a broken proof obligation / correspondence, not a failing input:")
        print(json.dumps({k: d[k] for k in d if k in ("broken_obligation", "broken_correspondence")}, indent=1)[:3000])
        sys.exit(2)
    fails = None
    if d.get("script") and str(d.get("signature", "")).startswith("audit/"):
        # a probe of the independent audits: the script is the replay (exit 1 = the violation occurs)
        import os, subprocess
        root = os.path.dirname(os.path.dirname(os.path.abspath(__file__)))
        repo = os.environ.get("VERIF_REPO", "/repo")
        r = subprocess.run(["/venv/bin/python", "-W", "ignore", os.path.join(root, d["script"]), repo],
                           env=dict(os.environ, PYTHONPATH=repo, PYTHONHASHSEED="0"), capture_output=True, text=True, timeout=300)
        print(r.stdout[-1500:])
        if r.returncode == 1:
            print("STILL FAILS:", d.get("what") or d["signature"]); sys.exit(1)
        if r.returncode == 0:
            print("the recorded input passes on the current tree"); sys.exit(0)
        print(f"the probe script itself failed (exit {r.returncode}): {r.stderr[-400:]}"); sys.exit(1)
    try:
        if prop == "C01" and "rows" in d:
            import c01
            k = kernel_from(d["estimator"])
            ops = [{"op": "fit", "X": [[fr(v) for v in r] for r in d["rows"]], "mode": d["mode"], "eps": fr(d["eps"]), "veto": d.get("veto")}]
            fails = c01.oracle_case(k, ops)
        elif isinstance(d.get("estimator"), dict) and "ops" in d and prop in ("C05", "C06", "C07", "C08", "C18"):
            mod = __import__(prop.lower())
            k = kernel_from(d["estimator"])
            ops = ops_from(d["ops"])
            if prop == "C18":
                _, fails = mod.run_ops_continue(k, ops)
            else:
                fails = mod.oracle(k, ops)
        elif prop == "C02" and "kind" in d and "X" in d:
            import c02
            p = {kk: (np.array(vv) if isinstance(vv, list) else vv) for kk, vv in d["params"].items()}
            out = c02.check_stream(d["kind"], p, np.array(d["X"], dtype=float), d.get("mode", "MT+"), d.get("eps", 0.0), None, d.get("y"))
            fails = [{"text": t} for _, t, _ in out]
        elif prop in ("C10", "C11") and d.get("estimator") == "FusionART" and "modules" in d:
            import fusfam as F
            mod = __import__(prop.lower())
            f = {"ks": [kernel_from(m) for m in d["modules"]], "gammas": [fr(g) for g in d["gammas"]], "dims": d["dims"],
                 "X": [r for o in d["ops"] for r in o["X"]]}
            ops = ops_from(d["ops"])
            import common as C
            fails = mod.oracle(f, ops) if prop == "C10" else mod.oracle(f, [o for o in ops if o["op"] in ("fit", "partial_fit")], C.make_rng(1, "replay"))
        elif prop == "C13" and d.get("estimator") == "DualVigilanceART":
            import c13
            c = {"k": kernel_from(d["base"]), "lb": fr(d["rho_lower_bound"]), "ops": ops_from(d["ops"])}
            fails = c13.oracle(c)
        elif prop == "C14" and d.get("estimator") == "TopoART":
            import c14
            c = {"k": kernel_from(d["base"]), "beta_lower": fr(d["beta_lower"]), "tau": d["tau"], "phi": d["phi"], "ops": ops_from(d["ops"])}
            fails = c14.oracle(c)
        elif prop == "C20" and "D" in d:
            import c20
            from artlib.common.VAT import VAT
            D = np.array(d["D"], dtype=float)
            M, perm = VAT(D, distance_metric=None)
            fails = c20.prim_oracle(D, M, perm, "replay")
    except Exception as e:
        print(f"replay raised {type(e).__name__}: {e}")
        sys.exit(1)
    if fails is None:
        print("no automatic re-run for this replay format; the recorded input is:")
        print(json.dumps(d, indent=1)[:4000])
        sys.exit(2)
    if fails:
        for f in fails[:3]:
            print("STILL FAILS:", f.get("text"))
        sys.exit(1)
    print("the recorded input passes on the current tree")
    sys.exit(0)


if __name__ == "__main__":
    main()

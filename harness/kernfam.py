"""Direct calls of the public kernel functions of the eight elementary
modules on reachable and arbitrary well-formed weights; emission for
corr/RunKern.v.  Used by C03 (and the kernels' side of C02/C04)."""
import copy
import math
import operator
from fractions import Fraction

import numpy as np

import common as C
import basefam as B
from common import q, qlist, qmat, coq_option, coq_list

KINDS = ["Fuzzy", "ART1", "ART2A", "Hyper", "Ellip", "Gauss", "Bayes", "Quad"]


def gen_params(rng, kind, d):
    f = float
    if kind == "Fuzzy":
        return {"rho": rng.choice([0.0, 0.3, 0.5, 0.7, 0.9, 1.0]), "alpha": rng.choice([0.0, 1e-3, 1e-10, 0.5]), "beta": rng.choice([1.0, 0.5, 0.3])}
    if kind == "ART1":
        return {"rho": rng.choice([0.0, 0.3, 0.5, 0.7, 1.0]), "L": rng.choice([1.0, 1.5, 2.0, 3.0])}
    if kind == "ART2A":
        return {"rho": rng.choice([0.0, 0.3, 0.6, 0.9]), "alpha": rng.choice([0.0, 0.1, 0.3]) if d <= 9 else 0.0, "beta": rng.choice([1.0, 0.5, 0.1, 0.0])}
    if kind == "Hyper":
        return {"rho": rng.choice([0.0, 0.3, 0.6, 0.9]), "alpha": rng.choice([0.0, 1e-3, 0.5]), "beta": rng.choice([1.0, 0.5, 0.3, 0.0]), "r_hat": rng.choice([0.5, 1.0, 1.5, 2.0])}
    if kind == "Ellip":
        return {"rho": rng.choice([0.0, 0.3, 0.6, 0.9]), "alpha": rng.choice([0.0, 1e-3, 0.5]), "beta": rng.choice([1.0, 0.5, 0.3]), "mu": rng.choice([1.0, 0.8, 0.5]), "r_hat": rng.choice([1.0, 1.5, 2.0])}
    if kind == "Gauss":
        return {"rho": rng.choice([0.0, 0.1, 0.5]), "sigma_init": np.array([rng.choice([0.1, 0.25, 0.5, 1.0]) for _ in range(d)]), "alpha": rng.choice([1e-10, 1e-3])}
    if kind == "Bayes":
        A = np.array([[rng.uniform(-0.3, 0.3) for _ in range(d)] for _ in range(d)])
        cov = A @ A.T + np.eye(d) * rng.choice([0.05, 0.2, 1.0])
        return {"rho": rng.choice([1e-4, 1e-2, 0.5, 5.0]), "cov_init": cov}
    if kind == "Quad":
        return {"rho": rng.choice([0.0, 0.3, 0.7]), "s_init": rng.choice([0.5, 1.0, 2.0]), "lr_b": rng.choice([0.1, 0.5, 1.0]), "lr_w": rng.choice([0.0, 0.1, 0.5]), "lr_s": rng.choice([0.0, 0.05, 0.5])}
    raise ValueError(kind)


def make(kind, p):
    import artlib
    cls = {"Fuzzy": artlib.FuzzyART, "ART1": artlib.ART1, "ART2A": artlib.ART2A, "Hyper": artlib.HypersphereART,
           "Ellip": artlib.EllipsoidART, "Gauss": artlib.GaussianART, "Bayes": artlib.BayesianART, "Quad": artlib.QuadraticNeuronART}[kind]
    return cls(**copy.deepcopy(p))


def gen_data(rng, kind, n, d):
    if kind == "ART1":
        X = np.array([[float(rng.randrange(2)) for _ in range(d)] for _ in range(n)])
        for r in X:
            if not r.any():
                r[rng.randrange(d)] = 1.0
        return X
    pool = [[rng.random() if rng.random() < 0.7 else rng.choice([0.0, 0.5, 1.0]) for _ in range(d)] for _ in range(max(2, n // 2))]
    X = np.array([rng.choice(pool) if rng.random() < 0.4 else [rng.random() for _ in range(d)] for _ in range(n)])
    if kind == "Fuzzy":
        X = np.hstack([X, 1.0 - X])
    return X


def kspec_coq(kind, p):
    if kind == "Fuzzy":
        return f"(FFuzzy {q(p['alpha'])} {q(p['beta'])})"
    if kind == "ART1":
        return f"(FART1 {q(p['L'])})"
    if kind == "ART2A":
        return f"(FART2A {q(p['alpha'])} {q(p['beta'])})"
    if kind == "Hyper":
        return f"(FHyper {q(p['alpha'])} {q(p['beta'])} {q(p['r_hat'])})"
    if kind == "Ellip":
        return f"(FEllip {q(p['alpha'])} {q(p['beta'])} {q(p['mu'])} {q(p['r_hat'])})"
    if kind == "Gauss":
        return f"(FGauss {qlist([float(v) for v in p['sigma_init']])} {q(p['alpha'])})"
    if kind == "Bayes":
        return f"(FBayes {qlist([float(v) for v in np.asarray(p['cov_init']).ravel()])})"
    if kind == "Quad":
        return f"(FQuad {q(p['s_init'])} {q(p['lr_b'])} {q(p['lr_w'])} {q(p['lr_s'])})"


def fin(v):
    v = float(v)
    return v if math.isfinite(v) else None


def finl(a):
    a = [float(v) for v in np.asarray(a, dtype=float).ravel()]
    return a if all(math.isfinite(v) for v in a) else None


def gen_call(rng):
    kind = rng.choice(KINDS)
    d = rng.choice([1, 2, 3]) if kind in ("Bayes", "Quad") else rng.choice([1, 2, 3, 4, 9])
    p = gen_params(rng, kind, d)
    est = make(kind, p)
    X = gen_data(rng, kind, rng.randrange(3, 12), d)
    try:
        with np.errstate(all="ignore"):
            est.fit(X)
    except Exception as e:
        return None
    if not all(np.all(np.isfinite(np.asarray(w, dtype=float))) for w in est.W):
        return None
    Ws = [np.array(w, dtype=float) for w in est.W]
    c = rng.randrange(len(Ws))
    how = rng.choice(["member", "fresh", "fresh", "centre", "on_centre"])
    if how == "on_centre":
        # the sample coincides with the current centre of the (possibly grown) category
        x = X[rng.randrange(len(X))].copy()
        try:
            if getattr(est, "d_max_", 0) is None:
                est.d_min_, est.d_max_ = np.zeros(1), np.ones(1)
            cen = np.asarray(est.get_cluster_centers()[c], dtype=float).ravel()
            row = np.concatenate([cen, 1.0 - cen]) if kind == "Fuzzy" else cen
            if kind != "ART1" and row.shape == x.shape and np.all(np.isfinite(row)):
                est.validate_data(row.reshape(1, -1))
                x = row
        except (AssertionError, NotImplementedError, ValueError, TypeError):
            pass
    elif how == "member":
        x = X[rng.randrange(len(X))].copy()
    elif how == "fresh":
        x = gen_data(rng, kind, 1, d)[0]
    else:
        x = X[[i for i in range(len(X)) if est.labels_[i] == c][0]].copy()
    return {"kind": kind, "p": p, "est": est, "Ws": Ws, "c": c, "x": x, "X": X}


def run_call(k):
    """calls the four public kernel functions; returns observations + purity report"""
    est, x, w = k["est"], k["x"], k["Ws"][k["c"]]
    before = (repr([np.asarray(a).tolist() for a in est.W]), repr(sorted((kk, repr(vv)) for kk, vv in est.params.items())),
              x.tobytes(), w.tobytes(), int(est.sample_counter_), list(est.weight_sample_counter_))
    out = {"T": None, "M": None, "U": None, "N": None, "bins": {}, "pure": True}
    est.W = [a for a in k["Ws"]]
    try:
        with np.errstate(all="ignore"):
            T, cache = est.category_choice(x, w, params=est.params)
            out["T"] = fin(T)
            cache0 = copy.deepcopy(cache)
            M, cache = est.match_criterion(x, w, params=est.params, cache=cache)
            out["M"] = fin(M)
            for mode, op in (("ge", operator.ge), ("gt", operator.gt)):
                mb, _ = est.match_criterion_bin(x, w, params=est.params, cache=copy.deepcopy(cache0), op=op)
                out["bins"][mode] = bool(mb)
            U = est.update(x, w, est.params, cache=cache)
            out["U"] = finl(U)
    except Exception as e:
        out["err"] = type(e).__name__ + ": " + str(e)[:80]
    try:
        with np.errstate(all="ignore"):
            out["N"] = finl(est.new_weight(x, est.params))
    except Exception as e:
        out["errN"] = type(e).__name__
    after = (repr([np.asarray(a).tolist() for a in est.W]), repr(sorted((kk, repr(vv)) for kk, vv in est.params.items())),
             x.tobytes(), w.tobytes(), int(est.sample_counter_), list(est.weight_sample_counter_))
    out["pure"] = before == after
    return out


def call_coq(k, out):
    def ol(v):
        return "None" if v is None else f"(Some {qlist(v)})"

    def oq(v):
        return "None" if v is None else f"(Some {q(v)})"
    return (f"(mkKcall {kspec_coq(k['kind'], k['p'])} {qmat([[float(v) for v in w] for w in k['Ws']])} "
            f"{qlist([float(v) for v in k['x']])} {qlist([float(v) for v in k['Ws'][k['c']]])} "
            f"{oq(out['T'])} {oq(out['M'])} {ol(out['U'])} {ol(out['N'])})")


def summary(k, out=None):
    s = {"kind": k["kind"], "params": {kk: (np.asarray(vv).tolist() if isinstance(vv, np.ndarray) else vv) for kk, vv in k["p"].items()},
         "W": [w.tolist() for w in k["Ws"]], "category": k["c"], "x": k["x"].tolist()}
    if out:
        s["observed"] = {kk: out[kk] for kk in ("T", "M", "U", "N", "bins")}
    return s

"""C16 - FALCON acts greedily on its learned reward map; TD targets are bounded SARSA.
Proof: props/C16.v.  Correspondence: (i) FALCON.fit / partial_fit leave
fusion_art in exactly the state of the FusionART model run on the joined
state|action|reward rows (RunFusion), (ii) TD_FALCON.calculate_SARSA vs the
Gallina sarsa_targets at exact rationals (RunFalcon), with Q taken from the
implementation's own get_rewards.  Failing-input search on the implementation:
get_rewards = reward-channel centre of the category predicted with the reward
channel withheld, get_action = first optimum over the supplied action space,
targets in [0,1] and complement-coded."""
import sys
from fractions import Fraction

import numpy as np

import common as C
import basefam as B
import fusfam as F
import flow
from common import q, qlist, qmat


def gen_falcon(rng, td=False):
    ks = []
    for ch in range(3):
        k = B.gen_fuzzy_kernel(rng)
        k["beta"] = Fraction(1)
        ks.append(k)
    ds = [rng.choice([1, 2]), 1, 1]
    n = rng.randrange(2, 11)
    S = B.grid_rows(rng, n, ds[0])
    A = B.grid_rows(rng, n, 1, pool=rng.choice([2, 3]))
    R = B.grid_rows(rng, n, 1, pool=rng.choice([2, 3, 4]))
    f = {"ks": ks, "gammas": [Fraction(1, 2), Fraction(1, 4), Fraction(1, 4)], "dims": [2 * ds[0], 2, 2],
         "X": [S[i] + A[i] + R[i] for i in range(n)]}
    return f, S, A, R


def make_falcon(f, td=None):
    import artlib
    mods = [B.make_est(k) for k in f["ks"]]
    for m, d in zip(mods, f["dims"]):
        m.d_min_, m.d_max_ = np.zeros(d // 2), np.ones(d // 2)
    g = [float(x) for x in f["gammas"]]
    if td is None:
        return artlib.FALCON(mods[0], mods[1], mods[2], gamma_values=g, channel_dims=list(f["dims"]))
    return artlib.TD_FALCON(mods[0], mods[1], mods[2], gamma_values=g, channel_dims=list(f["dims"]), td_alpha=float(td[0]), td_lambda=float(td[1]))


def arr(rows):
    return np.array(rows, dtype=float)


def oracle(fal, S, A, R, rep):
    fails = []
    fus = fal.fusion_art

    def f(sig, what):
        fails.append({"signature": f"FALCON/{sig}", "text": what, "replay": rep})
    Sx, Ax = arr(S), arr(A)
    try:
        got = fal.get_rewards(Sx, Ax)
        data = fus.join_channel_data([Sx, Ax], skip_channels=[2])
        Cp = fus.predict(data, skip_channels=[2])
        # the reference is the reward module's own current centres (not FusionART's accessor, which FALCON itself uses)
        cen = fus.modules[2].get_cluster_centers()
        if not all(np.array_equal(got[i], cen[int(Cp[i])]) for i in range(len(Cp))):
            f("get_rewards", "get_rewards is not the reward-channel centre of the category predicted with the reward channel withheld")
        # greedy action over a supplied action space (raw actions in [0,1]; the action module has unit bounds)
        space = np.array([[0.0], [0.25], [0.5], [0.75], [1.0], [0.5]])
        for s in Sx[:3]:
            for opt in ("max", "min"):
                a = fal.get_action(s, action_space=space.copy(), optimality=opt)
                _, rw = fal.get_actions_and_rewards(s, action_space=space.copy())
                rw_full = np.asarray(rw).reshape(len(space), -1)
                rw = rw_full[:, 0]
                # the predicted reward of (s, a) is the reward-channel centre of the category selected with the
                # reward channel withheld - computed here through FusionART's own partial-channel prediction
                for ai, araw in enumerate(space):
                    aprep = np.array([[float(araw[0]), 1.0 - float(araw[0])]])
                    dj = fus.join_channel_data([s.reshape(1, -1), aprep], skip_channels=[2])
                    cj = int(fus.predict(dj, skip_channels=[2])[0])
                    if not np.array_equal(rw_full[ai], np.asarray(cen[cj]).ravel()):
                        f("get_action", f"predicted reward of action {float(araw[0])} is {rw_full[ai].tolist()}, the reward centre of the category "
                          f"selected with the reward channel withheld is {np.asarray(cen[cj]).ravel().tolist()}")
                        break
                want = int(np.argmax(rw)) if opt == "max" else int(np.argmin(rw))
                best = rw.max() if opt == "max" else rw.min()
                first = [i for i in range(len(rw)) if rw[i] == best][0]
                if want != first or not np.array_equal(a, space[first]):
                    f("get_action", f"get_action({opt}) is not the first optimum of the predicted rewards")
        # no action space supplied: the documented default is the set of learned action centres
        dflt = np.array(fus.get_channel_centers(1))
        for s in Sx[:2]:
            for opt in ("max", "min"):
                a0 = fal.get_action(s, optimality=opt)
                a1 = fal.get_action(s, action_space=dflt.copy(), optimality=opt)
                if not np.array_equal(np.asarray(a0), np.asarray(a1)):
                    f("get_action", f"get_action({opt}) without an action space returns {np.asarray(a0).tolist()}, with the learned action centres supplied {np.asarray(a1).tolist()}")
    except Exception as e:
        f("raises", f"{type(e).__name__}: {str(e)[:80]}")
    return fails


def main():
    tier = sys.argv[1] if len(sys.argv) > 1 else "quick"
    seed = C.seed_from_env()
    v = C.Verdict("C16", tier, seed)
    gate_ok, ob = C.proof_gate(v, "C16.v")
    rng = C.make_rng(seed, "C16")
    n = 200 if tier == "quick" else 2000
    fstrs, fsumm, sstrs, ssumm, fails = [], [], [], [], []
    s2strs, s2summ = [], []
    nontriv, hashes = 0, set()
    for _ in range(n):
        f, S, A, R = gen_falcon(rng)
        # (i) FALCON training = FusionART on the joined rows
        fal = make_falcon(f)
        h = max(1, len(S) // 2)
        plan = rng.choice(["fit", "pf"])
        ops = []
        try:
            if plan == "fit":
                fal.fit(arr(S), arr(A), arr(R))
                ops = [{"op": "fit", "X": f["X"], "mode": "MT+", "eps": Fraction(0), "veto": None}]
            else:
                fal.partial_fit(arr(S[:h]), arr(A[:h]), arr(R[:h]))
                fal.partial_fit(arr(S[h:] or S[:1]), arr(A[h:] or A[:1]), arr(R[h:] or R[:1]))
                ops = [{"op": "partial_fit", "X": f["X"][:h], "mode": "MT+", "eps": Fraction(0), "veto": None},
                       {"op": "partial_fit", "X": f["X"][h:] or f["X"][:1], "mode": "MT+", "eps": Fraction(0), "veto": None}]
            obs = [{"ok": True, "logs": [], "ret": [], "snap": None} for _ in ops]
            obs[-1]["snap"] = B.snapshot(fal.fusion_art)
            # intermediate snapshot for the two-batch plan: re-drive a twin
            if plan == "pf":
                tw = make_falcon(f)
                tw.partial_fit(arr(S[:h]), arr(A[:h]), arr(R[:h]))
                obs[0]["snap"] = B.snapshot(tw.fusion_art)
            fstrs.append(F.fcase_coq(f, ops, obs))
            s = F.summary_f(f, ops)
            s["estimator"] = "FALCON"
            fsumm.append(s)
            hh = C.case_hash(s)
            if len(obs[-1]["snap"]["W"]) >= 2 and hh not in hashes:
                nontriv += 1
            hashes.add(hh)
            fails.extend(oracle(fal, S, A, R, s))
        except Exception as e:
            fails.append({"signature": "FALCON/raises", "text": f"{type(e).__name__}: {str(e)[:80]}", "replay": F.summary_f(f, ops)})
        # (ii) TD-FALCON SARSA targets over several episodes
        al, la = rng.choice([Fraction(1), Fraction(1, 2), Fraction(1, 4), Fraction(0)]), rng.choice([Fraction(1), Fraction(1, 2), Fraction(0)])
        td = make_falcon(f, td=(al, la))
        try:
            for ep in range(rng.choice([1, 2, 3, 4])):
                idx = [rng.randrange(len(S)) for _ in range(rng.randrange(2, 7))]
                # replayed state/action pairs may come with other rewards than before (existing categories are re-learned)
                ridx = [rng.randrange(len(S)) if rng.random() < 0.4 else i for i in idx]
                Se, Ae, Re = arr([S[i] for i in idx]), arr([A[i] for i in idx]), arr([R[i] for i in ridx])
                trained = hasattr(td.fusion_art.modules[0], "W")
                Qv = td.get_rewards(Se, Ae) if trained else np.zeros((len(idx), 1))
                sf, af, rf = td.calculate_SARSA(Se, Ae, Re)
                rfl = [[float(x) for x in row] for row in rf]
                if any(not (0.0 <= x <= 1.0) for row in rfl for x in row) or any(abs(sum(row) - 1.0) > 1e-12 for row in rfl) or len(rfl) != len(idx) - 1:
                    fails.append({"signature": "TD_FALCON/targets-valid", "text": "SARSA targets are not complement-coded values in [0,1] for all but the last transition",
                                  "replay": {"alpha": str(al), "lambda": str(la), "idx": idx}})
                Ql = [float(np.asarray(x).ravel()[0]) for x in Qv]
                # the published rule on the implementation's own Q values: clip(Q + alpha (r + lambda Q' - Q), 0, 1)
                for t in range(len(idx) - 1):
                    want = min(1.0, max(0.0, Ql[t] + float(al) * (float(Re[t][0]) + float(la) * Ql[t + 1] - Ql[t])))
                    if t < len(rfl) and abs(rfl[t][0] - want) > 1e-9:
                        fails.append({"signature": "TD_FALCON/sarsa-target", "text": f"transition {t}: target {rfl[t][0]} but clip(Q+alpha(r+lambda Q'-Q)) = {want}",
                                      "replay": {"td_alpha": str(al), "td_lambda": str(la), "Q": Ql, "rewards": Re.tolist(), "targets": rfl, "episode": ep, "trained": bool(trained),
                                                 "falcon": {k: str(vv) for k, vv in f.items() if k != "X"}}})
                        break
                sstrs.append(f"(mkScall {q(al)} {q(la)} {qlist(Ql)} {qmat([[float(x) for x in r] for r in Re])} {qmat(rfl)})")
                ssumm.append({"td_alpha": str(al), "td_lambda": str(la), "Q": Ql, "rewards": Re.tolist(), "targets": rfl})
                td.partial_fit(Se, Ae, Re)
                # the reward map read after every episode is the one just learned
                fails.extend(oracle(td, [S[i] for i in idx], [A[i] for i in idx], None,
                                    {"estimator": "TD_FALCON", "td_alpha": str(al), "td_lambda": str(la), "episode": ep,
                                     "falcon": {k: str(vv) for k, vv in f.items()}, "episode_rows": idx, "episode_reward_rows": ridx}))
        except Exception as e:
            fails.append({"signature": "TD_FALCON/raises", "text": f"{type(e).__name__}: {str(e)[:80]}", "replay": {"alpha": str(al), "lambda": str(la)}})
        # (iii) whole calculate_SARSA calls with episodes of EVERY length >= 1 (one-step episodes with and without
        # single_sample_reward), untrained and after earlier episodes; the targets must be valid reward rows and the
        # episode must train
        td2 = make_falcon(f, td=(al, la))
        try:
            for ep in range(rng.choice([1, 2, 3])):
                ln = rng.choice([1, 1, 1, 2, 3])
                idx = [rng.randrange(len(S)) for _ in range(ln)]
                Se, Ae, Re = arr([S[i] for i in idx]), arr([A[i] for i in idx]), arr([R[i] for i in idx])
                single = rng.choice([None, None, 0.0, 0.25, 1.0, 0.625]) if ln == 1 else None
                trained = hasattr(td2.fusion_art.modules[0], "W")
                Qv = td2.get_rewards(Se, Ae) if (trained and ln > 1) else np.zeros((ln, 1))
                Ql = [float(np.asarray(x).ravel()[0]) for x in Qv]
                sf, af, rf = td2.calculate_SARSA(Se, Ae, Re, single_sample_reward=single)
                rfl = [[float(x) for x in row] for row in np.asarray(rf)]
                rp = {"td_alpha": str(al), "td_lambda": str(la), "episode": ep, "episode_rows": idx, "single_sample_reward": single,
                      "rewards": Re.tolist(), "targets": rfl, "falcon": {k: str(vv) for k, vv in f.items() if k != "X"}}
                if len(sf) != len(rfl) or len(af) != len(rfl) or len(rfl) != max(1, ln - 1):
                    fails.append({"signature": "TD_FALCON/targets-valid", "text": f"episode of {ln} step(s): {len(sf)} states, {len(af)} actions, {len(rfl)} targets", "replay": rp})
                if any(not (0.0 <= x <= 1.0) for row in rfl for x in row) or any(len(row) != 2 or abs(sum(row) - 1.0) > 1e-12 for row in rfl):
                    fails.append({"signature": "TD_FALCON/targets-valid", "text": f"episode of {ln} step(s): a target is not a complement-coded value in [0,1]", "replay": rp})
                if ln == 1:
                    want = [[single, 1.0 - single]] if single is not None else Re.tolist()
                    if rfl != want:
                        fails.append({"signature": "TD_FALCON/sarsa-target", "text": f"one-step episode: target {rfl}, expected {want} (the reward alone)", "replay": rp})
                s2strs.append(f"(mkScall2 {q(al)} {q(la)} {qlist(Ql)} {qmat([[float(x) for x in r] for r in Re])} "
                              + ("None" if single is None else f"(Some {q(Fraction(single))})") + f" {len(sf)}%nat {qmat(rfl)})")
                s2summ.append(rp)
                n_before = td2.fusion_art.n_clusters if trained else 0
                td2.partial_fit(Se, Ae, Re, single_sample_reward=single)
                if len(td2.fusion_art.labels_) < len(rfl) or td2.fusion_art.n_clusters < max(1, n_before):
                    fails.append({"signature": "TD_FALCON/raises", "text": "the episode did not train", "replay": rp})
                fails.extend(oracle(td2, [S[i] for i in idx], [A[i] for i in idx], None,
                                    {"estimator": "TD_FALCON", "td_alpha": str(al), "td_lambda": str(la), "episode": ep, "single_sample_reward": single,
                                     "falcon": {k: str(vv) for k, vv in f.items()}, "episode_rows": idx}))
        except Exception as e:
            fails.append({"signature": "TD_FALCON/raises", "text": f"{type(e).__name__}: {str(e)[:80]}",
                          "replay": {"td_alpha": str(al), "td_lambda": str(la), "one-step episodes": True, "falcon": {k: str(vv) for k, vv in f.items()}}})
    codes, bad = flow.coq_corr("C16", "RunFusion", fstrs, shard=60, check_fn="fcheck", extra_imports="From ARTcorr Require Import RunBase.\n")
    scodes, sbad = flow.coq_corr("C16s", "RunFalcon", sstrs, shard=200, check_fn="sacheck")
    s2codes, s2bad = flow.coq_corr("C16t", "RunFalcon", s2strs, shard=200, check_fn="sacheck2")
    scodes, ssumm = scodes + s2codes, ssumm + s2summ
    for b in bad + sbad + s2bad:
        v.notes.append("coq shard failed: " + b[-600:])
    flow.decide(v, "C16", gate_ok, ob, list(zip(codes, fsumm)) + list(zip(scodes, ssumm)), fails, None)
    v.cov.update({
        "evaluations": len(fstrs) + len(sstrs) + len(s2strs), "whole_calculate_SARSA_calls": len(s2strs),
        "one_step_episodes": sum(1 for r in s2summ if len(r["rewards"]) == 1), "distinct_nontrivial": nontriv + len(set(C.case_hash(s) for s in ssumm)),
        "rule": "grid trajectories in the unit cube (1-2 state dims, 1 action dim, 1 reward dim, complement-coded), FALCON fit / two partial_fit episodes; "
                "TD-FALCON with td_alpha in {0,1/4,1/2,1}, td_lambda in {0,1/2,1}, 1-4 episodes of 2-6 steps (untrained and trained), plus 1-3 episodes of 1-3 steps (one-step episodes with and without single_sample_reward) against calc_sarsa; "
                "non-trivial = distinct FALCON model with >= 2 categories or distinct SARSA call",
        "traces_validated_against_impl": sum(1 for x in codes + scodes if x == 0),
        "samples": fsumm[:1] + ssumm[:1]})
    v.assumptions = ["reward / action modules are Fuzzy ART (the configuration TD-FALCON's complement-coded targets are made for)",
                     "get_action is stated for 1-D reward centres"]
    sys.exit(v.finish())


if __name__ == "__main__":
    main()

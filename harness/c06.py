"""C06 - the result depends only on hyper-parameters and the ordered stream.
Proof: props/C06.v (partial_fit batching = fit on the concatenation, fit
forgets history; axiom-free, every kernel).  Correspondence: RunBase on
histories.  Failing-input search: relations between two real runs (batched vs
one fit; re-fit vs fresh; with vs without interleaved read-only operations)
on elementary and compound estimators."""
import copy
import pickle
import sys

import numpy as np

import common as C
import basefam as B
import histfam as H
import zoo


def snap_cmp(a, b, keys=("W", "labels", "wsc", "sc", "rho")):
    for k in keys:
        if a[k] != b[k]:
            return k
    return None


def drive(k, ops, readonly_at=()):
    est = B.make_est(k)
    for i, o in enumerate(ops):
        X = np.array(o["X"], dtype=float)
        veto = None
        if o.get("veto") and o["op"] != "predict":
            keys, _ = B.row_keys(np.array(o["allX"], dtype=float)) if "allX" in o else B.row_keys(X)
            veto = B.Veto(est, o["veto"]["tbl"], o["veto"]["a"], o["veto"]["b"], keys)
        if o["op"] == "fit":
            est.fit(X, match_reset_func=veto, match_tracking=o["mode"], epsilon=float(o["eps"]))
        elif o["op"] == "partial_fit":
            est.partial_fit(X, match_reset_func=veto, match_tracking=o["mode"], epsilon=float(o["eps"]))
        if i in readonly_at:
            est.predict(X)
            est.get_params()
            est = pickle.loads(pickle.dumps(est)) if i % 2 else copy.deepcopy(est)
    return est


def oracle(k, ops):
    """k, ops from gen: a stream split into batches (ops all partial_fit) or a history ending in fit"""
    fails = []
    train = [o for o in ops if o["op"] != "predict"]
    if not train:
        return fails
    rows = [r for o in train for r in o["X"]]
    mode, eps, veto = train[0]["mode"], train[0]["eps"], train[0].get("veto")

    def rep(what, sig):
        return {"signature": f"{k['kind']}/{sig}", "text": what, "replay": dict(B.summary(k, ops), relation=sig)}
    try:
        # (a) batches vs one fit on the concatenation (reset function keyed on the whole stream)
        bat = [dict(o, op="partial_fit", allX=rows) for o in train]
        one = [{"op": "fit", "X": rows, "mode": mode, "eps": eps, "veto": veto}]
        e1, e2 = drive(k, bat), drive(k, one)
        d = snap_cmp(B.snapshot(e1), B.snapshot(e2))
        if d:
            fails.append(rep(f"partial_fit batches and one fit on the concatenation differ in {d}", "batches-vs-fit"))
        # (b) re-fit after a history vs fresh fit
        e3 = drive(k, bat + one)
        d = snap_cmp(B.snapshot(e3), B.snapshot(e2))
        if d:
            fails.append(rep(f"fit on a used estimator differs from a fresh one in {d}", "refit-vs-fresh"))
        # (c) read-only operations interleaved
        e4 = drive(k, bat, readonly_at=set(range(len(bat))))
        d = snap_cmp(B.snapshot(e4), B.snapshot(e1))
        if d:
            fails.append(rep(f"interleaved predict/get_params/copy/pickle changed {d}", "readonly-interleaving"))
    except Exception as e:
        pass        # totality is C04's business
    return fails


# ---------------------------------------------------------------- compound estimators
def zoo_oracle(rng, n):
    fails, cnt = [], 0
    for _ in range(n):
        name = rng.choice([x for x in zoo.ALL_NAMES if x not in ("CVIART", "iCVIFuzzy")]
                          + ["SimpleARTMAP", "ARTMAP", "DeepSup", "DeepUnsup", "SMART"] + zoo.NESTED_NAMES)
        seed = rng.randrange(10 ** 9)

        def build():
            r = C.make_rng(seed, "zoo")
            z = zoo.make(name, r)
            X, y = z["gen"](r.randrange(3, 12))
            return z, X, y
        z, X, y = build()
        n_rows = zoo.nrows(X)
        idx = list(range(n_rows))
        batches = B.split_batches(rng, idx, rng.randrange(2, 4))
        mode = rng.choice(B.MODES)
        eps = rng.choice([0.0, 0.0, 1 / 1024, 0.0625, 0.25])
        cnt += 1

        def run(plan, readonly=False):
            z2, X2, y2 = build()
            est = z2["est"]
            for op, ix in plan:
                if op == "fit" and not z2.get("fit_ok", True):
                    op = "partial_fit"
                zoo.call(est, op, zoo.take(X2, ix), None if y2 is None else np.asarray(y2)[ix], mode, eps)
                if readonly:
                    try:
                        est.get_params()
                    except Exception:
                        pass
                    est = copy.deepcopy(est)
            return zoo.canon(est)

        def rep(what, sig, plan):
            return {"signature": f"{name}/{sig}", "text": f"{name}: {what}",
                    "replay": {"estimator": name, "zoo_seed": seed, "plan": plan, "mode": mode, "eps": eps, "relation": sig}}
        try:
            a = run([("fit", idx)])
        except Exception as e:
            continue
        if z["pf"] and name != "TDFALCON":
            plan = [("partial_fit", b) for b in batches]
            try:
                b_ = run(plan)
                if b_ != a:
                    diff = first_diff(a, b_)
                    sig = "batches-vs-fit"
                    if name == "Topo" and n_rows >= z["est"].params["tau"]:
                        # a pruning round is due within the stream: partial_fit never calls the pruning hook
                        sig = "partial_fit-never-prunes"
                    fails.append(rep(f"partial_fit batches differ from one fit ({diff})", sig, plan))
            except Exception as e:
                fails.append(rep(f"partial_fit batches raise {type(e).__name__}: {str(e)[:80]}", "batches-raise", plan))
        if z.get("fit_ok", True):
            plan = [("fit", list(reversed(idx))[: max(2, n_rows // 2)]), ("fit", idx)]
            try:
                c_ = run(plan)
                if c_ != a:
                    fails.append(rep(f"re-fit differs from a fresh fit ({first_diff(a, c_)})", "refit-vs-fresh", plan))
            except Exception as e:
                fails.append(rep(f"re-fit raises {type(e).__name__}: {str(e)[:80]}", "refit-raise", plan))
        try:
            d_ = run([("fit", idx)], readonly=True)
            if d_ != a:
                fails.append(rep(f"get_params/deepcopy after fit changed the model ({first_diff(a, d_)})", "readonly-interleaving", [("fit", idx)]))
        except Exception as e:
            fails.append(rep(f"read-only operations raise {type(e).__name__}: {str(e)[:80]}", "readonly-raise", []))
    return fails, cnt


def first_diff(a, b, path=""):
    if type(a) != type(b):
        return path
    if isinstance(a, dict):
        for k in sorted(set(a) | set(b), key=str):
            if a.get(k) != b.get(k):
                return first_diff(a.get(k), b.get(k), f"{path}.{k}")
    if isinstance(a, list) and len(a) == len(b):
        for i, (x, y) in enumerate(zip(a, b)):
            if x != y:
                return first_diff(x, y, f"{path}[{i}]")
    return path


def gen(rng):
    k, ops = H.gen_history(rng, allow_predict=True)
    return k, ops


def main():
    tier = sys.argv[1] if len(sys.argv) > 1 else "quick"
    seed = C.seed_from_env()
    v = H.run_family("C06", tier, seed, 400, 4000, gen, oracle,
                     "random histories (all compositions styles: one fit, 1-4 partial_fit batches, size-1 batches, re-fits, interleaved predict) on grid data; "
                     "relations checked on the implementation: batches vs one fit, re-fit vs fresh, read-only interleaving; non-trivial = distinct history reaching >= 2 categories",
                     ["exact-rational kernels", "single-epoch calls"])
    zf, zn = zoo_oracle(C.make_rng(seed, "C06-zoo"), 320 if tier == "quick" else 3200)
    for f in zf:
        kf = C.match_known("C06", f["signature"])
        if kf is not None:
            v.known(f["signature"], kf.get("text", f["signature"]))
        else:
            v.violation(dict(f["replay"], property="C06", signature=f["signature"], what=f["text"]))
    v.cov["compound_estimator_cases"] = zn
    sys.exit(v.finish())


if __name__ == "__main__":
    main()

"""C07 - hyper-parameters are invariant under learning.
Proof: props/C07.v (the vigilance written by match tracking is restored on
every exit path of a training step; fit/partial_fit preserve it; axiom-free).
Correspondence: RunBase compares params and the vigilance-in-force log after
every call.  Failing-input search: every params dict of the estimator and of
every nested module, before vs after each call, on the implementation."""
import sys

import numpy as np

import common as C
import basefam as B
import histfam as H
import zoo


def oracle(k, ops):
    fails = []
    est = B.make_est(k)
    for i, o in enumerate(ops):
        X = np.array(o["X"], dtype=float)
        before = zoo.all_params(est)
        try:
            if o["op"] == "predict":
                est.predict(X)
            else:
                veto = None
                if o.get("veto"):
                    keys, _ = B.row_keys(X)
                    veto = B.Veto(est, o["veto"]["tbl"], o["veto"]["a"], o["veto"]["b"], keys)
                getattr(est, o["op"])(X, match_reset_func=veto, match_tracking=o["mode"], epsilon=float(o["eps"]))
        except Exception:
            return fails
        after = zoo.all_params(est)
        if before != after:
            fails.append({"signature": f"{type(est).__name__}.{o['op']}/params", "text": f"params changed by {o['op']}: {before} -> {after}",
                          "replay": dict(B.summary(k, ops), failing_op=i, check="params-invariant")})
            return fails
    return fails


def zoo_oracle(rng, n):
    fails, cnt = [], 0
    for _ in range(n):
        name = rng.choice(zoo.ALL_NAMES + zoo.NESTED_NAMES + ["DualVigilance", "Topo", "Fusion"])
        z, X, y, ops, mode, eps = zoo.gen_zoo_history(rng, name, veto_ok=True)
        est = z["est"]
        cnt += 1
        for i, (op, ix) in enumerate(ops + [("predict", ops[-1][1])]):
            if op == "fit" and not z.get("fit_ok", True):
                op = "partial_fit"
            before = zoo.all_params(est)
            try:
                if op == "predict":
                    if hasattr(est, "predict"):
                        xs = zoo.take(X, ix)
                        est.predict(xs)
                else:
                    zoo.call(est, op, zoo.take(X, ix), None if y is None else np.asarray(y)[ix], mode, eps, veto=z.get("veto"))
            except Exception:
                break
            after = zoo.all_params(est)
            # modules reachable through new paths (DeepARTMAP creates its layers in fit) are the same objects;
            # compare the paths that exist before and after
            after = {p: after[p] for p in after if p in before}
            before = {p: before[p] for p in before if p in after}
            if before != after:
                d = [p for p in after if before.get(p) != after.get(p)]
                fails.append({"signature": f"{name}.{op}/params", "text": f"{name}: {op} changed params of {d}: {before.get(d[0]) if d else ''} -> {after.get(d[0]) if d else ''}",
                              "replay": zoo.describe(name, z, X, y, ops, mode, eps, i)})
                break
    return fails, cnt


def main():
    tier = sys.argv[1] if len(sys.argv) > 1 else "quick"
    seed = C.seed_from_env()
    v = H.run_family("C07", tier, seed, 500, 5000, lambda r: H.gen_history(r, allow_predict=True), oracle,
                     "random histories of fit/partial_fit/predict calls with table reset functions forcing vetoes on every exit path "
                     "(resonance, new category, abandoned search under MT1), 5 modes x 4 epsilons; non-trivial = distinct history reaching >= 2 categories",
                     ["exceptions thrown by a user reset function mid-search are outside the property"])
    zf, zn = zoo_oracle(C.make_rng(seed, "C07-zoo"), 400 if tier == "quick" else 4000)
    for f in zf:
        kf = C.match_known("C07", f["signature"])
        if kf is not None:
            v.known(f["signature"], kf.get("text", f["signature"]))
        else:
            v.violation(dict(f["replay"], property="C07", signature=f["signature"], what=f["text"]))
    v.cov["compound_estimator_histories"] = zn
    sys.exit(v.finish())


if __name__ == "__main__":
    main()

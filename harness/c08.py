"""C08 - prediction is a pure, row-wise arg-max of activation.
Proof: props/C08.v.  Correspondence: RunBase OpPredict (labels returned and
the full snapshot after the call).  Failing-input search on the
implementation: arg-max of its own activations (oldest on ties), permutation /
batching / repetition invariance, range, model unchanged."""
import sys
import contextlib
import io

import numpy as np

import common as C
import basefam as B
import histfam as H
import zoo


def gen(rng):
    k, ops = H.gen_history(rng, allow_predict=False)
    rows = [r for o in ops for r in o["X"]]
    q = [list(rng.choice(rows)) for _ in range(rng.randrange(1, 7))]
    if rng.random() < 0.5:
        q += B.gen_kernel_and_rows(rng, k["kind"], nmax=5)[1][:3] if len(rows[0]) == len(B.gen_kernel_and_rows(C.make_rng(0, "x"), k["kind"], nmax=5)[1][0]) else []
    q = [r for r in q if len(r) == len(rows[0])]
    ops = ops + [{"op": "predict", "X": q}]
    return k, ops


def oracle(k, ops):
    fails = []
    est = B.make_est(k)

    def rep(what, sig):
        return {"signature": f"{type(est).__name__}.predict/{sig}", "text": what, "replay": dict(B.summary(k, ops), check=sig)}
    try:
        for o in ops[:-1]:
            X = np.array(o["X"], dtype=float)
            veto = None
            if o.get("veto"):
                keys, _ = B.row_keys(X)
                veto = B.Veto(est, o["veto"]["tbl"], o["veto"]["a"], o["veto"]["b"], keys)
            getattr(est, o["op"])(X, match_reset_func=veto, match_tracking=o["mode"], epsilon=float(o["eps"]))
        Q = np.array(ops[-1]["X"], dtype=float)
        before = strip(zoo.canon(est))
        y = est.predict(Q)
        after = strip(zoo.canon(est))
    except Exception:
        return fails
    if before != after:
        fails.append(rep("predict altered the model: " + str(c06_first_diff(before, after)), "pure"))
    for i, x in enumerate(Q):
        T = [float(est.category_choice(x, w, params=est.params)[0]) for w in est.W]
        want = first_max(T)
        if int(y[i]) != want:
            fails.append(rep(f"row {i}: predicted {int(y[i])}, oldest maximiser of the activations is {want}", "argmax"))
            break
        if not (0 <= int(y[i]) < est.n_clusters):
            fails.append(rep("label outside the trained range", "range"))
    perm = np.random.RandomState(len(Q)).permutation(len(Q))
    if list(est.predict(Q[perm])) != list(np.asarray(y)[perm]):
        fails.append(rep("predict is not invariant under row permutation", "perm"))
    if len(Q) >= 2:
        h = len(Q) // 2
        if list(est.predict(Q[:h])) + list(est.predict(Q[h:])) != list(y):
            fails.append(rep("predict is not invariant under batching", "batching"))
    if list(est.predict(np.vstack([Q, Q]))) != list(y) + list(y):
        fails.append(rep("predict is not invariant under repetition", "repeat"))
    return fails


def strip(c):
    """the fitted flag is not part of the compared snapshot; everything else in __dict__ is (weights, labels, maps, parameters, counters, remembered widths)"""
    if isinstance(c, dict):
        return {k: strip(v) for k, v in c.items() if k not in ("is_fitted_",)}
    if isinstance(c, list):
        return [strip(x) for x in c]
    return c


def c06_first_diff(a, b):
    import c06
    return c06.first_diff(a, b)


def first_argmax_labels(mod, Xq):
    """for each row the OLDEST category of maximal activation, from the module's own category_choice
    (carried through the cluster map for DualVigilanceART); None when the module has no such interface"""
    base = getattr(mod, "base_module", None)
    m = base if (base is not None and type(mod).__name__ == "DualVigilanceART") else mod
    if not hasattr(m, "category_choice") or not hasattr(m, "W") or len(m.W) == 0:
        return None
    out = []
    for x in np.asarray(Xq, dtype=float):
        T = [float(m.category_choice(x, w, params=m.params)[0]) for w in m.W]
        c = first_max(T)
        out.append(int(mod.map[c]) if m is not mod else c)
    return out


def first_max(T):
    """the oldest category of maximal activation; an undefined (NaN) activation is not a maximum"""
    T = np.asarray(T, dtype=float)
    if np.all(np.isnan(T)):
        return 0
    return int(np.nanargmax(T))


def module_oracle(rng):
    """every elementary module, also where activations degenerate (wide BayesianART: det(cov) underflows, far categories
    get 0/0), rows in any container dtype (whole-number data as bool / uint8 / int8 / int64 / float32), and modules
    trained inside a wrapper (TopoART as A side or as a FusionART channel): predict is pure and returns the oldest
    category of maximal activation computed from the module's own category_choice on float rows"""
    import artlib
    import kernfam
    what = rng.choice(["dtype", "dtype", "bayes-wide", "nested-topo"])
    try:
        if what == "dtype":
            kind = rng.choice(["ART2A", "ART2A", "ART1", "Fuzzy", "Hyper", "Gauss"])
            d = rng.choice([3, 6, 300]) if kind == "ART2A" else rng.choice([2, 3])
            p = kernfam.gen_params(rng, kind, d)
            if kind == "ART2A":
                p = {"rho": rng.choice([0.0, 0.3]), "alpha": 0.0, "beta": rng.choice([1.0, 0.5])}
            if kind == "ART1" and p["L"] == 1.0:
                p["L"] = 2.0
            if kind in ("Fuzzy", "Hyper") and p["alpha"] == 0.0:
                p["alpha"] = 1e-3
            n = rng.randrange(4, 10)
            dens = rng.choice([0.3, 0.6, 0.9])
            raw = np.array([[1 if rng.random() < dens else 0 for _ in range(d)] for _ in range(n)])
            for r in raw:
                if not r.any():
                    r[rng.randrange(d)] = 1
            Xi = np.hstack([raw, 1 - raw]) if kind == "Fuzzy" else raw
            dt = rng.choice([bool, np.uint8, np.int8, np.int64, np.float32])
            ref = kernfam.make(kind, p); ref.fit(Xi.astype(float))
            est = kernfam.make(kind, p); est.fit(Xi.astype(dt))
            rep = {"module": kind, "params": {k_: (np.asarray(v_).tolist() if isinstance(v_, np.ndarray) else v_) for k_, v_ in p.items()}, "X": Xi.tolist() if d < 50 else f"{n}x{d} binary rows", "dtype": np.dtype(dt).name}
            if [int(v) for v in est.labels_] != [int(v) for v in ref.labels_]:
                return {"signature": f"{kind}.predict/input-dtype", "text": f"rows given as {np.dtype(dt).name} are clustered {[int(v) for v in est.labels_]}, the same values as float64 {[int(v) for v in ref.labels_]}", "replay": rep}
            pq, pr = [int(v) for v in est.predict(Xi.astype(dt))], [int(v) for v in ref.predict(Xi.astype(float))]
            if pq != pr:
                return {"signature": f"{kind}.predict/input-dtype", "text": f"queries given as {np.dtype(dt).name} are labelled {pq}, the same values as float64 {pr}", "replay": rep}
            want = first_argmax_labels(ref, Xi.astype(float))
            if want is not None and pr != want:
                return {"signature": f"{kind}.predict/argmax", "text": f"predict {pr} is not the oldest arg-max of activation {want}", "replay": rep}
        elif what == "bayes-wide":
            d = rng.choice([81, 90, 120])
            n = rng.randrange(6, 13)
            X = np.array([[rng.random() for _ in range(d)] for _ in range(n)])
            est = artlib.BayesianART(rho=rng.choice([1e-4, 1.0]), cov_init=1e-4 * np.eye(d))
            with np.errstate(all="ignore"):
                est.fit(X)
                before = strip(zoo.canon(est))
                got = [int(v) for v in est.predict(X)]
                after = strip(zoo.canon(est))
                want = first_argmax_labels(est, X)
            rep = {"module": "BayesianART", "cov_init": "1e-4 * I", "width": d, "rows": n, "seeded_rows": "uniform [0,1)", "how": "fit(X); predict(X)"}
            if before != after:
                return {"signature": "BayesianART.predict/pure", "text": "predict altered the model", "replay": rep}
            if got != want:
                return {"signature": "BayesianART.predict/argmax", "text": f"predict {got}, the oldest category of maximal (defined) activation per row is {want}", "replay": rep}
        else:
            d = rng.choice([1, 2])
            n = rng.randrange(5, 12)
            X = zoo.cc_rows(rng, n, d)
            with contextlib.redirect_stdout(io.StringIO()):
                topo = artlib.TopoART(artlib.FuzzyART(rng.choice([0.25, 0.5, 0.75]), 1e-3, 1.0), beta_lower=0.5, tau=1000, phi=1)
                if rng.random() < 0.5:
                    est = artlib.SimpleARTMAP(topo); est.fit(X, np.array([rng.randrange(2) for _ in range(n)])); Q = X[:4]
                else:
                    est = artlib.FusionART([topo, artlib.FuzzyART(0.5, 1e-3, 1.0)], [0.5, 0.5], [2 * d, 2 * d]); est.fit(np.hstack([X, X])); Q = np.hstack([X, X])[:4]
                before = strip(zoo.canon(est))
                est.predict(Q)
                topo.predict(X[:4])          # the module trained inside the wrapper is a trained model of its own
                after = strip(zoo.canon(est))
            if before != after:
                return {"signature": f"{type(est).__name__}(TopoART).predict/pure", "text": "predict altered the model: " + str(c06_first_diff(before, after)),
                        "replay": {"estimator": type(est).__name__ + " over TopoART(FuzzyART), tau=1000 (no pruning)", "X": np.asarray(X).tolist()}}
    except Exception:
        return None
    return None


def zoo_oracle(rng, n):
    """compound estimators: purity, permutation/batching invariance, range (through the label maps)"""
    fails, cnt = [], 0
    for _ in range(n):
        name = rng.choice(["Fusion", "DualVigilance", "Topo", "CVIART", "iCVIFuzzy", "SimpleARTMAP", "ARTMAP", "DeepSup", "DeepUnsup", "SMART",
                           "SAM_Fusion", "SAM_DV", "SAM_Fusion", "Fusion"])
        z, X, y, ops, mode, eps = zoo.gen_zoo_history(rng, name)
        est = z["est"]
        try:
            for op, ix in ops:
                zoo.call(est, op, zoo.take(X, ix), None if y is None else np.asarray(y)[ix], mode, eps)
            nq = zoo.nrows(X)
            qi = [rng.randrange(nq) for _ in range(rng.randrange(1, 6))]
            Q = zoo.take(X, qi)
            if name == "SMART":
                Qp = Q
            before = strip(zoo.canon(est))
        except Exception:
            continue
        try:
            out = est.predict(Q)
            after = strip(zoo.canon(est))
        except Exception as e:
            if name in ("DeepSup", "DeepUnsup", "SMART", "SimpleARTMAP", "ARTMAP"):
                fails.append({"signature": f"{name}.predict/raises", "text": f"{name}: predict on training rows raises {type(e).__name__}: {str(e)[:80]}",
                              "replay": zoo.describe(name, z, X, y, ops, mode, eps, len(ops))})
            continue
        cnt += 1

        def rep(what, sig):
            return {"signature": f"{name}.predict/{sig}", "text": f"{name}: {what}", "replay": zoo.describe(name, z, X, y, ops, mode, eps, len(ops))}
        if before != after:
            fails.append(rep("predict altered the model: " + str(c06_first_diff(before, after)), "pure"))
            continue
        outs = out if isinstance(out, list) else [out]
        perm = list(reversed(range(len(qi))))
        try:
            out2 = est.predict(zoo.take(Q, perm))
        except Exception:
            continue
        outs2 = out2 if isinstance(out2, list) else [out2]
        if any(list(np.asarray(a)[perm]) != list(b) for a, b in zip(outs, outs2)):
            fails.append(rep("predict is not invariant under row permutation", "perm"))
        # the arg-max label is carried level by level through the layers' maps
        if name in ("DeepSup", "DeepUnsup", "SMART") and isinstance(out, list) and len(out) == len(est.layers) + 1:
            try:
                deepest = list(est.layers[-1].module_a.predict(Q[-1] if isinstance(Q, list) else Q))
                if [int(v) for v in out[-1]] != [int(v) for v in deepest]:
                    fails.append(rep("the deepest level is not the A-side arg-max of the last layer", "carried"))
                for k in range(len(est.layers)):
                    want = [int(est.layers[k].map[int(v)]) for v in out[k + 1]]
                    if [int(v) for v in out[k]] != want:
                        fails.append(rep(f"level {k} is not the image of level {k + 1} under that layer's map: {[int(v) for v in out[k]]} vs {want}", "carried"))
                        break
            except KeyError as e:
                fails.append(rep(f"a predicted label is not a key of the layer map above it ({e})", "carried"))
        # each row receives the oldest category of maximal activation (through the estimator's label map)
        try:
            if name in ("Fusion", "DualVigilance"):
                want = first_argmax_labels(est, Q)
                if want is not None and [int(v) for v in outs[0]] != want:
                    fails.append(rep(f"predict {[int(v) for v in outs[0]]} is not the oldest arg-max of activation {want}", "argmax"))
            elif name in ("SimpleARTMAP", "SAM_Fusion", "SAM_DV"):
                wa = first_argmax_labels(est.module_a, Q)
                if wa is not None:
                    want = [int(est.map[a]) for a in wa]
                    if [int(v) for v in outs[0]] != want:
                        fails.append(rep(f"predict {[int(v) for v in outs[0]]} is not the map of the oldest arg-max of the A-side activation {want}", "argmax"))
        except Exception:
            pass
        # range: labels seen in training
        if name in ("SimpleARTMAP",):
            if not set(int(v) for v in outs[0]) <= set(int(v) for v in np.asarray(y)):
                fails.append(rep("predicted a class never seen in training", "range"))
        elif name in ("Fusion", "CVIART", "iCVIFuzzy", "DualVigilance"):
            if any(not (0 <= int(v) < est.n_clusters) for v in outs[0]):
                fails.append(rep("label outside the trained range", "range"))
    return fails, cnt


def main():
    tier = sys.argv[1] if len(sys.argv) > 1 else "quick"
    seed = C.seed_from_env()
    v = H.run_family("C08", tier, seed, 500, 5000, gen, oracle,
                     "models trained by random histories, queried with batches containing training rows, duplicates and new rows; "
                     "non-trivial = distinct history reaching >= 2 categories",
                     ["valid query batches only (invalid ones are C18's business)"])
    zf, zn = zoo_oracle(C.make_rng(seed, "C08-zoo"), 300 if tier == "quick" else 3000)
    for f in zf:
        kf = C.match_known("C08", f["signature"])
        if kf is not None:
            v.known(f["signature"], kf.get("text", f["signature"]))
        else:
            v.violation(dict(f["replay"], property="C08", signature=f["signature"], what=f["text"]))
    rng_m = C.make_rng(seed, "C08-modules")
    n_mod = 200 if tier == "quick" else 2000
    for _ in range(n_mod):
        f = module_oracle(rng_m)
        if f:
            kf = C.match_known("C08", f["signature"])
            if kf is not None:
                v.known(f["signature"], kf.get("text", f["signature"]))
            else:
                v.violation(dict(f["replay"], property="C08", signature=f["signature"], what=f["text"]))
    v.cov["module_queries_dtype_degenerate_nested"] = n_mod
    v.cov["compound_estimator_queries"] = zn
    sys.exit(v.finish())


if __name__ == "__main__":
    main()

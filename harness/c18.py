"""C18 - data preparation is invertible; validation gates every entry point atomically.
Proof: props/C18.v (normalise/denormalise, complement coding, prepared data
passes Fuzzy validation, bounds re-used, rejected calls return no state).
Correspondence: histories with interleaved INVALID batches (out of range,
wrong width, not complement-coded, non-binary for ART1, NaN) vs the model: the
model's validation must reject exactly the batches the implementation
rejects and the history must continue identically.  Failing-input search on
the implementation: prepare/restore round trip for every estimator incl.
compound ones (any scale/offset, negative values), full snapshot before/after
every rejected fit / partial_fit / predict."""
import contextlib
import io
import sys
from fractions import Fraction

import numpy as np

import common as C
import basefam as B
import histfam as H
import zoo
import flow
import c11


# ------------------------------------------------------------------ histories with invalid batches
def corrupt(rng, rows, kind, trained=True):
    """an invalid variant of a valid batch (a wrong width only exists once a width has been learned)"""
    bad = [list(r) for r in rows]
    how = rng.choice(["range_hi", "range_lo", "width" if trained else "range_hi", "cc" if kind == "Fuzzy" else "range_hi", "nonbinary" if kind == "ART1" else "range_lo"])
    if kind == "ART1" and how in ("range_hi", "range_lo"):
        how = "nonbinary"
    i = rng.randrange(len(bad))
    j = rng.randrange(len(bad[i]))
    if how == "range_hi":
        bad[i][j] = Fraction(9, 8)
    elif how == "range_lo":
        bad[i][j] = Fraction(-1, 8)
    elif how == "width":
        bad = [r + [Fraction(1, 2)] * (2 if kind == "Fuzzy" else 1) for r in bad]
    elif how == "cc":
        bad[i][j] = bad[i][j] + Fraction(1, 4) if bad[i][j] <= Fraction(3, 4) else bad[i][j] - Fraction(1, 4)
    elif how == "nonbinary":
        # 1/2, or an integer other than 0/1 (the batch is then handed over as an integer array)
        bad[i][j] = rng.choice([Fraction(1, 2), Fraction(-1), Fraction(2), Fraction(-3), Fraction(1, 2)])
        if bad[i][j].denominator == 1:
            how = "nonbinary-int"
    return bad, how


def gen(rng):
    kind = rng.choice(["Fuzzy", "Fuzzy", "ART2A", "ART1"])
    k, rows = B.gen_kernel_and_rows(rng, kind, nmax=10)
    mode, eps = B.gen_mode(rng)
    t = lambda op, X: {"op": op, "X": X, "mode": mode, "eps": eps, "veto": None}
    ops = []
    parts = B.split_batches(rng, rows, rng.randrange(1, 4))
    trained = False
    for p in parts:
        if rng.random() < 0.5:
            bad, how = corrupt(rng, p, kind, trained)
            if trained and rng.random() < 0.3:
                o = {"op": "predict", "X": bad}
            else:
                o = t(rng.choice(["fit", "partial_fit"]), bad)
            o["invalid"] = how
            ops.append(o)
        ops.append(t(rng.choice(["fit", "partial_fit", "partial_fit"]), p))
        trained = True
    bad, how = corrupt(rng, rows[:2] or rows, kind)
    ops.append(dict({"op": "predict", "X": bad}, invalid=how))
    ops.append({"op": "predict", "X": rows[:3]})
    return k, ops


def run_ops_continue(k, ops):
    """like basefam.run_ops but keeps going after a rejected call; records state equality around it"""
    est = B.make_est(k)
    obs, fails = [], []
    for i, o in enumerate(ops):
        X = np.array(o["X"], dtype=float)
        if o.get("invalid") == "nonbinary-int" or (k["kind"] == "ART1" and not o.get("invalid") and i % 3 == 1):
            X = X.astype(np.int64 if i % 2 else np.int8)          # binary data often arrives as integers
        rec = {"ok": True, "logs": [], "ret": []}
        before = zoo.canon(est)
        try:
            with np.errstate(all="ignore"):
                if o["op"] == "predict":
                    rec["ret"] = [int(v) for v in est.predict(X)]
                else:
                    getattr(est, o["op"])(X, match_tracking=o["mode"], epsilon=float(o["eps"]))
        except Exception as e:
            rec["ok"] = False
            rec["err"] = type(e).__name__
            after = zoo.canon(est)
            if before != after:
                import c06
                fails.append({"signature": f"{type(est).__name__}.{o['op']}/rejected-call-changed-state",
                              "text": f"{o['op']} rejected the batch ({o.get('invalid')}) but changed {c06.first_diff(before, after)}",
                              "replay": dict(B.summary(k, ops), failing_op=i)})
        if o.get("invalid") and rec["ok"]:
            fails.append({"signature": f"{type(est).__name__}.{o['op']}/invalid-accepted",
                          "text": f"{o['op']} accepted an invalid batch ({o['invalid']})", "replay": dict(B.summary(k, ops), failing_op=i)})
        rec["snap"] = B.snapshot(est) if rec["ok"] else None
        obs.append(rec)
    return obs, fails


# ------------------------------------------------------------------ prepare / restore on the implementation
def prep_oracle(rng):
    import artlib
    name = rng.choice(["Fuzzy", "Hyper", "ART2A", "Gauss", "DualVig", "Topo", "SimpleARTMAP", "ARTMAP", "Fusion", "SMART", "CVIART"])
    d = rng.choice([1, 2, 3])
    n = rng.randrange(3, 9)
    scale, off = rng.choice([1e-3, 1.0, 250.0]), rng.choice([-40.0, 0.0, 7.5])
    X = np.array([[rng.random() * scale + off for _ in range(d)] for _ in range(n)])
    X2 = X[: max(1, n // 2)] * 0.5 + X.mean(axis=0) * 0.5          # later data inside the first call's bounds
    stored_as = "float64"
    if rng.random() < 0.35:
        # "all finite real matrices": whole-number data as it is commonly stored (sensor counts in int16, pixel values in
        # uint8, flags in bool); the column range need not fit the positive half of the dtype
        dt = rng.choice([np.int8, np.int16, np.uint8, np.int32, bool])
        lo_, hi_ = {np.int8: (-120, 121), np.int16: (-30000, 30001), np.uint8: (3, 251), np.int32: (-2 * 10 ** 9, 2 * 10 ** 9), bool: (0, 2)}[dt]
        Xi = np.array([[rng.randrange(lo_, hi_) for _ in range(d)] for _ in range(n)])
        Xi[0, :], Xi[1, :] = lo_, hi_ - 1
        X = Xi.astype(dt)
        X2 = X[[0, 1, 2]]
        scale, off = float(hi_ - lo_), 0.0
        stored_as = np.dtype(dt).name
    fz = lambda: artlib.FuzzyART(0.5, 1e-3, 1.0)
    with contextlib.redirect_stdout(io.StringIO()):
        est = {"Fuzzy": fz, "Hyper": lambda: artlib.HypersphereART(0.5, 1e-3, 1.0, 1.0), "ART2A": lambda: artlib.ART2A(0.5, 0.1, 1.0),
               "Gauss": lambda: artlib.GaussianART(0.5, np.ones(d) * 0.5), "DualVig": lambda: artlib.DualVigilanceART(fz(), 0.25),
               "Topo": lambda: artlib.TopoART(fz(), 0.5, 5, 2), "SimpleARTMAP": lambda: artlib.SimpleARTMAP(fz()),
               "ARTMAP": lambda: artlib.ARTMAP(fz(), fz()), "Fusion": lambda: artlib.FusionART([fz(), fz()], [0.5, 0.5], [2 * d, 2 * d]),
               "SMART": lambda: artlib.SMART(artlib.FuzzyART, [0.2, 0.6], {"alpha": 1e-3, "beta": 1.0}),
               "CVIART": lambda: artlib.CVIART(fz(), 1)}[name]()
    rep = {"estimator": name, "X": X.tolist(), "dtype": stored_as}
    Xf = X.astype(float)

    def f(sig, what):
        return {"signature": f"{name}/{sig}", "text": what, "replay": rep}
    try:
        if name == "ARTMAP":
            P, Py = est.prepare_data(X, X)
            R, Ry = est.restore_data(P, Py)
            mod, Pv = est.module_a, P
        elif name == "Fusion":
            P = est.prepare_data([X, X])
            R = est.restore_data(P)[0]
            mod, Pv = est, P
        else:
            P = est.prepare_data(X)
            R = est.restore_data(P)
            mod = getattr(est, "module_a", est)
            Pv = P
        if np.min(P) < -1e-12 or np.max(P) > 1 + 1e-12:
            return f("prepare-range", "prepare_data left the unit cube")
        if name in ("Fuzzy", "DualVig", "Topo", "SimpleARTMAP", "SMART", "CVIART") and np.asarray(P).shape[1] != 2 * d:
            return f("prepare-width", "Fuzzy-based prepare_data did not double the width")
        if not np.allclose(np.asarray(R, dtype=float), Xf, rtol=1e-9, atol=1e-9 * scale):
            return f("restore", "restore_data(prepare_data(X)) != X")
        if name not in ("SMART", "ARTMAP", "SimpleARTMAP"):
            mod.validate_data(np.asarray(Pv))
        elif name == "SimpleARTMAP":
            est.module_a.validate_data(np.asarray(P))
        # later data re-use the first call's bounds
        if name not in ("ARTMAP", "Fusion"):
            P2 = est.prepare_data(X2)
            lo, hi = Xf.min(axis=0), Xf.max(axis=0)
            want = (X2.astype(float) - lo) / (hi - lo)
            got = np.asarray(P2)[:, :d]
            if not np.allclose(got, want, atol=1e-9):
                return f("reuse-bounds", "a later prepare_data call did not re-use the first call's column bounds")
            # ... also for later data that leaves those bounds: same affine map, still inverted by restore_data
            lo, hi = Xf.min(axis=0), Xf.max(axis=0)
            X3 = np.vstack([lo - 0.25 * (hi - lo), hi + 0.5 * (hi - lo), Xf[0]])
            if stored_as == "uint8":
                X3 = np.vstack([[1] * d, [254] * d, X[0]]).astype(np.uint8)       # below the first minimum, above the first maximum
            rep["later_batch_outside_the_first_bounds"] = X3.tolist()
            P3 = np.asarray(est.prepare_data(X3))
            if not np.allclose(P3[:, :d], (X3.astype(float) - lo) / (hi - lo), atol=1e-9):
                return f("reuse-bounds", "a later prepare_data call (data outside the first bounds) did not apply the first call's column bounds")
            if not np.allclose(np.asarray(est.restore_data(P3), dtype=float), X3.astype(float), rtol=1e-9, atol=1e-9 * scale):
                return f("restore", "restore_data does not invert prepare_data on a later batch outside the first bounds")
        # normalisation and complement coding individually, on arbitrary finite matrices
        from artlib.common.utils import compliment_code, de_compliment_code, normalize, de_normalize
        Z = np.array([[rng.uniform(-3, 4) * scale + off for _ in range(d)] for _ in range(n)])
        rep["Z"] = Z.tolist()
        if not np.allclose(de_compliment_code(compliment_code(Z)), Z, rtol=1e-9, atol=1e-9 * max(1.0, scale)):
            return f("cc-roundtrip", "de_compliment_code(compliment_code(Z)) != Z")
        Nz, zmax, zmin = normalize(Z)
        if not np.allclose(de_normalize(Nz, zmax, zmin), Z, rtol=1e-9, atol=1e-9 * max(1.0, scale)):
            return f("normalize-roundtrip", "de_normalize(normalize(Z)) != Z")
    except Exception as e:
        return f("raises", f"{type(e).__name__}: {str(e)[:80]}")
    return None


def first_call_width_oracle(rng):
    """modules whose hyper-parameters fix the admissible data width at construction (ART2A: alpha <= 1/sqrt(width);
    BayesianART: cov_init is width x width; GaussianART: sigma_init has one entry per column): a wrong-width matrix at
    the FIRST call is rejected without any state change, and valid data is accepted afterwards"""
    import artlib
    cls = rng.choice(["ART2A", "Bayes", "Gauss"])
    d = rng.choice([2, 3])
    if cls == "ART2A":
        alpha = rng.choice([0.5, 0.6, 0.7])
        mk = lambda: artlib.ART2A(rho=0.5, alpha=alpha, beta=0.5)
        wbad = {0.5: 5, 0.6: 3, 0.7: 3}[alpha] + rng.randrange(0, 2)
        d = 2 if alpha < 0.7 else 1
        d = max(1, min(d, int(1 / alpha ** 2)))
    elif cls == "Bayes":
        mk = lambda: artlib.BayesianART(rho=0.5, cov_init=0.1 * np.eye(d))
        wbad = d + rng.choice([-1, 1, 2])
    else:
        mk = lambda: artlib.GaussianART(rho=0.1, sigma_init=0.5 * np.ones(d))
        wbad = d + rng.choice([-1, 1, 2])
    n = rng.randrange(2, 6)
    good = np.array([[rng.randrange(1, 9) / 8 for _ in range(d)] for _ in range(n)])
    bad = np.array([[rng.randrange(1, 9) / 8 for _ in range(wbad)] for _ in range(n)])
    call = rng.choice(["fit", "partial_fit"])
    est = mk()
    rep = {"estimator": cls, "params": repr(est.get_params())[:200], "bad": bad.tolist(), "good": good.tolist(), "call": call}
    before = zoo.canon(est)
    try:
        with np.errstate(all="ignore"), C.time_limit(10):
            getattr(est, call)(bad)
        return {"signature": f"{cls}/wrong-width-accepted", "text": f"{cls}.{call} accepted a {wbad}-column matrix although its hyper-parameters are for {d} columns", "replay": rep}
    except Exception:
        after = zoo.canon(est)
        if before != after:
            import c06
            return {"signature": f"{cls}.{call}/rejected-call-changed-state", "text": f"{cls}.{call} rejected the wrong-width matrix but changed {c06.first_diff(before, after)}", "replay": rep}
    try:
        with np.errstate(all="ignore"), C.time_limit(10):
            getattr(est, call)(good)
    except Exception as e:
        try:
            with np.errstate(all="ignore"), C.time_limit(10):
                getattr(mk(), call)(good)
        except Exception:
            return None
        return {"signature": f"{cls}.{call}/valid-data-rejected-after-rejected-call", "text": f"after the rejected call {cls}.{call} rejects valid data ({type(e).__name__}) that a fresh estimator accepts", "replay": rep}
    return None


def reject_oracle_compound(rng):
    """invalid batches on trained compound estimators: error before any state change"""
    name = rng.choice(["Fusion", "DualVigilance", "Topo", "CVIART", "iCVIFuzzy"])
    z, X, y, ops, mode, eps = zoo.gen_zoo_history(rng, name)
    est = z["est"]
    fresh = rng.random() < 0.3            # the invalid batch arrives at the very first call
    try:
        for op, ix in ([] if fresh else ops):
            zoo.call(est, op, zoo.take(X, ix), None, mode, eps)
    except Exception:
        return None
    bad = np.array(X, dtype=float).copy()
    how = rng.choice(["range", "cc"] if fresh else ["range", "width", "cc"])
    if how == "range":
        bad[rng.randrange(len(bad)), -1] = 1.5          # invalid in the LAST channel: earlier channels are validated first
    elif how == "width":
        bad = np.hstack([bad, bad[:, :2]])
    else:
        bad[0, -1] = bad[0, -1] + 0.3 if bad[0, -1] < 0.6 else bad[0, -1] - 0.3
    call = rng.choice(["fit", "partial_fit", "predict"]) if z["pf"] else rng.choice(["fit", "predict"])
    if fresh and call == "predict":
        call = "fit"
    before = zoo.canon(est)
    try:
        with contextlib.redirect_stdout(io.StringIO()):
            if call == "predict":
                est.predict(bad)
            else:
                zoo.call(est, call, bad, None, mode, eps)
    except Exception:
        after = zoo.canon(est)
        if before != after:
            import c06
            d = c06.first_diff(before, after)
            sig = "rejected-call-sets-module-dim" if (name == "Fusion" and "dim_" in d) else "rejected-call-changed-state"
            return {"signature": f"{name}/{sig}", "text": f"{name}.{call} rejected an invalid batch ({how}) but changed {d}",
                    "replay": zoo.describe(name, z, X, y, ops, mode, eps, -1)}
        return None
    return {"signature": f"{name}/invalid-accepted", "text": f"{name}.{call} accepted an invalid batch ({how})",
            "replay": zoo.describe(name, z, X, y, ops, mode, eps, -1)}


def main():
    tier = sys.argv[1] if len(sys.argv) > 1 else "quick"
    seed = C.seed_from_env()
    v = C.Verdict("C18", tier, seed)
    gate_ok, ob = C.proof_gate(v, "C18.v")
    rng = C.make_rng(seed, "C18")
    n = 400 if tier == "quick" else 4000
    strs, summ, fails = [], [], []
    stats = {"invalid_kinds": {}, "rejected_calls": 0}
    for _ in range(n):
        k, ops = gen(rng)
        obs, f = run_ops_continue(k, ops)
        fails.extend(f)
        if k["kind"] != "ART1":          # ART1's bottom-up weights L/(L-1+|t|) are not dyadic: implementation-side oracle only
            strs.append(B.case_coq(k, ops, obs))
            summ.append(B.summary(k, ops))
        for o, r in zip(ops, obs):
            if o.get("invalid"):
                stats["invalid_kinds"][o["invalid"]] = stats["invalid_kinds"].get(o["invalid"], 0) + 1
                stats["rejected_calls"] += 0 if r["ok"] else 1
    for _ in range(150 if tier == "quick" else 1500):
        r = prep_oracle(rng)
        if r:
            fails.append(r)
        r = reject_oracle_compound(rng)
        if r:
            fails.append(r)
        r = first_call_width_oracle(rng)
        if r:
            fails.append(r)
        # the compound prepare / restore pair with channels withheld (every order and spelling of the skipped channels)
        r = c11.prepare_restore(rng)
        if r:
            fails.append(r)
    codes, bad = flow.coq_corr("C18", "RunBase", strs, shard=150)
    for b in bad:
        v.notes.append("coq shard failed: " + b[-600:])
    flow.decide(v, "C18", gate_ok, ob, list(zip(codes, summ)), fails, None)
    v.cov.update({
        "evaluations": n, "distinct_nontrivial": len(set(C.case_hash(s) for s in summ)),
        "rule": "histories on Fuzzy / ART2-A / ART1 with invalid batches (out of range high/low, wrong width, not complement-coded, non-binary) interleaved before fit, partial_fit and predict at "
                "random points; prepare/restore on 11 estimator kinds with scales 1e-3..250 and offsets -40..7.5; rejected calls on trained compound estimators; non-trivial = distinct history",
        "traces_validated_against_impl": sum(1 for x in codes if x == 0), "distribution": stats, "samples": summ[:1]})
    v.assumptions = ["non-constant columns (the property's precondition)", "round trip to 1e-9 relative on the implementation; exact in the real-number theorem"]
    sys.exit(v.finish())


if __name__ == "__main__":
    main()

"""C12 - hierarchies are nested and navigable (DeepARTMAP, SMART).
Proof: props/C12.v.  Correspondence: supervised DeepARTMAP chains vs the
Gallina model (every layer's A-side state, map, targets, labels_deep_,
predict).  Failing-input search: tree property / column / count / map_deep /
predict nesting evaluated on the implementation (supervised, unsupervised,
SMART; fit and partial_fit)."""
import sys

import numpy as np

import common as C
import basefam as B
import samfam as S
import flow
import zoo


def tree_oracle(name, est, rep):
    fails = []

    def f(what, sig):
        fails.append({"signature": f"{name}/{sig}", "text": f"{name}: {what}", "replay": rep})
    D = np.asarray(est.labels_deep_)
    n, L = D.shape
    # columns = each layer's own labels
    for j, layer in enumerate(est.layers):
        if list(D[:, j]) != list(layer.labels_):
            f(f"column {j} of labels_deep_ != layer {j}'s own labels", "columns")
    if list(D[:, -1]) != list(est.layers[-1].labels_a):
        f("last column != finest A-side labels", "columns")
    # ... and the clustering each level's module holds itself (supervised: column 0 is the targets)
    off = 1 if est.is_supervised else 0
    for j, mod in enumerate(est.modules):
        if j + off < L and list(D[:, j + off]) != [int(v) for v in mod.labels_]:
            f(f"column {j + off} of labels_deep_ != the labels held by module {j}", "columns")
            break
    # nesting
    for j in range(L - 1, 0, -1):
        m = {}
        for i in range(n):
            fine, coarse = int(D[i, j]), int(D[i, j - 1])
            if m.setdefault(fine, coarse) != coarse:
                f(f"samples sharing category {fine} at level {j} differ at level {j - 1}", "nested")
                break
    # counts never decrease with depth
    cnt = [len(set(D[:, j].tolist())) for j in range(L)]
    if any(cnt[j] > cnt[j + 1] for j in range(L - 1)):
        f(f"category counts decrease with depth: {cnt}", "counts")
    # map_deep consistent with stored labels
    for lev in list(range(len(est.layers))) + list(range(-len(est.layers), 0)):       # also counted from the finest level
        try:
            up = est.map_deep(lev, np.asarray(est.layers[lev].labels_a))
            if list(up) != list(D[:, 0]):
                f(f"map_deep({lev}, labels_a) != top-level labels", "map_deep")
            one = est.map_deep(lev, int(est.layers[lev].labels_a[0]))
            if int(one) != int(D[0, 0]):
                f(f"map_deep({lev}, <single label>) != top-level label of that sample", "map_deep")
        except Exception as e:
            f(f"map_deep({lev}) raises {type(e).__name__}", "map_deep")
    return fails


def pred_oracle(name, est, Xq, rep):
    fails = []
    try:
        p = est.predict(Xq)
    except Exception as e:
        return fails
    if len(p) != len(est.layers) + 1:
        fails.append({"signature": f"{name}/predict-levels", "text": f"{name}: predict returns {len(p)} vectors for {len(est.layers) + 1} levels", "replay": rep})
        return fails
    for j in range(len(p) - 1, 0, -1):
        m = {}
        for a, b in zip(p[j], p[j - 1]):
            if m.setdefault(int(a), int(b)) != int(b):
                fails.append({"signature": f"{name}/predict-nested", "text": f"{name}: predictions not nested between levels {j} and {j - 1}", "replay": rep})
                return fails
    return fails


def zoo_oracle(rng, n):
    fails, cnt = [], 0
    for _ in range(n):
        name = rng.choice(["DeepSup", "DeepUnsup", "SMART"])
        z, X, y, ops, mode, eps = zoo.gen_zoo_history(rng, name)
        est = z["est"]
        ok = True
        for i, (op, ix) in enumerate(ops):
            try:
                zoo.call(est, op, zoo.take(X, ix), None if y is None else np.asarray(y)[ix], mode, eps)
            except Exception:
                ok = False
                break
            rep = zoo.describe(name, z, X, y, ops, mode, eps, i)
            fails.extend(tree_oracle(name, est, rep))
        if ok:
            cnt += 1
            q = [rng.randrange(zoo.nrows(X)) for _ in range(4)]
            fails.extend(pred_oracle(name, est, zoo.take(X, q), zoo.describe(name, z, X, y, ops, mode, eps, len(ops))))
    return fails, cnt


def main():
    tier = sys.argv[1] if len(sys.argv) > 1 else "quick"
    seed = C.seed_from_env()
    v = C.Verdict("C12", tier, seed)
    gate_ok, ob = C.proof_gate(v, "C12.v")
    rng = C.make_rng(seed, "C12")
    nd = 300 if tier == "quick" else 3000
    strs, summ, fails, nontriv, hashes = [], [], [], 0, set()
    stats = {"levels": {}, "modes": {}}
    for _ in range(nd):
        c = S.gen_dcase(rng)
        est, obs = S.run_dcase(c)
        strs.append(S.dcase_coq(c, obs))
        summ.append(S.summary_d(c))
        h = C.case_hash(S.summary_d(c))
        if obs[-1]["ok"] and obs[-1].get("deep") and len(set(obs[-1]["deep"][-1])) >= 2 and h not in hashes:
            nontriv += 1
        hashes.add(h)
        stats["levels"][len(c["ks"])] = stats["levels"].get(len(c["ks"]), 0) + 1
        stats["modes"][c["mode"]] = stats["modes"].get(c["mode"], 0) + 1
        if all(o["ok"] for o in obs):
            fails.extend(tree_oracle("DeepSup", est, S.summary_d(c)))
    codes, bad = flow.coq_corr("C12", "RunSam", strs, shard=100, check_fn="dcheck", extra_imports="From ARTcorr Require Import RunBase.\n")
    for b in bad:
        v.notes.append("coq shard failed: " + b[-600:])
    zf, zn = zoo_oracle(C.make_rng(seed, "C12-zoo"), 150 if tier == "quick" else 1500)
    fails.extend(zf)

    def extended():
        f2, _ = zoo_oracle(C.make_rng(seed, "C12-ext"), 1500)
        return f2
    flow.decide(v, "C12", gate_ok, ob, list(zip(codes, summ)), fails, extended)
    v.cov.update({
        "evaluations": nd + zn, "distinct_nontrivial": nontriv,
        "rule": "supervised DeepARTMAP with 2-4 Fuzzy levels on a strictly increasing vigilance ladder, same or different data per level, random class labels, "
                "5 modes, fit / partial_fit batchings / re-fit, then predict; plus unsupervised DeepARTMAP and SMART histories on the implementation; "
                "non-trivial = distinct case whose finest level has >= 2 categories",
        "traces_validated_against_impl": sum(1 for x in codes if x == 0),
        "implementation_only_histories": zn, "distribution": stats, "samples": summ[:1]})
    v.assumptions = ["level models are Fuzzy ART in the correspondence; the theorems are kernel-abstract",
                     "unsupervised mode and SMART are tied to the theorems through the ARTMAP correspondence of C09 and the implementation-side oracle"]
    sys.exit(v.finish())


if __name__ == "__main__":
    main()

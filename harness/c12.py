"""C12 - hierarchies are nested and navigable (DeepARTMAP, SMART).
Proof: props/C12.v.  Correspondence: supervised DeepARTMAP chains vs the
Gallina model (every layer's A-side state, map, targets, labels_deep_,
predict).  Failing-input search: tree property / column / count / map_deep /
predict nesting evaluated on the implementation (supervised, unsupervised,
SMART; fit and partial_fit)."""
import sys

import numpy as np

import common as C
import basefam as B
import samfam as S
import flow
import zoo


def tree_oracle(name, est, rep, top=None):
    fails = []

    def f(what, sig):
        fails.append({"signature": f"{name}/{sig}", "text": f"{name}: {what}", "replay": rep})
    D = np.asarray(est.labels_deep_)
    n, L = D.shape
    # supervised: the top column is the sequence of targets that was presented (whatever the caller did to its arrays since)
    if top is not None and [int(v) for v in D[:, 0]] != [int(v) for v in top]:
        f(f"top column of labels_deep_ {[int(v) for v in D[:, 0]][:12]}.. is not the presented targets {[int(v) for v in top][:12]}..", "top-column")
    # columns = each layer's own labels
    for j, layer in enumerate(est.layers):
        if list(D[:, j]) != list(layer.labels_):
            f(f"column {j} of labels_deep_ != layer {j}'s own labels", "columns")
    if list(D[:, -1]) != list(est.layers[-1].labels_a):
        f("last column != finest A-side labels", "columns")
    # ... and the clustering each level's module holds itself (supervised: column 0 is the targets)
    off = 1 if est.is_supervised else 0
    for j, mod in enumerate(est.modules):
        if j + off < L and list(D[:, j + off]) != [int(v) for v in mod.labels_]:
            f(f"column {j + off} of labels_deep_ != the labels held by module {j}", "columns")
            break
    # nesting
    for j in range(L - 1, 0, -1):
        m = {}
        for i in range(n):
            fine, coarse = int(D[i, j]), int(D[i, j - 1])
            if m.setdefault(fine, coarse) != coarse:
                f(f"samples sharing category {fine} at level {j} differ at level {j - 1}", "nested")
                break
    # counts never decrease with depth
    cnt = [len(set(D[:, j].tolist())) for j in range(L)]
    if any(cnt[j] > cnt[j + 1] for j in range(L - 1)):
        f(f"category counts decrease with depth: {cnt}", "counts")
    # map_deep consistent with stored labels
    for lev in list(range(len(est.layers))) + list(range(-len(est.layers), 0)):       # also counted from the finest level
        try:
            up = est.map_deep(lev, np.asarray(est.layers[lev].labels_a))
            if list(up) != list(D[:, 0]):
                f(f"map_deep({lev}, labels_a) != top-level labels", "map_deep")
            one = est.map_deep(lev, int(est.layers[lev].labels_a[0]))
            if int(one) != int(D[0, 0]):
                f(f"map_deep({lev}, <single label>) != top-level label of that sample", "map_deep")
        except Exception as e:
            f(f"map_deep({lev}) raises {type(e).__name__}", "map_deep")
    # a level that does not exist is refused, whichever side it is counted from
    for lev in (len(est.layers), -len(est.layers) - 1):
        try:
            got = est.map_deep(lev, np.asarray(est.layers[-1].labels_a))
            f(f"map_deep({lev}, ...) on {len(est.layers)} layers returns {np.asarray(got).tolist()[:8]}.. instead of refusing the level", "map_deep")
        except (IndexError, AssertionError, ValueError):
            pass
        except Exception:
            pass
    return fails


def pred_oracle(name, est, Xq, rep):
    fails = []
    try:
        p = est.predict(Xq)
    except Exception as e:
        return fails
    if len(p) != len(est.layers) + 1:
        fails.append({"signature": f"{name}/predict-levels", "text": f"{name}: predict returns {len(p)} vectors for {len(est.layers) + 1} levels", "replay": rep})
        return fails
    for j in range(len(p) - 1, 0, -1):
        m = {}
        for a, b in zip(p[j], p[j - 1]):
            if m.setdefault(int(a), int(b)) != int(b):
                fails.append({"signature": f"{name}/predict-nested", "text": f"{name}: predictions not nested between levels {j} and {j - 1}", "replay": rep})
                return fails
    return fails


def zoo_oracle(rng, n):
    fails, cnt = [], 0
    for _ in range(n):
        name = rng.choice(["DeepSup", "DeepUnsup", "SMART"])
        z, X, y, ops, mode, eps = zoo.gen_zoo_history(rng, name)
        est = z["est"]
        ok = True
        for i, (op, ix) in enumerate(ops):
            try:
                zoo.call(est, op, zoo.take(X, ix), None if y is None else np.asarray(y)[ix], mode, eps)
            except Exception:
                ok = False
                break
            rep = zoo.describe(name, z, X, y, ops, mode, eps, i)
            fails.extend(tree_oracle(name, est, rep))
        if ok:
            cnt += 1
            q = [rng.randrange(zoo.nrows(X)) for _ in range(4)]
            fails.extend(pred_oracle(name, est, zoo.take(X, q), zoo.describe(name, z, X, y, ops, mode, eps, len(ops))))
    return fails, cnt


def any_module_oracle(rng, n):
    """SMART / DeepARTMAP over EVERY elementary module class as the level model, 2..4 levels, float data: the tree
    clauses on the implementation after each training call (fit or partial_fit batches, all modes), then predict"""
    import contextlib, io
    import artlib
    import kernfam
    fails, cnt = [], 0
    stats = {}
    for _ in range(n):
        kind = rng.choice(kernfam.KINDS)
        d = rng.choice([1, 2]) if kind in ("Bayes", "Quad") else rng.choice([1, 2, 3])
        nl = rng.choice([2, 3, 4])
        p = kernfam.gen_params(rng, kind, d)
        if kind == "Bayes":
            rhos = sorted(rng.sample([1e-4, 1e-3, 1e-2, 0.1, 0.5, 5.0], nl), reverse=True)      # inverted test: the ladder decreases
        else:
            rhos = sorted(rng.sample([0.0, 0.2, 0.4, 0.6, 0.8, 0.9], nl))
        if kind == "ART1" and p["L"] == 1.0:
            p["L"] = 2.0
        if kind in ("Fuzzy", "Hyper", "Ellip") and p["alpha"] == 0.0:
            p["alpha"] = 1e-3
        base = {k: v for k, v in p.items() if k != "rho"}
        cls = type(kernfam.make(kind, p))
        which = rng.choice(["SMART", "SMART", "DeepUnsup", "DeepSup"])
        X = kernfam.gen_data(rng, kind, rng.randrange(4, 14), d)
        mode = rng.choice(B.MODES)
        eps = rng.choice([0.0, 1e-10, 1e-3])
        y = None
        try:
            with contextlib.redirect_stdout(io.StringIO()):
                if which == "SMART":
                    est = artlib.SMART(cls, rhos, base)
                else:
                    est = artlib.DeepARTMAP([kernfam.make(kind, dict(base, rho=r)) for r in rhos])
        except Exception as e:
            fails.append({"signature": f"{which}/construct", "text": f"{which}({kind}, rho ladder {rhos}) cannot be constructed: {type(e).__name__}: {str(e)[:80]}",
                          "replay": {"estimator": which, "module": kind, "rhos": rhos}})
            continue
        if which == "DeepSup":
            y = zoo.ydt(rng, [rng.randrange(rng.choice([1, 2, 3])) for _ in range(len(X))])
        rep = {"estimator": which, "module": kind, "params": {k: (np.asarray(v).tolist() if isinstance(v, np.ndarray) else v) for k, v in base.items()},
               "rhos": rhos, "mode": mode, "eps": eps, "X": X.tolist(), "y": None if y is None else y.tolist()}
        nb = rng.choice([1, 1, 2, 3])
        cuts = sorted(rng.sample(range(1, len(X)), nb - 1)) if nb > 1 else []
        parts = [list(range(a, b)) for a, b in zip([0] + cuts, cuts + [len(X)])]
        rep["batches"] = [len(q) for q in parts]
        rep["how"] = "fit" if nb == 1 else "partial_fit per batch"
        ok = True
        rep["caller"] = "the batch arrays handed to the call are overwritten by the caller afterwards (a re-used buffer)"
        shown = []
        for bi, ix in enumerate(parts):
            Xb = X[ix]
            yb = None if y is None else y[ix]
            arg = Xb if which == "SMART" else [Xb] * nl
            if yb is not None:
                shown.extend(int(v) for v in yb)
            try:
                with np.errstate(all="ignore"):
                    op = est.fit if nb == 1 else est.partial_fit
                    if which == "SMART":
                        op(arg, match_tracking=mode, epsilon=eps)
                    else:
                        op(arg, yb, match_tracking=mode, epsilon=eps)
            except Exception:
                ok = False        # totality is C04's business
                break
            # the caller re-uses its buffers: the hierarchy is the model's own state and must not move with them
            Xb[:] = Xb[::-1].copy()
            if yb is not None:
                yb[:] = np.resize(np.unique(y)[::-1], len(yb))
            fails.extend(tree_oracle(which, est, dict(rep, after_batch=bi), top=shown if y is not None else None))
        if ok:
            cnt += 1
            stats[kind] = stats.get(kind, 0) + 1
            q = [rng.randrange(len(X)) for _ in range(4)]
            fails.extend(pred_oracle(which, est, X[q] if which == "SMART" else [X[q]] * nl, dict(rep, query_rows=q)))
    return fails, cnt, stats


def main():
    tier = sys.argv[1] if len(sys.argv) > 1 else "quick"
    seed = C.seed_from_env()
    v = C.Verdict("C12", tier, seed)
    gate_ok, ob = C.proof_gate(v, "C12.v")
    rng = C.make_rng(seed, "C12")
    nd = 300 if tier == "quick" else 3000
    strs, summ, fails, nontriv, hashes = [], [], [], 0, set()
    stats = {"levels": {}, "modes": {}}
    for _ in range(nd):
        c = S.gen_dcase(rng)
        est, obs = S.run_dcase(c)
        strs.append(S.dcase_coq(c, obs))
        summ.append(S.summary_d(c))
        h = C.case_hash(S.summary_d(c))
        if obs[-1]["ok"] and obs[-1].get("deep") and len(set(obs[-1]["deep"][-1])) >= 2 and h not in hashes:
            nontriv += 1
        hashes.add(h)
        stats["levels"][len(c["ks"])] = stats["levels"].get(len(c["ks"]), 0) + 1
        stats["modes"][c["mode"]] = stats["modes"].get(c["mode"], 0) + 1
        if all(o["ok"] for o in obs):
            fails.extend(tree_oracle("DeepSup", est, S.summary_d(c)))
    codes, bad = flow.coq_corr("C12", "RunSam", strs, shard=100, check_fn="dcheck", extra_imports="From ARTcorr Require Import RunBase.\n")
    for b in bad:
        v.notes.append("coq shard failed: " + b[-600:])
    zf, zn = zoo_oracle(C.make_rng(seed, "C12-zoo"), 150 if tier == "quick" else 1500)
    fails.extend(zf)
    af, an, astats = any_module_oracle(C.make_rng(seed, "C12-any"), 200 if tier == "quick" else 2000)
    fails.extend(af)

    def extended():
        f2, _ = zoo_oracle(C.make_rng(seed, "C12-ext"), 1500)
        return f2
    flow.decide(v, "C12", gate_ok, ob, list(zip(codes, summ)), fails, extended)
    v.cov.update({
        "evaluations": nd + zn, "distinct_nontrivial": nontriv,
        "rule": "supervised DeepARTMAP with 2-4 Fuzzy levels on a strictly increasing vigilance ladder, same or different data per level, random class labels, "
                "5 modes, fit / partial_fit batchings / re-fit, then predict; plus unsupervised DeepARTMAP and SMART histories on the implementation; "
                "non-trivial = distinct case whose finest level has >= 2 categories",
        "traces_validated_against_impl": sum(1 for x in codes if x == 0),
        "implementation_only_histories": zn, "every_module_class_histories": an, "every_module_class_distribution": astats, "distribution": stats, "samples": summ[:1]})
    v.assumptions = ["level models are Fuzzy ART in the correspondence; the theorems are kernel-abstract",
                     "unsupervised mode and SMART are tied to the theorems through the ARTMAP correspondence of C09 and the implementation-side oracle"]
    v.cov["added_after_wave_7"] = 'every-module-class histories: the caller overwrites its batch arrays after each training call; top column of labels_deep_ against the presented targets'
    sys.exit(v.finish())


if __name__ == "__main__":
    main()

"""C09 - supervised maps are functional and consistent with every training label.
Proof: props/C09.v.  Correspondence: SimpleARTMAP and ARTMAP of the real
library vs the Gallina model (A-side weights/labels/counters, map, targets,
predict_ab) on contradictory / duplicated labels, all modes, epochs, batchings.
Failing-input search: map consistency evaluated on implementation snapshots."""
import sys

import numpy as np

import common as C
import basefam as B
import samfam as S
import flow
import zoo


def map_oracle(name, est, y_seen, where, replay):
    """the property on an implementation snapshot"""
    fails = []
    mp, la = est.map, [int(v) for v in est.module_a.labels_]
    lb = [int(v) for v in est.labels_b] if name == "ARTMAP" else [int(v) for v in est.labels_]
    nA = int(est.module_a.n_clusters)      # = number of A-side categories; for DualVigilanceART the map is keyed by cluster label

    def f(what, sig):
        fails.append({"signature": f"{name}/{sig}", "text": f"{name} {where}: {what}", "replay": replay})
    if sorted(mp.keys()) != list(range(nA)):
        f(f"map keys {sorted(mp.keys())} != existing A categories 0..{nA - 1}", "map-domain")
    if len(la) != len(lb):
        f("A-side and B-side label vectors differ in length", "lengths")
    else:
        got = [mp.get(a) for a in la]
        if got != lb:
            f("mapping the stored A-side labels does not reproduce the targets", "map-reproduces-targets")
        # the same through the public mapping function, on the whole label vector and on single labels
        try:
            pub = [int(v) for v in est.map_a2b(np.asarray(est.module_a.labels_))]
            one = [int(est.map_a2b(int(a))) for a in la[:4]]
            if pub != lb or one != lb[:4]:
                f(f"map_a2b(labels_a) = {pub[:12]}.., map_a2b(int) = {one}: not the stored targets {lb[:12]}..", "map-reproduces-targets")
        except Exception as e:
            f(f"map_a2b raised {type(e).__name__}: {str(e)[:80]}", "map-reproduces-targets")
    return fails


def column_targets_oracle(rng):
    """targets handed over as a column vector (n, 1), as scikit-learn style callers do (accepted by validation with a
    warning): the map holds the targets themselves - overwriting the caller's array afterwards changes nothing, and
    predictions are classes seen in training"""
    import warnings
    import artlib
    k, rows = B.gen_kernel_and_rows(rng, "Fuzzy", nmax=10)
    X = np.array(rows, dtype=float)
    y = np.array([rng.randrange(3) for _ in rows]).reshape(-1, 1)
    est = artlib.SimpleARTMAP(B.make_est(k))
    rep = {"estimator": "SimpleARTMAP(FuzzyART)", "X": X.tolist(), "y_column": y.ravel().tolist(), "how": rng.choice(["fit", "partial_fit"])}
    try:
        with warnings.catch_warnings():
            warnings.simplefilter("ignore")
            yb = y.copy()
            getattr(est, rep["how"])(X, yb)
            before = sorted((int(a), int(np.asarray(b).ravel()[0])) for a, b in est.map.items())
            yb[:] = 99
            after = sorted((int(a), int(np.asarray(b).ravel()[0])) for a, b in est.map.items())
            if before != after:
                return [{"signature": "SimpleARTMAP/map-aliases-targets", "text": f"the category-to-class map changed from {before} to {after} when the caller overwrote its target array", "replay": rep}]
            p = [int(v) for v in np.asarray(est.predict(X)).ravel()]
            if not set(p) <= set(int(v) for v in y.ravel()):
                return [{"signature": "SimpleARTMAP/predict-seen-class", "text": f"predictions {sorted(set(p))} are not among the training classes {sorted(set(y.ravel().tolist()))}", "replay": rep}]
    except Exception as e:
        if isinstance(e, (ValueError, TypeError)) and "fit" in rep["how"] and not hasattr(est, "map"):
            return []            # a clean rejection of column targets would be fine too
        return [{"signature": "SimpleARTMAP/column-targets-raise", "text": f"column targets accepted by training, then {type(e).__name__}: {str(e)[:80]}", "replay": rep}]
    return []


def s_oracle(c):
    import artlib
    fails = []
    est = artlib.SimpleARTMAP(B.make_est(c["k"]))
    X = np.array(c["rows"], dtype=float)
    y = np.array(c["y"], dtype=int)
    hist = {}
    supplied = []
    for i, (op, ix, it) in enumerate(c["ops"]):
        rep = dict(S.summary_s(c), failing_op=i)
        try:
            if op in ("fit", "partial_fit"):
                # the caller's buffers are handed over and then re-used (overwritten in place) by the caller: the model
                # owns what it learned
                Xb, yb = X[ix].copy(), y[ix].copy()
                if op == "partial_fit" and hasattr(est, "map") and (i + len(ix)) % 2 == 0:
                    # a batch the training call refuses (targets that are no class labels / of the wrong length / NaN) in the
                    # middle of the history: nothing of it may stay behind - the map and both label vectors are as before
                    ybad = [yb.astype(float) + 0.5, np.append(yb, 0), np.where(np.arange(len(yb)) == 0, np.nan, yb.astype(float))][i % 3]
                    try:
                        with np.errstate(all="ignore"):
                            est.partial_fit(Xb.copy(), ybad, match_tracking=c["mode"], epsilon=float(c["eps"]))
                        return fails         # accepted: whether it should be is C18's business; the history ends here
                    except Exception:
                        bad = map_oracle("SimpleARTMAP", est, None, f"after a refused partial_fit (targets {ybad.tolist()[:6]}..) before op {i}", rep)
                        if not bad and [int(v) for v in est.labels_] != supplied:
                            bad = [{"signature": "SimpleARTMAP/stored-targets", "text": f"a refused partial_fit before op {i} changed the stored targets", "replay": rep}]
                        if bad:
                            return fails + bad
                if op == "fit":
                    est.fit(Xb, yb, max_iter=it, match_tracking=c["mode"], epsilon=float(c["eps"]))
                    hist, supplied = {}, [int(v) for v in y[ix]]
                else:
                    est.partial_fit(Xb, yb, match_tracking=c["mode"], epsilon=float(c["eps"]))
                    supplied = supplied + [int(v) for v in y[ix]]
                Xb[:] = 0.5
                yb[:] = yb.max() + 1
            else:
                a, b = est.predict_ab(X[ix])
                p = est.predict(X[ix])
                seen = set(int(v) for v in est.labels_)
                if list(p) != list(b) or any(est.map[int(ai)] != int(bi) for ai, bi in zip(a, b)):
                    fails.append({"signature": "SimpleARTMAP/predict-eq-map", "text": "predict != map of the A-side prediction", "replay": rep})
                if not set(int(v) for v in p) <= seen:
                    fails.append({"signature": "SimpleARTMAP/predict-seen", "text": "predicted a class never seen in training", "replay": rep})
                continue
        except AssertionError as e:
            fails.append({"signature": "SimpleARTMAP/assert", "text": "internal assertion fired: " + str(e)[:60], "replay": rep})
            return fails
        except Exception as e:
            return fails
        # keys never change value
        for kk, vv in est.map.items():
            if kk in hist and hist[kk] != vv:
                fails.append({"signature": "SimpleARTMAP/map-monotone", "text": f"category {kk} re-mapped {hist[kk]} -> {vv}", "replay": rep})
        hist = dict(est.map)
        fails.extend(map_oracle("SimpleARTMAP", est, None, f"after op {i} ({op})", rep))
        if not fails and [int(v) for v in est.labels_] != supplied:
            fails.append({"signature": "SimpleARTMAP/stored-targets", "text": f"after op {i} ({op}): the stored targets {[int(v) for v in est.labels_]} are not the supplied ones {supplied} (the caller re-used its label buffer after the call)", "replay": rep})
        if fails:
            return fails
    return fails


def gen_nested_scase(rng):
    """SimpleARTMAP over every elementary module (float data) and over DualVigilanceART / FusionART (grid data)"""
    from fractions import Fraction
    wrap = rng.choice(["K", "K", "DV", "DV", "Fusion"])
    if wrap == "K":
        k, rows = B.gen_any_kernel_and_rows(rng)
    elif wrap == "DV":
        kb, rows = B.gen_kernel_and_rows(rng, rng.choice(["Fuzzy", "Fuzzy", "ART2A"]), nmax=13)
        if kb["rho"] == 0:
            kb["rho"] = Fraction(rng.randrange(1, 9), 8)
        k = {"kind": "DV", "base": kb, "lb": Fraction(rng.randrange(0, int(kb["rho"] * 8)), 8), "rho": kb["rho"]}
    else:
        n = rng.randrange(3, 13)
        ds = [rng.choice([1, 2]) for _ in range(2)]
        mods = [{"kind": "Fuzzy", "rho": Fraction(rng.choice([0, 2, 4, 6, 7]), 8), "alpha": Fraction(1, 1024), "beta": rng.choice([Fraction(1), Fraction(1, 2)])} for _ in ds]
        parts = [B.grid_rows(rng, n, d) for d in ds]
        rows = [list(parts[0][i]) + list(parts[1][i]) for i in range(n)]
        k = {"kind": "Fusion", "mods": mods, "gammas": [Fraction(1, 2), Fraction(1, 2)], "dims": [2 * d for d in ds], "rho": 0}
    c = S.gen_scase(rng)
    ncls = rng.choice([2, 2, 3])
    idx = list(range(len(rows)))
    shape = rng.choice(["fit", "fit2", "pf", "fit+pf", "fit+fit", "pf1"])
    if shape == "fit":
        ops = [("fit", idx, 1)]
    elif shape == "fit2":
        ops = [("fit", idx, 2)]
    elif shape == "pf":
        ops = [("partial_fit", b, 1) for b in B.split_batches(rng, idx, rng.randrange(1, 4))]
    elif shape == "pf1":
        ops = [("partial_fit", [i], 1) for i in idx[:7]]
    elif shape == "fit+pf":
        h = max(1, len(idx) // 2)
        ops = [("fit", idx[:h], 1), ("partial_fit", idx[h:] or idx[:1], 1)]
    else:
        h = max(1, len(idx) // 2)
        ops = [("fit", idx[:h], 1), ("fit", list(reversed(idx)), 1)]
    ops.append(("predict", [rng.randrange(len(rows)) for _ in range(rng.randrange(1, 5))], 0))
    return {"k": k, "rows": rows, "y": [rng.randrange(ncls) for _ in rows], "mode": c["mode"], "eps": c["eps"], "ops": ops}


def a_oracle(c):
    import artlib
    fails = []
    est = artlib.ARTMAP(B.make_est(c["ka"]), B.make_est(c["kb"]))
    X = np.array(c["rows"], dtype=float)
    Y = np.array(c["yrows"], dtype=float)
    for i, (op, ix) in enumerate(c["ops"]):
        rep = dict(S.summary_a(c), failing_op=i)
        try:
            if op in ("fit", "partial_fit"):
                Xb, Yb = X[ix].copy(), Y[ix].copy()
                getattr(est, op)(Xb, Yb, match_tracking=c["mode"], epsilon=float(c["eps"]))
                Xb[:] = 0.5          # the caller re-uses its buffers
                Yb[:] = 0.5
            else:
                p = est.predict(X[ix])
                est.module_b.d_min_, est.module_b.d_max_ = np.zeros(1), np.ones(1)
                reg = est.predict_regression(X[ix])
                cen = est.module_b.get_cluster_centers()
                if not all(np.array_equal(reg[j], cen[int(p[j])]) for j in range(len(p))):
                    fails.append({"signature": "ARTMAP/regression", "text": "predict_regression != B-side centre of the predicted class", "replay": rep})
                continue
        except AssertionError as e:
            fails.append({"signature": "ARTMAP/assert", "text": "internal assertion fired: " + str(e)[:60], "replay": rep})
            return fails
        except Exception:
            return fails
        fails.extend(map_oracle("ARTMAP", est, None, f"after op {i} ({op})", rep))
        if fails:
            return fails
    return fails


def main():
    tier = sys.argv[1] if len(sys.argv) > 1 else "quick"
    seed = C.seed_from_env()
    v = C.Verdict("C09", tier, seed)
    gate_ok, ob = C.proof_gate(v, "C09.v")
    rng = C.make_rng(seed, "C09")
    ns = 450 if tier == "quick" else 4500
    na = 200 if tier == "quick" else 2000
    strs_s, strs_a, summ, fails, nontriv, hashes = [], [], [], [], 0, set()
    stats = {"modes": {}, "contradictory_label_cases": 0, "epochs>1": 0}
    for _ in range(ns):
        c = S.gen_scase(rng)
        est, obs = S.run_scase(c)
        strs_s.append(S.scase_coq(c, obs))
        summ.append(S.summary_s(c))
        fails.extend(s_oracle(c))
        if len(fails) < 3:
            fails.extend(column_targets_oracle(rng))
        h = C.case_hash(S.summary_s(c))
        if obs[-1].get("l") and len(obs[-1]["l"]["snap"]["W"]) >= 2 and h not in hashes:
            nontriv += 1
        hashes.add(h)
        stats["modes"][c["mode"]] = stats["modes"].get(c["mode"], 0) + 1
        rows = [tuple(r) for r in c["rows"]]
        stats["contradictory_label_cases"] += 1 if any(rows[i] == rows[j] and c["y"][i] != c["y"][j] for i in range(len(rows)) for j in range(i)) else 0
        stats["epochs>1"] += 1 if any(it > 1 for _, _, it in c["ops"]) else 0
    codes_s, bad_s = flow.coq_corr("C09", "RunSam", strs_s, check_fn="scheck", extra_imports="From ARTcorr Require Import RunBase.\n")
    summ_a = []
    for _ in range(na):
        c = S.gen_acase(rng)
        est, obs = S.run_acase(c)
        strs_a.append(S.acase_coq(c, obs))
        summ_a.append(S.summary_a(c))
        fails.extend(a_oracle(c))
    # every module (and DualVigilanceART / FusionART) as A-side: implementation-side map oracle
    rng_n = C.make_rng(seed, "C09-nested")
    n_nested = 300 if tier == "quick" else 3000
    nested_kinds = {}
    for _ in range(n_nested):
        c = gen_nested_scase(rng_n)
        kk = c["k"]["kind"]
        nested_kinds[kk] = nested_kinds.get(kk, 0) + 1
        fails.extend(s_oracle(c))
    codes_a, bad_a = flow.coq_corr("C09a", "RunSam", strs_a, check_fn="acheck", extra_imports="From ARTcorr Require Import RunBase.\n")
    for b in bad_s + bad_a:
        v.notes.append("coq shard failed: " + b[-600:])

    def extended():
        out = []
        r2 = C.make_rng(seed, "C09-ext")
        for _ in range(3000):
            out.extend(s_oracle(S.gen_scase(r2)))
            if len(out) >= 3:
                break
        return out
    flow.decide(v, "C09", gate_ok, ob, list(zip(codes_s, summ)) + list(zip(codes_a, summ_a)), fails, extended)
    v.cov.update({
        "evaluations": ns + na, "distinct_nontrivial": nontriv,
        "rule": "SimpleARTMAP (Fuzzy/ART2A A-side) and ARTMAP (Fuzzy/Fuzzy) on grid data from small row pools with random class labels "
                "(contradictory labels on identical samples frequent), 5 modes x eps, fit with 1-3 epochs / partial_fit batchings / re-fits, interleaved predict_ab; "
                "non-trivial = distinct case with >= 2 A-side categories",
        "traces_validated_against_impl": sum(1 for x in codes_s + codes_a if x == 0),
        "nested_a_side_oracle_cases": n_nested, "nested_a_side_kinds": nested_kinds,
        "distribution": stats, "samples": summ[:1] + summ_a[:1]})
    v.assumptions = ["A-side kernels Fuzzy/ART2A in the exact regime; other kernels share the kernel-abstract theorem",
                     "ARTMAP with max_iter = 1"]
    v.cov["added_after_wave_7"] = 'histories with refused partial_fit batches (non-integral / wrong-length / NaN targets) before every second incremental call; map and label vectors judged right after the refusal'
    sys.exit(v.finish())


if __name__ == "__main__":
    main()

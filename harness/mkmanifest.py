"""writes MANIFEST.json from the table below (kept valid at all times)"""
import json, os
V = os.path.dirname(os.path.dirname(os.path.abspath(__file__)))
CHECKS = {
 "C01": dict(
    text="Proof (Coq, axiom-free, unbounded): the NaN-masking search loop equals a left-to-right scan of the categories sorted by (activation desc, index asc); nanargmax = oldest maximiser; a training step replaces only the winner's weight or appends exactly one; vigilance restored. Model tied to /repo by an exact-rational correspondence of fit/partial_fit (weights, labels, counters, params, reset-function log) on tie-/veto-heavy grid cases, all 5 modes; failing-input search = the specification scan on the implementation's own kernel outputs.",
    note="Trusted: Coq kernel+vm_compute; hand model + correspondence harness; exact-arithmetic reading of the kernels (float rounding not modelled); reset functions independent of params.",
    technique="Coq proof (refinement search=scan, induction) + model/implementation correspondence at exact rationals",
    ref="DESIGN.md section 7 C01"),
}
CHECKS.update({
 "C05": dict(
    text="Proof (Coq, axiom-free, unbounded): a book-keeping invariant (counters parallel to weights, labels a restricted-growth sequence ending at the category count, counters = label histogram, sample counter = number of labels) is established by fit and preserved by partial_fit for every kernel, hence holds in every state reachable by any sequence of calls with any batch sizes. Tied to /repo by the exact correspondence of histories (snapshots after every call); the invariant is also evaluated on implementation snapshots of FusionART and its channels, DualVigilanceART, TopoART, CVIART, iCVIFuzzyART, SimpleARTMAP/ARTMAP sides (failing-input search; no theorem covers those estimators' own loops yet).",
    note="Trusted: Coq kernel+vm_compute, hand model + correspondence; single-epoch calls; compound estimators covered by the implementation-side oracle only.",
    technique="Coq proof (invariant by induction over call histories) + model/implementation correspondence",
    ref="DESIGN.md section 7 C05"),
 "C06": dict(
    text="Proof (Coq, axiom-free, unbounded): two consecutive partial_fit calls equal one on the concatenation (whole state), hence any partition into non-empty batches from a fresh estimator equals one fit; fit on a used estimator equals fit on a fresh one with the same hyper-parameters. Tied to /repo by the exact correspondence of histories; relations between two real runs (batches vs fit, re-fit vs fresh, read-only interleaving incl. deepcopy/pickle/get_params) are searched on elementary and compound estimators.",
    note="Trusted: as C05. Theorems are for BaseART-derived elementary estimators (every kernel); compound estimators are covered by the implementation-side relations. Known finding: TopoART.partial_fit never prunes.",
    technique="Coq proof (refinement to a labels-free loop, induction over batch lists) + correspondence + two-run relations",
    ref="DESIGN.md section 7 C06"),
 "C07": dict(
    text="Proof (Coq, axiom-free): the model makes the overwrite of the vigilance by match tracking explicit and restores it as the code does; the step, fit and partial_fit theorems show the vigilance after the call equals the one before on every exit path, for every kernel/mode/epsilon/veto. Correspondence compares params and the vigilance-in-force log after every call; all params dicts of nested modules are compared before/after each call on the implementation for compound estimators.",
    note="Trusted: as C05; exceptions raised by a user reset function are out of scope.",
    technique="Coq proof (case analysis on exit paths + induction) + correspondence",
    ref="DESIGN.md section 7 C07"),
 "C08": dict(
    text="Proof (Coq, axiom-free): predict is the row-wise map of step_pred (hence permutation/batching/repetition invariance), step_pred returns the oldest maximiser of the activations and is in range; purity by construction of the model and checked on the implementation by full snapshots before/after. Correspondence: returned labels on trained models.",
    note="Trusted: as C05. Label-map carrying estimators (DualVigilance, ARTMAP family, DeepARTMAP) are covered by the implementation-side oracle here and by C09/C12/C13 models.",
    technique="Coq proof + correspondence",
    ref="DESIGN.md section 7 C08"),
})
CHECKS.update({
 "C09": dict(
    text="Proof (Coq, axiom-free): over every history of SimpleARTMAP fit (any epochs) / partial_fit (any batching), for every A-side kernel and mode, the map's domain is exactly the existing A categories, keys never change value, every presented sample's A category maps to its target (so mapping the stored A labels reproduces the targets), the internal assertion is unreachable (a winning existing category was not vetoed, also under MT~), predictions are the map of the A prediction and classes seen in training. Tied to /repo by the exact correspondence of SimpleARTMAP and ARTMAP (A/B states, map, targets, predict_ab) on contradictory/duplicated labels.",
    note="Trusted: Coq kernel+vm_compute; hand model + correspondence; total order on the numeric type (hypothesis, holds at R and Q); ARTMAP modelled with max_iter=1; predict_regression checked on the implementation only.",
    technique="Coq proof (invariant over histories, kernel-abstract) + model/implementation correspondence",
    ref="DESIGN.md section 7 C09"),
 "C12": dict(
    text="Proof (Coq, axiom-free): training a chain of supervised layers yields layers that each satisfy C09's map invariant for all rows and are chained (layer j+1's targets = layer j's A labels); hence labels_deep_ is the targets followed by the A-label columns, samples sharing a finer category share the coarser one, category counts never decrease with depth, map_deep carries stored labels to the top level, and predict's levels are nested. Tied to /repo by the exact correspondence of supervised DeepARTMAP (2-4 levels; fit, partial_fit, re-fit, predict); the tree property is also evaluated on unsupervised DeepARTMAP and SMART on the implementation.",
    note="Trusted: as C09. Unsupervised mode/SMART: theorems apply through ARTMAP = SimpleARTMAP on B labels (C09 correspondence); their Deep-level run is checked by the implementation-side oracle only.",
    technique="Coq proof (per-layer invariant + chaining, induction over layers) + correspondence",
    ref="DESIGN.md section 7 C12"),
})
CHECKS.update({
 "C02": dict(
    text="Proof (Coq): for EVERY kernel, after one pass each category is exactly the fold of the module's own update rule over exactly the rows labelled with it, in order (axiom-free), and one-update facts lift to all weights of all reachable states. At exact real arithmetic (stdlib real axioms): Fuzzy weights never increase, beta=1 fold = meet = a lower bound of all members attained in every coordinate (the bounding box), enclosure permanent, |w| >= rho d after every step in every mode that never lowers the vigilance; ART1 template decreasing / enclosure / bottom-up form / rho-cover; Hypersphere: each new sphere contains the old one (Cauchy-Schwarz + triangle inequality proved on lists), radius monotone and <= r_hat(1-rho); Ellipsoid radius monotone and <= r_hat(1-rho)/2; running mean = arithmetic mean. Tied to /repo by exact histories (Fuzzy/ART2-A) and direct kernel calls (all 8 modules, C03); all clauses are evaluated on the implementation after every presented sample for all 8 modules, bare and as SimpleARTMAP A-side. The vigilance bounds are lifted to every state reached by fit under every mode that never lowers the vigilance: Fuzzy |w| >= rho d on complement-coded rows, Hypersphere radii within [0, r_hat (1 - rho)].",
    note="Trusted: Coq kernel; ClassicalDedekindReals.sig_forall_dec, sig_not_dec, functional_extensionality_dep (stdlib reals); exact-real semantics (partial w.r.t. binary64 rounding); size bounds are for the vigilance in force (MT- lowers it by design); Gaussian/Bayesian sigma/cov recurrences and Bayesian det bound are checked on the implementation only.",
    technique="Coq proof (generic fold theorem by induction; real-analysis lemmas on lists) + correspondence + implementation-side clause oracle",
    ref="DESIGN.md section 7 C02"),
 "C03": dict(
    text="The Gallina kernels are the published equations; their tie to the code is a direct-call correspondence of category_choice / match_criterion / update / new_weight for all eight modules at a 2^-80 fixed-point instance (2^-30 relative tolerance), and of get_bounding_box / shrink_clusters at exact rationals. Proved (Coq, at exact reals): operator table of the binary match test for all modes incl. the inverted Bayesian test, bounding box for any n <= d, shrink keeps the centre and stays inside the box, ART2-A suppression, ART1 update form, Fuzzy fast learning = fuzzy AND. Purity and match_criterion_bin = op(M, rho) are checked on the implementation for every call. Transfer: Q2R is proved to be a homomorphism from the executed exact-rational instance to the real-number instance, so the Fuzzy ART choice / match / update functions and the fold of the update over a category's members that the correspondence executes are, on rational inputs, the real-number functions the theorems are about.",
    note="Trusted: as C02; np.linalg.det/inv modelled by cofactor expansion; exp by Taylor series in fixed point (correspondence only).",
    technique="Coq proof of derived facts and of the Q->R transfer of the executed instance + translation-validation-style direct-call correspondence",
    ref="DESIGN.md section 7 C03"),
 "C04": dict(
    text="Proof (Coq, axiom-free for the generic part): kernels are written in an error monad (zero divisor / missing value / out-of-range index = None) and a training step is defined whenever the kernel functions are defined on the stored weights - every index the search produces is in range and every visited match value exists; instances: Fuzzy ART with alpha > 0, ART2-A, Hypersphere with r_hat > 0 and r_hat - R + alpha > 0. Defined-ness of every kernel output is compared with the implementation (direct calls); fit / partial_fit / predict of all 8 modules and of compound estimators are run on legal extremes and any exception or non-finite value is reported. Lifted to whole calls (unbounded, every state / mode / epsilon / reset function): fit and partial_fit are defined on every valid data set for Fuzzy ART (alpha > 0, width >= 2), ART2-A, ART1 (L > 1, non-zero rows), and - under every mode that never lowers the vigilance, with alpha > 0 or rho > 0 - Hypersphere and Ellipsoid ART, via the proved invariant that stored radii stay within r_hat (1 - rho) resp. r_hat (1 - rho) / 2 - and for Gaussian ART (alpha >= 0, sigma_init > 0) via the proved layout invariant (positive standard deviations, count >= 1); predict is defined once a category exists (Fuzzy).",
    note="PARTIAL: overflow, underflow and cancellation are binary64 phenomena outside the exact model; Bayesian/QuadraticNeuron totality, and Hypersphere/Ellipsoid under MT- with a reset function, are covered by the correspondence and the implementation-side search, not by a theorem.",
    technique="Coq proof (totality of the search step) + correspondence + fault search on legal extremes",
    ref="DESIGN.md section 7 C04"),
})
CHECKS.update({
 "C10": dict(
    text="FusionART is modelled as a kernel over the BaseART machinery (vector of channel vigilances; activation = left-to-right gamma-weighted sum; per-channel match tests; channel-wise update / new weight on slices, fused weight split by the module weight lengths). Proved (Coq): resonance needs every channel's test to pass, update/new are channel-wise concatenations, every fused category is the fold of the channel-wise rule over exactly its members (axiom-free, from the generic fold theorem), one channel with gamma=1 computes the bare module's activation (exact reals). Tied to /repo by the exact correspondence of FusionART histories (1-4 channels, reset functions, all modes); channel refinement, equal counts, concatenation, public choice/match vs modules, one-channel-vs-bare, channel permutation and long-weight modules are checked on the implementation.",
    note="Trusted: Coq kernel (+ stdlib real axioms for the one-channel theorem); correspondence with Fuzzy/ART2-A channels at exact rationals; channel-permutation invariance and long-weight modules are implementation-side checks only (no theorem).",
    technique="Coq proof (kernel-level + generic fold theorem) + model/implementation correspondence",
    ref="DESIGN.md section 7 C10"),
 "C11": dict(
    text="Proved (Coq): with channels skipped the fused activation does not read the skipped columns (axiom-free), adding the constant contributed by skipped channels does not change the arg-max (exact reals), split_channel_data inverts join_channel_data on the supplied channels for any skip set (axiom-free); negative indices are normalised in the model as in the code. Tied to /repo by the correspondence of predict(skip_channels=...) with positive and negative indices; filler independence, arg-max over the remaining channels, predict_regression = target-channel centre, join/split and prepare/restore inverses are checked on the implementation.",
    note="Trusted: as C10; prepare/restore round trip is an implementation-side numeric check (its exact-real statement is C18's).",
    technique="Coq proof + correspondence",
    ref="DESIGN.md section 7 C11"),
 "C16": dict(
    text="Proved (Coq, exact reals): SARSA targets equal clip(Q_t + alpha (r_t + lambda Q_{t+1} - Q_t), 0, 1) for every transition but the last, lie in [0,1], their complement coding passes Fuzzy ART validation, with Q = 0 and alpha = 1 the target is the reward; get_action returns the first maximiser of the predicted rewards. Tied to /repo by (i) the FusionART correspondence run on FALCON's own fusion_art after fit / partial_fit on the joined rows and (ii) calculate_SARSA vs the Gallina sarsa_targets at exact rationals over several episodes; get_rewards / get_action (max and min, ties) are checked on the implementation.",
    note="Trusted: as C10; reward/action modules Fuzzy ART; get_action for 1-D reward centres; 'r alone before training' is read as the same formula with Q = 0.",
    technique="Coq proof + correspondence",
    ref="DESIGN.md section 7 C16"),
})
CHECKS.update({
 "C13": dict(
    text="Proof (Coq, axiom-free): DualVigilanceART's own loop equals a scan of the visiting order with the three-way decision (first non-vetoed category passing the upper vigilance absorbs; else the first passing only the lower vigilance spawns a category with the same cluster label; else a brand-new label); every step keeps the map's keys = the base categories, its values contiguous = exactly 0..n_clusters-1 (n_clusters = distinct values = largest label + 1), returns a label of the map, never re-labels an existing category and restores the vigilance. Tied to /repo by the exact correspondence of DualVigilanceART histories (base state, map, own counter, n_clusters, reset-function log with cluster labels, predictions); the decision, map shape, label/prediction ranges and the base module's size bound are re-derived on the implementation.",
    note="Trusted: Coq kernel+vm_compute, hand model + correspondence. The loop visits only categories with positive activation (as the code does); the theorem states that filter explicitly.",
    technique="Coq proof (refinement search=scan, invariant over steps) + correspondence",
    ref="DESIGN.md section 7 C13"),
 "C14": dict(
    text="Proof (Coq, axiom-free; total order on activations as hypothesis): the two winners of a TopoART step are distinct categories; a step and a pruning round each keep weights, counters, permanence flags and the adjacency matrix aligned (square, one row per category, zero diagonal); pruning keeps exactly the categories with >= phi samples or already permanent, in order, and makes them permanent; hence after any fit with any number of pruning rounds (also ones removing everything) the state is aligned. Tied to /repo by the exact correspondence of TopoART.fit / re-fit / predict (weights, counters, labels incl. -1, adjacency, permanence flags, reset-function log) with several pruning rounds; the two-winner step, edge increment, counters and the full pruning spec (incl. label re-indexing and orphans) are re-derived on the implementation after every sample.",
    note="Trusted: as C13. Training through fit only (partial_fit never prunes: known finding under C06).",
    technique="Coq proof (invariant over steps and pruning rounds) + correspondence",
    ref="DESIGN.md section 7 C14"),
})
CHECKS.update({
 "C15": dict(
    text="Proof (Coq, exact reals, unbounded): an invariant of the incremental Calinski-Harabasz state - the dictionary holds, for exactly the labels in use, the count, mean, within-cluster sum of squares and a zero correction vector of that label's members, WGSS is their sum, mu the global mean, and the criterion equals the batch index - is established by the empty index and preserved by add_sample+update and by switch_label+update (to an existing, a brand-new or the same cluster); hence after ANY interleaving of add_sample / switch_label that the API permits (a switch never empties a cluster) every operation was defined and the tracked value equals the batch index of the current labelled data, in any dimension (0 while undefined). The gate (a sample joins an existing cluster only if the reset function - strict improvement - returned true for it) is the generic winner-not-vetoed theorem. For the model of iCVIFuzzyART.fit (online and offline, every kernel / mode / epsilon) it is proved that a defined fit ends with the tracked value equal to the batch index of (X, labels_). The executable model is compared with the implementation after every operation of generated sequences and after fits (offline/online), and with the batch index by exact rational equality; tracked value vs an independent batch computation and the gate (iCVIFuzzyART, CVIART incl. CVIART over DualVigilanceART, all three sklearn indices) are re-derived on the implementation.",
    note="Trusted: Coq kernel + stdlib real axioms; exact-real semantics (binary64 rounding residue of WGSS: known finding); sklearn indices as given; fits with a validity comparison closer than 1e-9 are not judged against the model.",
    technique="Coq proof (state invariant by induction over operation sequences; generic gate theorem) + correspondence incl. model-vs-batch exact check",
    ref="DESIGN.md section 7 C15"),
})
CHECKS.update({
 "C17": dict(
    text="Proof (Coq, axiom-free): rows_/columns_ as built from the row and column labels have one row per (row-cluster, column-cluster) pair and the widths of the matrix, every cell belongs to exactly one bicluster (the one of its row and column cluster, which exists), membership agrees with the labels. Tied to /repo by comparing the real rows_/columns_ after BARTMAP.fit with the Gallina construction from the implementation's own labels; shapes, partition, membership and 'column clustering = column module alone on X^T' are checked on the implementation for square and non-square matrices and all eta.",
    note="Trusted: Coq kernel, hand model + correspondence. The row veto (Pearson correlation through scipy) is not modelled; fit fails on non-square matrices and on singleton column clusters (two known findings), so the partition theorem is exercised on the fits that complete.",
    technique="Coq proof (list combinatorics) + correspondence",
    ref="DESIGN.md section 7 C17"),
 "C18": dict(
    text="Proof (Coq, exact reals): normalisation maps into [0,1] and de_normalize inverts it column by column for non-constant columns, de_compliment_code inverts compliment_code, complement-coded data in the unit cube passes Fuzzy ART's validation, later prepare_data calls re-use the first call's bounds, and a batch failing validation makes fit/partial_fit/predict return no state. Tied to /repo by histories with interleaved invalid batches (out of range, wrong width, not complement-coded, non-binary): the model's validation must reject exactly the batches the implementation rejects and the history must continue identically; prepare/restore round trips (11 estimator kinds, scales 1e-3..250, negative offsets) and full snapshots around rejected calls (elementary and compound estimators) are checked on the implementation.",
    note="Trusted: Coq kernel + stdlib real axioms; 'to numerical precision' = exact in the theorem, 1e-9 on the implementation; ART1 histories are implementation-side only (non-dyadic bottom-up weights).",
    technique="Coq proof + correspondence with malformed-input stream",
    ref="DESIGN.md section 7 C18"),
 "C20": dict(
    text="Proof (Coq, axiom-free, generic in the totally pre-ordered distance type): VAT's index vector is a permutation of all samples, it starts at the row of the first largest entry of the matrix, every iteration appends an unvisited sample at minimal distance from the visited set, and the returned matrix is the input re-ordered by the permutation. Tied to /repo by the exact correspondence on precomputed matrices (duplicates, equidistant points, asymmetric input); the Prim property is also checked on the implementation through pdist with the default and a custom metric.",
    note="Trusted: Coq kernel, hand model + correspondence; scipy pdist/squareform as given; square input.",
    technique="Coq proof (permutation invariant, arg-min specification) + correspondence",
    ref="DESIGN.md section 7 C20"),
})
CHECKS.update({
 "C19": dict(
    text="PARTIAL proof (Coq, axiom-free): on a model of BaseART's params protocol - set_params(get_params) is a no-op, unknown names and values failing the class's validation are rejected, after set_params the attribute reads the new value and nothing else changed (same keys) - and on an ownership model of stored arrays: a model all of whose stored arrays are its own is unaffected by any later mutation of the caller's array (and a stored view is affected: the defect repaired in new_weight). Tied to /repo by the exact correspondence of get/set/attribute sequences on the elementary estimators. Everything else the property states is decided on the implementation: nested module__name exposure, constructed-vs-set_params twins, fit returns self, sklearn.clone, mutation of X / y after training, deepcopy / pickle at a random point then continued training of both, interleaved instances - for 12 estimator kinds.",
    note="Trusted: Coq kernel, hand model + correspondence; sklearn.clone / copy.deepcopy / pickle are third-party and not modelled. Known findings: clone fails for FusionART, DeepARTMAP, SMART, TopoART, CVIART; TopoART/CVIART set_params does not reach the base module.",
    technique="Coq proof on a protocol/ownership model + correspondence + implementation-side relations",
    ref="DESIGN.md section 7 C19"),
})
NOT_YET = {}

# later sessions: what was added on top of the texts above
ADDENDA = {
 "C02": " Added: the size-bound clause for the BASE MODULES of TopoART and DualVigilanceART, generically in the base module (Wrap_bound.v) and instantiated for Fuzzy (|w| >= rho d), Hypersphere and Ellipsoid ART at the level of whole fit calls, under every mode that never lowers the vigilance (true only since /repo 79caf04 / 8381662: match tracking fires on vigilance-passing vetoed categories alone). Oracles: wrapped streams with reset functions, late set_params on the base module, DualVigilanceART over BayesianART, boundary beta_lower; probes of the independent audits (DESIGN 0.9).",
 "C03": " Added: a freshly committed ART1 category is a fixed point of its founding pattern, both halves of the weight (ART1_new.v; true only since /repo 4a12d55, the previous divisor L-1+dim kept as art1_new_before_fix_refuted); the Ellipsoid model follows the repaired major-axis rule (/repo 45d03fa). Oracle: relations the published equations impose on every trained weight (ART1 bottom-up rule, founding pattern is a fixed point, Ellipsoid axis zero exactly for one-point categories, unit otherwise, never changed afterwards); audit probes (QuadraticNeuronART centres, shrink ratios above 1/2).",
 "C17": " Added (axiom-free, Bartmap_fit.v): BARTMAP.fit as a whole - both data sets validated first, the column module fitted alone on the transposed matrix, the row module fitted with the row veto (an oracle: a function of the row number, universally quantified) - ends in a checkerboard: shapes, widths, every cell in exactly one bicluster, membership = labels, with NO hypothesis on the labels (they are what the two fits produce; C05's invariant supplies the ranges). Correspondence: whole fit calls on square grid matrices against the model, the implementation's own veto verdicts as oracle. BARTMAP's row veto over a DualVigilanceART column module (repaired /repo 30c6fc7; the ValueError is filed under the recorded empty-cluster finding only when a cluster really is empty); audit probes (constant rows / columns, pruning TopoART as column module).",
 "C16": " Added (Falcon_ep.v): whole calculate_SARSA calls for episodes of every length >= 1 (one target per kept row, every target a valid reward-channel input, a one-step episode trains on its own reward row or the complement-coded single_sample_reward), the untrained target for every td_alpha (clip(alpha r)), and the greedy action 'minimal on request'. Correspondence for whole calls incl. one-step episodes; default action space.",
 "C15": " Oracle: CVIART fits of 1-3 epochs, every step judged against the labelling before that step, exceptions on valid data are failures (two defects repaired: CVI_match on labellings without an index, iCVI_CH on the caller's array / dtype); add/switch streams as unsigned / boolean / float32 rows and through one re-used buffer. Added (axiom-free, CVI_gate.v): the CVIART gate as repaired - a permitted assignment strictly improves the index whenever both labellings have one, an assignment that does not is refused, a verdict always exists (no index for < 2 or n distinct labels: permitted); correspondence of every recorded CVI_match call (corr/RunGate.v, scikit-learn's index values as oracle). Added (ICVI_remove.v, ICVI_remove_inv.v): remove_sample + update preserves the structural invariant, so the tracked value is the batch index of the data that remain (true since /repo 16fa704; the old sign kept as remove_mean_before_fix_refuted); correspondence of add / remove sequences (corr/RunICVIrm.v). The CVIART gate as finally repaired (99d1851): an assignment that would turn a defined index into an undefined one is refused (C15_cviart_gate_refuses_losing_the_index; the lenient intermediate version kept as a counter-example). And for any sequence of add / switch / remove operations the API permits (ICVI_ops3.v: C15_any_permitted_sequence_with_removals_tracks_the_batch_index).",
 "C12": " Oracle: SMART / DeepARTMAP over every elementary module class as level model, 2..4 levels (Bayesian: decreasing ladder). Added (axiom-free, Deep_tree.v): along the WHOLE chain of levels the category counts never decrease, and sharing a category at any finer level implies sharing one at EVERY coarser level.",
 "C09": " Oracle: the public map_a2b on vectors and single labels. Added (axiom-free, SAM_reach.v): for every state reachable by any history of fit / partial_fit calls the stored A-side labels map to the supplied targets and a prediction is a seen class; between two fits an A-side category keeps its class for the whole history (the map only grows).",
 "C01": " Oracle: the search as SimpleARTMAP drives it (its own reset function) against the specification scan, all eight modules.",
 "C20": " Added (axiom-free, VAT_prim.v): Prim's rule along the WHOLE returned order (every sample after the first is an unvisited sample closest to the samples before it - by induction over the loop with its prefix/permutation invariant), and symmetry / zero diagonal of the returned matrix for such input.",
 "C04": " Added: whole-call totality for two compound estimators, TopoART and DualVigilanceART over Fuzzy ART with alpha > 0 (two-winner search, both updates, pruning rounds with re-prediction; the category-to-cluster map is total by the map invariant). Oracle: every boundary value of every hyper-parameter that validate_params accepts must train and predict (found and repaired: tau=0, r_hat<=0, sigma_init<=0, L=inf, singular cov_init); audit probes.",
 "C05": " Added (axiom-free): the same invariant for the A side of SimpleARTMAP / ARTMAP - established by a one-epoch fit, preserved by every partial_fit, together with 'one stored target per A-side label' (SAM_book.v). Oracle: a label must be usable as an index (integer dtype). Third audit: CVIART over DualVigilanceART (clusters = distinct map values), refused calls (NotImplementedError) must leave the book-keeping as it was, class labels that are not small integers arriving in the narrowest dtype of each batch (three defects repaired). Added (axiom-free, BaseArt_epochs.v): fit with several epochs - the book-keeping is about the whole history L of assignments (categories in order of first use in L, counters = histogram of L, sample_counter_ = |L| = epochs * n, labels_ = the last epoch's part of L), hence every label indexes an existing category; correspondence of 2-3 epoch fits (corr/RunBaseN.v).",
 "C07": " Added (axiom-free): every training call of SimpleARTMAP, DualVigilanceART and TopoART leaves the wrapped module's vigilance as configured, for every kernel, mode, epsilon and reset function, through every exit path and pruning round (Wrap_rho.v).",
 "C06": " Added (axiom-free): the same batching theorems for SimpleARTMAP (whole state incl. the category-to-class map and the stored targets; first call and later calls; any partition into batches; fit = any batching on a fresh estimator) for ARTMAP (B side + A side on the batch's B labels) and for the DeepARTMAP / SMART layer chain (SAM_hist.v, Deep_hist.v). classes_ is part of the compared state (a defect repaired: partial_fit never wrote it).",
 "C08": " Added (axiom-free, Wrap_pred.v): DualVigilanceART and SimpleARTMAP predict row by row, each row gets the map image of the base module's oldest arg-max category, and a DualVigilanceART prediction is < n_clusters. The purity snapshot compares the whole __dict__ (remembered widths included; CVIART.predict creating dim_ was a genuine defect, repaired).",
 "C10": " Added: the activation of a category is the gamma-weighted sum of the channel modules' own activations (Fusion_skip.v), and - the permutation clause at the level of one category - the fused activation depends only on the multiset of (channel activation, gamma) pairs and the fused vigilance test only on the multiset of per-channel verdicts (Fusion_perm.v; exact arithmetic). Oracles: binary rows as int64 / uint8 / float32, one-channel FusionART vs the bare module as A side of SimpleARTMAP with the channel parameters restored. Added (axiom-free, Fusion_w.v): the W attribute in both directions - setter after getter and getter after setter are identities (the setter cuts every fused weight at the module weight lengths; repaired /repo 61f72ea). Oracles: est.W = est.W on trained mixed-module models, gamma given as int / float64 / float32 / float16 arrays.",
 "C11": " Added: with channels withheld the activation IS the gamma-weighted sum of the remaining channels' own activations (Fusion_skip.v; a skipped channel contributes 0 since /repo ee23ec6), prepare/restore with skipped channels (Fusion_prep.v). Oracles: arbitrary fillers (NaN, out of range, not complement coded) in the skipped columns, step_pred with negative indices, non-dyadic gammas with all but one channel withheld (rounding), an ART1 channel withheld, channels of mixed dtypes. Added (Fusion_prep_inv.v): the other direction of 'mutually inverse' - prepare_data applied to what restore_data returns (one block per supplied channel, accepted since /repo 67c6f3c). Oracles: prepare(restore(.)) for every skip subset of 2-4 channels, raw data in int8 / int16 / uint8 / bool.",
 "C13": " Added: every base category obeys the base module's upper-vigilance bound after every whole fit call (Fuzzy, Hypersphere, Ellipsoid instances of the generic theorem in Wrap_bound.v); the map invariant after every whole fit / partial_fit call (DualVig_reach.v).",
 "C14": " Added: both winners passed a vigilance at least as large as the configured one under every mode that never lowers it (Topo_bound.v), with the pre-fix search kept as a refuted variant (C14_search_before_fix_refuted); re-labelling at a pruning round (Topo_labels.v). Added (Topo_epochs.v): fit with several epochs (max_iter > 1) - the alignment invariant after every epoch, with pruning rounds that meet survivors owning no sample; correspondence of 2-3 epoch fits (corr/RunTopoN.v) and an implementation-side oracle that judges every pruning round of 1-3 epoch fits over ART2-A / Fuzzy / Hypersphere bases against the statement.",
 "C18": " Added oracles: a wrong-width matrix at the FIRST call for the modules whose hyper-parameters fix the width (ART2A, BayesianART, GaussianART: three defects repaired), integer-dtype invalid batches. Added (Prep_whole.v): whole first calls - for any rectangular data set with non-constant columns the output lies in the unit cube, passes Fuzzy ART's validation after complement coding (double width) and is restored exactly; later data inside the remembered bounds likewise. Oracle: whole-number matrices stored as int8 / int16 / int32 / uint8 / bool (a defect repaired: normalize computed in the caller's dtype).",
 "C19": " The protocol model now states validate-then-assign (a rejected set_params changes nothing: C19_rejected_call_changes_nothing; the old behaviour is kept as set_params_before_fix_refuted). Oracles: rejected calls leave all params and attributes unchanged, module-valued entries in the set_params(get_params) round trip, doubly nested names. Oracles: a sub-estimator replaced together with one of its parameters, rejected calls that also replace a module (two defects repaired). Added (axiom-free, Params_nested.v): set_params with sub-estimators - own parameters, module replacement and nested values in one call: an unknown name or an invalid own value changes nothing; a module replaced together with one of its parameters receives the value (either keyword order; before /repo 32a9a46 the value went to the module being replaced: nested_before_fix_refuted). Correspondence on DualVigilanceART and BARTMAP over Fuzzy ART (corr/RunParamsN.v), incl. the recorded partial application when a later nested group is rejected.",
}
# wave 7 (end of session 4): implementation-side oracles added after the seeded changes the checks had missed
ADDENDA7 = {
 "C01": " The step oracle presents the stream through one re-used (1, d) buffer, so a category that aliases the caller's row moves with the next sample and is reported.",
 "C04": " Oracle: fits of 2-3 epochs (every elementary module; CVIART with all three indices, iCVIFuzzyART, TopoART, DualVigilanceART, SimpleARTMAP, FusionART), from loose vigilance to one sample per category.",
 "C05": " Oracle: re-fit histories (fit, fit on a permuted part, fit again) and DualVigilanceART's own book-keeping (one map entry per stored base category, values 0 .. n_clusters-1).",
 "C09": " Oracle: histories with refused partial_fit batches (non-integral targets, wrong length, NaN): the map and both label vectors are judged right after the refusal.",
 "C10": " Oracle: the whole fused fit replayed with freshly constructed modules that are only given the channel weights (labels, weights, public activation) for seven module classes as a channel - nothing a module instance keeps between calls can enter the reference.",
 "C12": " Oracle: the caller overwrites its batch arrays after every training call; the top column of labels_deep_ is compared with the targets that were presented.",
 "C17": " Oracle: a pruning TopoART row module on structured rows (lone rows, then groups of near copies); the recorded noise-row finding is matched by its exact pattern only.",
 "C19": " Oracle: set_params on an estimator that was fitted before (fine vigilance), then fit, against a constructed twin (labels, predictions, map, cluster count).",
}
ADDENDA7B = {
 "C06": " Added (axiom-free): a fit of a model WITH a history equals the fit of a freshly constructed one with the same vigilance, for DualVigilanceART (categories, counters, the category-to-cluster map, the wrapper's counter; proved by showing that no step reads the base module's running sample counter, the only thing that survives - DualVig_refit.v), TopoART (adjacency and permanence flags are replaced by the first step - Topo_refit.v) and SimpleARTMAP (A side, map, stored targets, any number of epochs - SAM_refit.v).",
 "C12": " Added (axiom-free, Deep_compose.v): the k-th level of a prediction above the finest is the composition of the first k+1 layers' maps applied to the finest B-side prediction (what map_deep computes); one level per layer.",
 "C14": " Added (axiom-free): a pruning round that leaves a category leaves no sample at -1, samples orphaned by an earlier round included (Topo_noise.v); a fit of a TopoART with a history is the fit of a fresh one (Topo_refit.v).",
 "C15": " Added (axiom-free, CVI_gate_edge.v): one cluster per sample and a single cluster have no validity index, for every n, and the gate then permits the assignment without evaluating one.",
 "C19": " Added (axiom-free, Params_refit.v): a module / DualVigilanceART / TopoART / SimpleARTMAP WITH a training history that is given a new vigilance and then fitted equals a freshly constructed estimator with that vigilance, fitted (corollaries of the fit-forgets theorems).",
 "C16": " Added (Falcon_edge.v): without bootstrapping (lambda = 0) the target is clip(Q + alpha (r - Q)), which differs from the 'untrained' short-cut clip(alpha r) whenever the estimate is positive and alpha < 1; with alpha = 0 the target is the clipped estimate.",
}
for _k, _v in list(ADDENDA.items()) + list(ADDENDA7.items()) + list(ADDENDA7B.items()):
    CHECKS[_k]["text"] += _v

def main():
    props = [json.loads(l) for l in open(os.path.join(V, "properties.jsonl"))]
    checks, na = [], []
    for p in props:
        pid = p["id"]
        if pid in CHECKS:
            c = CHECKS[pid]
            checks.append({
                "property_id": pid,
                "quick_cmd": f"bin/check {pid} quick",
                "thorough_cmd": f"bin/check {pid} thorough",
                "evidence_file": f"/verif/evidence/{pid}.json",
                "replay_cmd_template": "bin/replay {path}",
                "engine": "coq-corr",
                "level_claimed": {"category": "proof", "text": c["text"], "design_ref": c["ref"]},
                "level_note": c["note"],
                "technique": c["technique"],
            })
        else:
            na.append({"property_id": pid, "reason": NOT_YET.get(pid, "check not built yet in this round (the technique applies; see DESIGN.md section 7)")})
    m = {
        "version": 1,
        "setup_cmd": "bin/setup",
        "hooks": {"guard": "ARTLIB_VERIF", "enable": "no source hooks are needed: all instrumentation is harness-side (instance-level wrappers)",
                  "baseline_off_cmd": "cd /repo && /venv/bin/python -m pytest -ra -q -p no:cacheprovider --timeout=900 --continue-on-collection-errors",
                  "source_commits": [], "add_only": True},
        "engines": [{"name": "coq-corr", "path": "/verif/coq + /verif/harness",
                     "serves_properties": sorted(CHECKS), "kind_free_text": "Coq 8.16 proofs about a hand-written Gallina model + differential correspondence against /repo via vm_compute"}],
        "checks": checks,
        "not_applicable": na,
        "notes": "Family: machine-checked proof in Coq 8.16.1. See DESIGN.md.",
    }
    json.dump(m, open(os.path.join(V, "MANIFEST.json"), "w"), indent=1)
main()

"""writes MANIFEST.json from the table below (kept valid at all times)"""
import json, os
V = os.path.dirname(os.path.dirname(os.path.abspath(__file__)))
CHECKS = {
 "C01": dict(
    text="Proof (Coq, axiom-free, unbounded): the NaN-masking search loop equals a left-to-right scan of the categories sorted by (activation desc, index asc); nanargmax = oldest maximiser; a training step replaces only the winner's weight or appends exactly one; vigilance restored. Model tied to /repo by an exact-rational correspondence of fit/partial_fit (weights, labels, counters, params, reset-function log) on tie-/veto-heavy grid cases, all 5 modes; failing-input search = the specification scan on the implementation's own kernel outputs.",
    note="Trusted: Coq kernel+vm_compute; hand model + correspondence harness; exact-arithmetic reading of the kernels (float rounding not modelled); reset functions independent of params.",
    technique="Coq proof (refinement search=scan, induction) + model/implementation correspondence at exact rationals",
    ref="DESIGN.md section 7 C01"),
}
NOT_YET = {}
def main():
    props = [json.loads(l) for l in open(os.path.join(V, "properties.jsonl"))]
    checks, na = [], []
    for p in props:
        pid = p["id"]
        if pid in CHECKS:
            c = CHECKS[pid]
            checks.append({
                "property_id": pid,
                "quick_cmd": f"bin/check {pid} quick",
                "thorough_cmd": f"bin/check {pid} thorough",
                "evidence_file": f"/verif/evidence/{pid}.json",
                "replay_cmd_template": "bin/replay {path}",
                "engine": "coq-corr",
                "level_claimed": {"category": "proof", "text": c["text"], "design_ref": c["ref"]},
                "level_note": c["note"],
                "technique": c["technique"],
            })
        else:
            na.append({"property_id": pid, "reason": NOT_YET.get(pid, "check not built yet in this round (the technique applies; see DESIGN.md section 7)")})
    m = {
        "version": 1,
        "setup_cmd": "bin/setup",
        "hooks": {"guard": "ARTLIB_VERIF", "enable": "no source hooks are needed: all instrumentation is harness-side (instance-level wrappers)",
                  "baseline_off_cmd": "cd /repo && /venv/bin/python -m pytest -ra -q -p no:cacheprovider --timeout=900 --continue-on-collection-errors",
                  "source_commits": [], "add_only": True},
        "engines": [{"name": "coq-corr", "path": "/verif/coq + /verif/harness",
                     "serves_properties": sorted(CHECKS), "kind_free_text": "Coq 8.16 proofs about a hand-written Gallina model + differential correspondence against /repo via vm_compute"}],
        "checks": checks,
        "not_applicable": na,
        "notes": "Family: machine-checked proof in Coq 8.16.1. See DESIGN.md.",
    }
    json.dump(m, open(os.path.join(V, "MANIFEST.json"), "w"), indent=1)
main()

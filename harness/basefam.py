"""Cases for BaseART-derived elementary estimators: generation, driving the
real implementation, canonical snapshots, emission as Gallina literals for
corr/RunBase.v.  Shared by C01, C05, C06, C07, C08 (and C02/C04 histories).
"""
import copy
import math
import pickle
import sys
import warnings
from fractions import Fraction

import numpy as np

from common import q, qlist, qmat, natlist, boollist, coq_option, coq_list, coq_bool, REPO

sys.path.insert(0, REPO)
warnings.filterwarnings("ignore")

MODES = ["MT+", "MT-", "MT0", "MT1", "MT~"]
MODE_COQ = {"MT+": "MTplus", "MT-": "MTminus", "MT0": "MT0", "MT1": "MT1", "MT~": "MTtilde"}
SENTINEL = Fraction(-987654321)


# ------------------------------------------------------------------ estimators
def make_est(k):
    """k: dict(kind=..., params...) -> estimator instance"""
    import artlib
    kind = k["kind"]
    if kind == "Fuzzy":
        return artlib.FuzzyART(rho=float(k["rho"]), alpha=float(k["alpha"]), beta=float(k["beta"]))
    if kind == "ART1":
        return artlib.ART1(rho=float(k["rho"]), L=float(k["L"]))
    if kind == "ART2A":
        return artlib.ART2A(rho=float(k["rho"]), alpha=float(k["alpha"]), beta=float(k["beta"]))
    if kind == "Hyper":
        return artlib.HypersphereART(rho=float(k["rho"]), alpha=float(k["alpha"]), beta=float(k["beta"]), r_hat=float(k["r_hat"]))
    if kind == "DV":                     # DualVigilanceART over a base kernel (nesting oracles)
        return artlib.DualVigilanceART(make_est(k["base"]), rho_lower_bound=float(k["lb"]))
    if kind == "Fusion":                 # FusionART over several kernels (nesting oracles)
        return artlib.FusionART([make_est(m) for m in k["mods"]], gamma_values=[float(g) for g in k["gammas"]],
                                channel_dims=[int(d) for d in k["dims"]])
    if kind.startswith("K:"):            # any of the eight modules with float hyper-parameters (implementation-side oracles only)
        import kernfam
        return kernfam.make(kind[2:], k["p"])
    raise ValueError(kind)


def kspec_coq(k):
    kind = k["kind"]
    if kind == "Fuzzy":
        return f"(KFuzzy {q(k['alpha'])} {q(k['beta'])})"
    if kind == "ART1":
        return f"(KART1 {q(k['L'])})"
    if kind == "ART2A":
        return f"(KART2A {q(k['alpha'])} {q(k['beta'])})"
    raise ValueError(kind)


# ------------------------------------------------------------------ veto tables
class Veto:
    """reset function defined by a boolean table over (row key, category);
    logs every call with the vigilance in force."""

    def __init__(self, est, tbl, a, b, keys):
        self.est, self.tbl, self.a, self.b = est, tbl, a, b
        self.keys = keys          # dict: row bytes -> key
        self.log = []

    def __call__(self, x, w, c_, params=None, cache=None):
        key = self.keys[np.asarray(x, dtype=float).tobytes()]
        r = rho_of(self.est)
        self.log.append((int(c_), r))
        return bool(self.tbl[(self.a * key + self.b * int(c_)) % len(self.tbl)])


def rho_of(est):
    if hasattr(est, "modules") and not hasattr(est, "layers"):
        return [fr(m.params["rho"]) for m in est.modules]
    if hasattr(est, "base_module"):
        return [fr(est.base_module.params["rho"])]
    return [fr(est.params["rho"])]


def fr(x):
    x = float(x)
    if not math.isfinite(x):
        return SENTINEL
    return Fraction(x)


def row_keys(X):
    """key of a row = index of its first occurrence"""
    keys, out = {}, []
    for i, r in enumerate(X):
        b = np.asarray(r, dtype=float).tobytes()
        if b not in keys:
            keys[b] = i
        out.append(keys[b])
    return keys, out


# ------------------------------------------------------------------ snapshots
def finite_all(est):
    try:
        for w in est.W:
            if not np.all(np.isfinite(np.asarray(w, dtype=float))):
                return False
    except Exception:
        return False
    return True


def snapshot(est):
    W = [[fr(v) for v in np.asarray(w, dtype=float).ravel()] for w in getattr(est, "W", [])] if hasattr(est, "W") else []
    return {
        "W": W,
        "labels": [int(v) for v in getattr(est, "labels_", [])],
        "wsc": [int(v) for v in est.weight_sample_counter_],
        "sc": int(est.sample_counter_),
        "rho": rho_of(est),
    }


def canon_state(est):
    """hashable canonical state used for before/after comparisons (C07, C08)"""
    s = snapshot(est)
    return repr(s) + repr(sorted((k, repr(v)) for k, v in est.params.items()))


# ------------------------------------------------------------------ driving
def run_ops(k, ops):
    """ops: list of dicts {op: fit|partial_fit|predict, X: ndarray, mode, eps, veto: None|{tbl,a,b}}.
    Returns (est, observations)."""
    est = make_est(k)
    obs = []
    for o in ops:
        X = np.array(o["X"], dtype=float)
        rec = {"ok": True, "err": None, "logs": [], "ret": []}
        veto = None
        if o.get("veto") is not None:
            keys, _ = row_keys(X)
            veto = Veto(est, o["veto"]["tbl"], o["veto"]["a"], o["veto"]["b"], keys)
        try:
            with np.errstate(all="ignore"):
                if o["op"] == "fit":
                    r = est.fit(X, match_reset_func=veto, match_tracking=o["mode"], epsilon=float(o["eps"]))
                    rec["ret_self"] = r is est
                elif o["op"] == "partial_fit":
                    r = est.partial_fit(X, match_reset_func=veto, match_tracking=o["mode"], epsilon=float(o["eps"]))
                    rec["ret_self"] = r is est
                elif o["op"] == "predict":
                    rec["ret"] = [int(v) for v in est.predict(X)]
                else:
                    raise ValueError(o["op"])
            if not finite_all(est):
                rec["ok"] = False
                rec["err"] = "nonfinite"
        except Exception as e:  # noqa
            rec["ok"] = False
            rec["err"] = type(e).__name__ + ": " + str(e)[:100]
        if veto is not None:
            rec["logs"] = veto.log
        rec["snap"] = snapshot(est) if rec["ok"] else None
        obs.append(rec)
        if not rec["ok"]:
            break
    return est, obs


# ------------------------------------------------------------------ emission
def vspec_coq(v):
    if v is None:
        return "None"
    return f"(Some (mkVspec {boollist(v['tbl'])} {v['a']} {v['b']}))"


def log_coq(log):
    return coq_list([f"({c}%nat, {qlist(r)})" for c, r in log])


def obs_coq(rec):
    if not rec["ok"]:
        return "ObsUndef"
    s = rec["snap"]
    return (f"(ObsOk (mkSnap {qmat(s['W'])} {natlist(s['labels'])} {natlist(s['wsc'])} {s['sc']}%nat "
            f"{qlist(s['rho'])}) {log_coq(rec['logs'])} {natlist(rec['ret'])})")


def op_coq(o, rec):
    X = [[Fraction(float(v)) for v in r] for r in o["X"]]
    if o["op"] == "predict":
        return f"(OpPredict {qmat(X)}, {obs_coq(rec)})"
    _, keys = row_keys(np.array(o["X"], dtype=float))
    ctor = "OpFit" if o["op"] == "fit" else "OpPFit"
    return (f"({ctor} {qmat(X)} {natlist(keys)} {vspec_coq(o.get('veto'))} {MODE_COQ[o['mode']]} {q(o['eps'])}, "
            f"{obs_coq(rec)})")


def case_coq(k, ops, obs):
    body = coq_list([op_coq(o, r) for o, r in zip(ops, obs)])
    return f"(mkCase {kspec_coq(k)} [{q(k['rho'])}] {body})"


# ------------------------------------------------------------------ generation
def grid_rows(rng, n, d, den=8, pool=None, cc=True):
    """n rows of raw dimension d on the k/den grid, drawn from a small pool so
    that duplicates and ties are frequent; complement-coded when cc."""
    pool_n = pool or max(2, min(n, rng.choice([2, 3, 4, 6, 8])))
    base = [[Fraction(rng.randrange(0, den + 1), den) for _ in range(d)] for _ in range(pool_n)]
    rows = []
    for _ in range(n):
        r = list(rng.choice(base))
        if rng.random() < 0.15:
            j = rng.randrange(d)
            r[j] = Fraction(rng.randrange(0, den + 1), den)
        rows.append(r + [1 - v for v in r] if cc else r)
    return rows


def gen_veto(rng, p=0.5):
    L = rng.choice([5, 7, 11])
    dens = rng.choice([0.3, 0.5, 0.7, 0.9])
    return {"tbl": [rng.random() < dens for _ in range(L)], "a": rng.randrange(1, 6), "b": rng.randrange(1, 6)}


def gen_fuzzy_kernel(rng, exact=True):
    beta = rng.choice([Fraction(1), Fraction(1), Fraction(1, 2), Fraction(3, 4)])
    alpha = rng.choice([Fraction(1, 1024), Fraction(1, 8), Fraction(0), Fraction(1, 1024)])
    rho = Fraction(rng.randrange(0, 9), 8)
    if rho == 0 and alpha == 0:
        alpha = Fraction(1, 1024)      # the quantifier's standing assumption
    return {"kind": "Fuzzy", "rho": rho, "alpha": alpha, "beta": beta}


def gen_mode(rng):
    mode = rng.choice(MODES)
    eps = rng.choice([Fraction(0), Fraction(1, 1024), Fraction(1, 4), Fraction(1, 16)])
    return mode, eps


def split_batches(rng, rows, k):
    """random composition of rows into k non-empty consecutive batches"""
    n = len(rows)
    k = max(1, min(k, n))
    cuts = sorted(rng.sample(range(1, n), k - 1)) if k > 1 else []
    out, prev = [], 0
    for c in cuts + [n]:
        out.append(rows[prev:c])
        prev = c
    return out


def gen_art2a_kernel(rng):
    beta = rng.choice([Fraction(1), Fraction(1, 2), Fraction(3, 4), Fraction(1, 4)])
    alpha = rng.choice([Fraction(0), Fraction(1, 8), Fraction(1, 4), Fraction(1, 2)])
    rho = Fraction(rng.randrange(0, 9), 8)
    return {"kind": "ART2A", "rho": rho, "alpha": alpha, "beta": beta}


def gen_art1_kernel(rng):
    return {"kind": "ART1", "rho": Fraction(rng.randrange(0, 9), 8), "L": rng.choice([Fraction(1), Fraction(2), Fraction(3, 2)])}


def gen_kernel_and_rows(rng, kind, nmax=15):
    """kernel parameters plus a tie-/duplicate-heavy data set the kernel's validation accepts"""
    if kind == "Fuzzy":
        k = gen_fuzzy_kernel(rng)
        d = rng.choice([1, 2, 2, 4])      # dim_original a power of two: the match value |x^w|/d stays a dyadic rational (exact regime)
        n = rng.randrange(2, nmax if k["beta"] != Fraction(3, 4) else min(nmax, 9))
        return k, grid_rows(rng, n, d)
    if kind == "ART2A":
        k = gen_art2a_kernel(rng)
        d = rng.choice([1, 2, 3, 4])
        while k["alpha"] * k["alpha"] * d > 1:
            d -= 1
        n = rng.randrange(2, nmax if k["beta"] in (Fraction(1), Fraction(1, 2)) else min(nmax, 9))
        return k, grid_rows(rng, n, d, cc=False)
    if kind == "ART1":
        k = gen_art1_kernel(rng)
        d = rng.randrange(2, 9)
        n = rng.randrange(2, nmax)
        pool = [[Fraction(rng.randrange(0, 2)) for _ in range(d)] for _ in range(rng.choice([2, 3, 4, 6]))]
        rows = []
        for _ in range(n):
            r = list(rng.choice(pool))
            if rng.random() < 0.2:
                j = rng.randrange(d); r[j] = 1 - r[j]
            if not any(r):
                r[rng.randrange(d)] = Fraction(1)      # non-zero rows: the quantifier's standing assumption
            rows.append(r)
        if k["rho"] == 0 and k["L"] == 1:
            k["L"] = Fraction(2)
        return k, rows
    raise ValueError(kind)


def summary(k, ops):
    """JSON-able description of a case (also the replay)"""
    if str(k.get("kind", "")).startswith("K:"):
        est = {"kind": k["kind"], "p": {kk: (np.asarray(vv).tolist() if isinstance(vv, np.ndarray) else vv) for kk, vv in k["p"].items()}}
    else:
        est = {kk: str(vv) for kk, vv in k.items()}
    return {"estimator": est,
            "ops": [{"op": o["op"], "mode": o.get("mode"), "eps": str(o.get("eps")), "veto": o.get("veto"),
                     "X": [[str(v) for v in r] for r in o["X"]]} for o in ops]}


def gen_any_kernel_and_rows(rng, nmax=14):
    """any of the eight elementary modules, float data (duplicates frequent); for implementation-side oracles"""
    import kernfam
    kind = rng.choice(kernfam.KINDS)
    d = rng.choice([1, 2, 3]) if kind in ("Bayes", "Quad") else rng.choice([1, 2, 3, 4])
    p = kernfam.gen_params(rng, kind, d)
    if kind == "Fuzzy" and p["rho"] == 0.0 and p["alpha"] == 0.0:
        p["alpha"] = 1e-3
    if kind in ("Hyper", "Ellip") and p["rho"] == 0.0 and p["alpha"] == 0.0:
        p["alpha"] = 1e-3
    if kind == "ART1" and p["rho"] == 0.0 and p["L"] == 1.0:
        p["L"] = 2.0
    X = kernfam.gen_data(rng, kind, rng.randrange(3, nmax), d)
    return {"kind": "K:" + kind, "p": p, "rho": p["rho"]}, [[float(v) for v in r] for r in X]


def gen_any_history(rng):
    """like histfam.gen_history, for any module, float data"""
    k, rows = gen_any_kernel_and_rows(rng)
    mode = rng.choice(MODES)
    eps = rng.choice([0.0, 1e-10, 1e-3, 0.05])
    veto = gen_veto(rng) if rng.random() < 0.5 else None
    t = lambda op, X: {"op": op, "X": X, "mode": mode, "eps": eps, "veto": veto}
    shape = rng.choice(["fit", "pf", "fit+pf", "fit+fit"])
    if shape == "fit":
        ops = [t("fit", rows)]
    elif shape == "pf":
        ops = [t("partial_fit", b) for b in split_batches(rng, rows, rng.randrange(1, 4))]
    elif shape == "fit+pf":
        h = max(1, len(rows) // 2)
        ops = [t("fit", rows[:h]), t("partial_fit", rows[h:] or rows[:1])]
    else:
        h = max(1, len(rows) // 2)
        ops = [t("fit", rows[:h]), t("fit", list(reversed(rows)))]
    ops.append({"op": "predict", "X": [list(rng.choice(rows)) for _ in range(rng.randrange(1, 5))]})
    return k, ops

"""Generic check flow: proof gate, correspondence shards, oracle failures,
known findings, extended failing-input search, verdict and evidence."""
import time

import common as C

HEADER = ("From Coq Require Import QArith List ZArith.\nFrom ART Require Import Num Kernel.\n"
          "From ARTcorr Require Import {runner}.\nImport ListNotations.\nOpen Scope Q_scope.\n")


def coq_corr(prop, runner, case_strs, shard=150, check_fn="check", extra_imports=""):
    """run `map check cases` in Coq over shards; returns (codes, failed_shards_logs)"""
    shards = [case_strs[i:i + shard] for i in range(0, len(case_strs), shard)]
    texts = []
    for sh in shards:
        texts.append(HEADER.format(runner=runner) + extra_imports +
                     "Definition cases := [\n" + ";\n".join(sh) + "].\n"
                     f"Eval vm_compute in (map {check_fn} cases).\n")
    res, logs = C.run_coq_shards(prop, texts)
    codes, bad = [], []
    for sh, r, lg in zip(shards, res, logs):
        if r is None or not r or len(r[0]) != len(sh):
            codes.extend([None] * len(sh))
            bad.append(lg[-1500:])
        else:
            codes.extend(r[0])
    return codes, bad


def decide(v, prop, gate_ok, ob, corr_items, oracle_failures, extended_search=None, is_site_known=None):
    """corr_items: list of (code, case_summary) - code 0 agree, None = shard failed, else mismatch.
    oracle_failures: list of dict(signature=..., replay=..., text=...).
    is_site_known(case_summary, code) -> signature or None : correspondence mismatch explained by a known finding.
    extended_search() -> list of further oracle failures (same format)."""
    import probes
    probe_fails, n_probes = probes.run(prop)
    v.cov["audit_probes_run"] = n_probes
    v.cov["audit_probes_fired"] = sorted(f["signature"] for f in probe_fails)
    oracle_failures = list(oracle_failures) + probe_fails
    unknown = []
    for f in oracle_failures:
        kf = C.match_known(prop, f["signature"])
        if kf is not None:
            v.known(f["signature"], kf.get("text", f["signature"]))
        else:
            unknown.append(f)
    mism = []
    for code, summ in corr_items:
        if code == 0:
            continue
        sig = is_site_known(summ, code) if is_site_known else None
        if sig and C.match_known(prop, sig) is not None:
            v.known(sig, C.match_known(prop, sig).get("text", sig))
            continue
        mism.append((code, summ))
    broken = (not gate_ok) or bool(mism)
    # anchored source functions that changed since the model was last reconciled with them (not a violation by itself)
    try:
        import anchors
        drift = anchors.changed(C.REPO, prop)
    except Exception as e:      # the detector must never decide a verdict
        drift = ["<detector failed: %s>" % type(e).__name__]
    v.cov["anchored_source_changed"] = drift
    if unknown:
        for f in unknown[:3]:
            v.violation(dict(f["replay"], property=prop, signature=f["signature"], what=f.get("text", "")))
    elif broken:
        more = extended_search() if extended_search else []
        more_unknown = [f for f in more if C.match_known(prop, f["signature"]) is None]
        if more_unknown:
            for f in more_unknown[:3]:
                v.violation(dict(f["replay"], property=prop, signature=f["signature"], what=f.get("text", "")))
        else:
            rep = {"property": prop, "kind": "no-failing-input-found"}
            if not gate_ok:
                rep["broken_obligation"] = {"theorems": ob.get("theorems"), "log": ob.get("log", "")[-1200:],
                                            "notes": v.notes[-3:]}
            if mism:
                code, summ = mism[0]
                rep["broken_correspondence"] = {"runner_code": code, "case": summ,
                                                "meaning": "100*(op index+1)+field; None = Coq shard failed",
                                                "n_mismatching_cases": len(mism)}
            v.violation(rep, no_input=True)
    elif drift and extended_search:
        # the code the model describes was edited: the model may be stale, so search harder before saying "holds"
        more = extended_search()
        for f in [f for f in more if C.match_known(prop, f["signature"]) is None][:3]:
            v.violation(dict(f["replay"], property=prop, signature=f["signature"], what=f.get("text", "")))
        v.cov["extended_search_after_source_change"] = len(more)
    v.cov["correspondence_mismatches"] = len(mism)
    v.cov["oracle_failures_unknown"] = len(unknown)
    v.cov["disagreements_checked"] = len(mism)
